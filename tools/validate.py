#!/usr/bin/env python3
"""Validates MANIFEST.json and evidence/*.json against the schemas (needs jsonschema: run with python3-vt)."""
import glob, json, sys
import jsonschema
ok = True
man = json.load(open("/verif/MANIFEST.json"))
jsonschema.validate(man, json.load(open("/root/.vp/MANIFEST.schema.json")))
sch = json.load(open("/root/.vp/EVIDENCE.schema.json"))
ids = {c["property_id"] for c in man["checks"]}
for pid in sorted(ids):
    f = "/verif/evidence/%s.json" % pid
    try:
        ev = json.load(open(f))
        jsonschema.validate(ev, sch)
        c = ev["coverage"]
        assert ev["property_id"] == pid
        if ev["level"] == "proof":
            assert c["obligations"] == c["discharged"] >= 1, (c["obligations"], c["discharged"])
        assert c.get("samples"), "no samples"
        assert c.get("distinct_nontrivial", 0) >= 2, "distinct_nontrivial"
        print(pid, "ok", ev["tier"], "obl=%d" % c["obligations"], "eval=%s" % c.get("evaluations"), "nontrivial=%s" % c.get("distinct_nontrivial"),
              "viol=%s" % ev.get("violations"), "%.0fs" % ev["wall_s"])
    except Exception as ex:
        ok = False
        print(pid, "BAD", ex)
props = [json.loads(l)["id"] for l in open("/verif/properties.jsonl") if l.strip()]
na = {n["property_id"] for n in man.get("not_applicable", [])}
missing = [p for p in props if p not in ids and p not in na]
print("unaccounted properties:", missing)
sys.exit(0 if ok and not missing else 1)
