#!/usr/bin/env python3
"""debug helper: python3 tools/wdebug.py <workdir> <cases file basename> <case id> -> prints model vs implementation observation"""
import re, subprocess, sys, os
work, base, cid = sys.argv[1], sys.argv[2], int(sys.argv[3])
src = open(os.path.join(work, base + ".v")).read()
# find the case term
m = re.search(r"\(mkW %d \(mkScn" % cid, src)
start = m.start()
depth = 0
i = start
while True:
    ch = src[i]
    if ch == "(":
        depth += 1
    elif ch == ")":
        depth -= 1
        if depth == 0:
            break
    i += 1
term = src[start:i + 1]
hdr = src[:src.index("Definition cases")]
body = hdr + "Definition c := %s.\nEval vm_compute in (ob_outcome (model_obs repaired c), ob_outcome (w_obs c)).\nEval vm_compute in (ob_log (model_obs repaired c)).\nEval vm_compute in (ob_log (w_obs c)).\nEval vm_compute in (ob_fields (model_obs repaired c)).\nEval vm_compute in (ob_fields (w_obs c)).\nEval vm_compute in (ob_lookups (model_obs repaired c)).\nEval vm_compute in (ob_lookups (w_obs c)).\nEval vm_compute in (ob_logafter (model_obs repaired c)).\nEval vm_compute in (ob_logafter (w_obs c)).\nEval vm_compute in (ob_bulk (model_obs repaired c), ob_bulk (w_obs c)).\nEval vm_compute in (obs_eqb (model_obs repaired c) (w_obs c), failed_lookups_eqb (model_obs repaired c) (w_obs c), ops_eqb (model_obs repaired c) (w_obs c)).\n" % term
f = os.path.join(work, "dbg.v")
open(f, "w").write(body)
verif = os.path.dirname(os.path.dirname(os.path.abspath(__file__)))
out = subprocess.run(["coqc", "-Q", os.path.join(verif, "coq"), "IocVerif", f], stdout=subprocess.PIPE, stderr=subprocess.STDOUT).stdout.decode()
print(out)
