"""C17 — configuration values reach fields unchanged (prefix / value placeholder / prop shorthand / literals).

Generates configured values (ints of any magnitude, decimals, booleans, strings incl. number-like, bool-like, quoted,
bracketed, with spaces/commas/colons/placeholder characters, lists, nested maps) x field types (scalars of every width,
pointers, slices, maps, structs with yaml tags, interface{}), binds each pair through the REAL container three ways
(prefix twin, value placeholder, prop shorthand; one App.Run per route) plus literal value tags (harness/cmd/c17, types
built with reflect.StructOf, configuration through a RawLoader YAML document) and evaluates model and oracle in Coq
(Corr/Check_C17.v).  The model's input is what Configure.Get(key) really returned.

Further streams: placeholders that carry a default (value:"${key:d}" / prop:"key:d") on keys that are present - often with
the empty string as value -, absent, or present with an empty list / map; placeholders spliced into a longer literal
(kind tpl); and GROUPS: several starts per driver process, several components per start, several bindings per component,
with the tag argument mapper=<tag key> on some bindings and struct types whose yaml / json / mapstructure tag names differ
from the Go field names (Values.gtype / bound_type: a property's decoder reads the tags its OWN mapper argument names,
yaml by default).  Every group runs in a process of its own, so a replay of a group is self-contained.

SHARING groups (group["mutate"]): several fields, components and starts bind the SAME keys (maps and lists of the
configuration, into map[string]any / []any / any / typed maps, slices, structs, by prefix, value placeholder and prop), and
a post-processor of the driver plays "component that changes what it was given": it visits every field as soon as its
component is initialised, takes the observation and THEN scribbles over the bound map / slice in place.  Every observation
is therefore made after all earlier holders of the same configured value changed their copies, and Configure.Get is read
again afterwards on the same App (Check_C17.cget2 / config_kept).  The driver also goes into the maps / lists held in
interface-typed positions ("deep"; since the repair D-C17j of /repo — VERIF_C17_DEEP=0 restricts it to what is reachable
through declared container types, which is all the unrepaired tree withstood)."""
import copy
import glob
import json
import os
from decimal import Decimal

import vlib

MANIFEST = {
    "level": "proof",
    "text": "Rocq theorems over Model/Values.v (decode_weak = the weak mapstructure decoding Property.Unmarshall uses, over the "
            "strconv2 / encoding/json model of Model/Strconv.v and the ${} stage of Model/Placeholder.v) for all configuration "
            "values and field types: prefix binding is decode_weak of the configured subtree - element-wise for lists, value-wise "
            "for maps, field-wise by yaml tag / case-insensitive name for structs - and leaves a value that already has the field's "
            "type unchanged to any depth (c17_prefix_exact, c17_prefix_string; nested induction over ftype); the value-placeholder "
            "route and the prop shorthand bind the same field as the prefix route for EVERY (value, type) in the boolean domain "
            "`safe` - plain strings, booleans, integers up to 2^53 into non-interface targets, floats that %v writes in plain "
            "digits, lists and maps of JSON-plain strings / such numbers into slices, maps, structs, pointers (c17_paths_agree, "
            "c17_paths_agree_key through the real tag text, c17_prop_is_value, c17_prop_agrees; proved by induction via a JSON "
            "print/parse round trip and decimal digit arithmetic, not sampled); a default written in the placeholder plays no part "
            "for a key that is present, the empty string included (c17_default_only_for_absent); a plain literal reaches a string "
            "field as written (c17_literal*). Outside `safe` the statement is false of the format->splice->re-parse value path: nine refuted "
            "theorems, one per known-finding class KF-C17a..i; for class g a small repair exists (fixes/D-C17g.diff) and is a "
            "parameter of the model (c17_float_repaired). Tied to the code on every run by vm_compute against real App.Run starts "
            "binding each generated value three ways (with and without a placeholder default, alone and inside a longer literal) "
            "plus literal tags, and against groups of starts in one process whose bindings carry mapper=<tag key> arguments over "
            "structs with yaml / json tag names that differ from the field names (each binding is predicted from its own tag only); sharing groups (no storage shared between bound values and the configuration, also inside interface-typed positions) and retry groups (one component definition populated again after Configure.Set: Model/Rebind.v, c17_repopulate_*, c17_rebind_after_set); embedded struct fields",
    "design_ref": "DESIGN.md 5 C17",
    "note": "trusted: Coq kernel + vm_compute; hand-written models of strconv2 v0.0.2 ParseAny/FormatAny, encoding/json and the "
            "weak-decoding subset of mapstructure v1.5.0 (third-party, modelled as they behave; dw_modelled / text_in_fragment state "
            "where the model claims faithfulness, everything else is compared by the model-independent part of the oracle only); "
            "viper/yaml.v3 are the source of Configure.Get and not modelled (the model starts from the observed Get result); "
            "float64 = exact decimals of at most 15 significant digits, integers up to 2^53 (float32: 6 digits, normal range); "
            "keys are lower-case identifiers; literals stay inside the tag grammar (no top-level comma - C19 -, no ${ / #{ - "
            "C16/C18); expr-lang is not modelled; which variant of the value path the tree has (unchanged / D-C17g) is read off the "
            "running code; Go harness (reflect.StructOf types, child processes with time limits) and Python generators",
    "technique": "Rocq proof (structural induction over nested inductives with hand-written induction principles, JSON "
                 "print/parse round trip with fuel discharged by proof, decimal digit arithmetic over Decimal.uint) + vm_compute "
                 "correspondence against the Go implementation + mutation self-test",
}

HEADER = ("From Coq Require Import List NArith ZArith Bool.\n"
          "From IocVerif Require Import Model.Values Corr.Check_C17.\n"
          "Import ListNotations.\nLocal Open Scope list_scope.\n")

KF_IDS = {1: "KF-C17a", 2: "KF-C17b", 3: "KF-C17c", 4: "KF-C17d", 5: "KF-C17e", 6: "KF-C17f", 7: "KF-C17g",
          8: "KF-C17h", 9: "KF-C17i"}

# ------------------------------------------------------------------------------------------------
# pools

PLAIN = ["hello", "hello world", "a b  c", "x:y", "k=v", "a,b", "a, b ,c", "semi;colon", "path/to/file.txt",
         "http://host:8080/p?q=1&r=2", "it's", "say \"hi\" now", "tab\there", "naïve café", "日本語",
         "trailing ", " leading", "UPPER lower", "nil", "null", "<nil>", "~", "yes", "no", "on", "off", "t", "f", "T", "F",
         "0x1F", "1e5", "1_000", ".5", "5.", "1.2.3", "12ab", "-", "+", "e", "inf", "NaN", "x<y&z>", "back\\slash",
         "{x:1}", "{not json}", "(paren)", "a]b[c", "]x[", "map[", "percent %d %s", "dollar $HOME", "brace { open",
         "hash # tag", "$", "#", "{}x", "[]x", "x[]", "x{}", "1e+06", "v1.2.3", "10.0.0.1", "12:30", "2024-01-02",
         "user@example.com", "a\nb", "x'y", "q\"r", "é", "-x", "+x", "--flag", "8080/tcp", "1,5", "50%", "#fff",
         "$1", "[", "]", "{", "}", "a=b,c=d", "key: value", "- item", "? q", "| pipe", "> gt", "&anchor", "*alias", "!tag"]
NUMLIKE = ["1.10", "007", "+5", "0", "00", "123", "-4", "3.14", "1.0", "0.50", "10", "+0.5", "9007199254740993", "00.1",
           "8080", "-0.0", "42", "1000000", "0.00001", "123456789012345678901234567890", "-7.250", "08", "0777"]
BOOLLIKE = ["true", "false", "TRUE", "False", "tRuE", "FALSE", "True"]
QUOTED = ["'q'", "\"q\"", "'hello world'", "''", "\"\"", "'", "\"", "'a\"'", "\"it's\"", "'1.10'", "'true'"]
BRACKETED = ["[a,b]", "[1,2]", "[]", "{}", "{\"x\":1}", "map[a:b]", "map[]", "[a]b]", "[[1],[2]]", "[ ]",
             "{\"a\":{\"b\":[1,2]}}", "map[a:b c:d]", "[a b]", "['x','y']", "[a,,b]", "map[a]", "[\"a\",\"b c\"]",
             "[true,1.50,x]", "{\"k\":\"v\",\"n\":null}", "map[a:1 b:true]", "[x", "{y"]
PLACEHOLDER = ["${nokey}", "${nokey:dflt}", "#{1+2}", "a${nokey}b", "#{'x'}", "${nokey:7}x", "pre #{2*3} post"]
NEAR_PLACEHOLDER = ["${", "#{", "$}{", "${open", "#}", "$ {x}", "# {1}"]
INTS = [0, 1, -1, 7, 42, 80, 443, 8080, -4, 255, 256, 127, 128, -128, -129, 65535, 65536, 2 ** 31 - 1, 2 ** 31, 2 ** 32,
        10 ** 6, 10 ** 15, 2 ** 53 - 1, 2 ** 53, 2 ** 53 + 1, 2 ** 53 + 2, -(2 ** 53) - 1, 10 ** 16 + 1, 2 ** 63 - 1, -2 ** 63,
        2 ** 63, 2 ** 64 - 1, 123456789012345678, 999999, 1000000, 100, 1000, -1000000]
FLOATS = ["1.5", "0.5", "-3.75", "2.25", "3.14159", "100.0", "7.0", "0.1", "0.001", "0.0001", "123456.7", "999999.5", "0.3",
          "1.10", "-0.25", "12.125", "99.99", "0.75", "-1.0", "250.5"]
EFORM_FLOATS = ["1000000.0", "1234567.5", "12345678.5", "0.00001", "1e21", "1e-7", "2.5e10", "-1500000.0", "0.000012"]
WIDE_FLOATS = ["0.1234567890123456789", "1e100", "1.7976931348623157e308", "123456789.123456789", "18446744073709551616"]
KEYS = ["k", "cfg.val", "app.name", "a.b.c", "srv.opts"]
SUBKEYS = ["name", "port", "host", "tags", "opts", "mode", "a", "b", "c", "ttl", "x", "enabled", "rate", "in"]
GONAME = {"name": "Name", "port": "Port", "host": "Host", "tags": "Tags", "opts": "Opts", "mode": "Mode", "a": "A",
          "b": "B", "c": "C", "ttl": "TTL", "x": "X", "enabled": "Enabled", "rate": "Rate", "in": "In"}
LITERALS = ["hello", "hello world", "a:b", "x=y", "007", "1.10", "+5", "TRUE", "False", "true", "'q'", "\"q\"",
            "[a,b]", "[1,2,3]", "{\"a\":1}", "map[a:b]", "map[a:1 b:2]", "123", "-4.5", "0", "café", "a b  c",
            "path/to/x.txt", "it's", "{x:1}", "(a,b)", "[\"x\",\"y z\"]", "{\"name\":\"n\",\"port\":80}", "3.0",
            "1e5", "0x1F", "nil", "<nil>", "x<y", "semi;colon", "[]", "{}", "map[]", "12ab", "yes", "T", "'", "''",
            "9007199254740993", "1000000", "0.00001", "[[1,2],[3]]", "[{\"a\":1}]", "UPPER", "t", "f", "1", "-1",
            "tab\there", "[true,false]", "[1.5,2]", "'[a,b]'", "\"007\""]


# placeholder defaults (no top-level comma, no brace), text around a placeholder (no sigil, no brace, no comma)
DEFAULTS = ["dflt", "INFO - ", "fallback", "7", "007", "2.5", "true", "x y", "a:b", "localhost:8080", "none", "[a,b]", "0",
            "'q'", "TRUE", "-", "default value"]
TPL_PFX = ["", "", "pre-", "http://", "v", "x ", "id=", "[", "user: ", "a.b.", "INFO - ", "/srv/", "1", "'"]
TPL_SFX = ["", "", "-post", "weekly report", "/path", ".local", " y", "=1", "]", "@example.org", ":8080", "0", "'"]
MAPPERS = ["json", "json", "json", "json", "yaml", "toml", "mapstructure"]
# top-level strings that are in the domain of c17_paths_agree (plain, non-empty, no sigil): every route binds them
WT_WORDS = ["hello", "hello world", "x:y", "k=v", "path/to/file.txt", "UPPER lower", "v1.2.3", "user@example.com",
            "primary", "a.example.org", "localhost", "eu-west-1", "semi;colon", "it's", "(paren)", "trailing ", "nil", "yes",
            "e", "on", "percent %d", "a b  c", "key: value", "x'y"]


# struct fields: [go name, yaml tag text, T] or [go name, yaml tag text, T, {tag key: tag text}] (further struct tags)
def field_tags(f):
    tags = [("yaml", f[1])] if f[1] else []
    if len(f) > 3:
        tags += sorted(f[3].items())
    return tags


def match_name(f, tagkey="yaml"):
    """the name mapstructure matches keys against when DecoderConfig.TagName = tagkey (the Coq side computes it again:
    Values.match_name; this copy decides which keys the generator configures and how observations are labelled)"""
    text = dict(field_tags(f)).get(tagkey, "")
    return text.split(",")[0] or f[0]


def decoder_tag(mapper):
    return "yaml" if mapper is None else (mapper or "mapstructure")


# ------------------------------------------------------------------------------------------------
# values: ["n"] | ["b", bool] | ["i", int] | ["f", "1.5"] | ["s", str] | ["l", [v..]] | ["m", [[k, v]..]]

def gen_string(rng, top):
    """top = the string is the configured value itself (the classes a-d, h, i concern only those)"""
    r = rng.random()
    if r < 0.58:
        return rng.choice(PLAIN)
    if r < 0.70:
        return rng.choice(NUMLIKE)
    if r < 0.77:
        return rng.choice(BOOLLIKE)
    if r < 0.83:
        return rng.choice(QUOTED)
    if r < 0.91:
        return rng.choice(BRACKETED)
    if r < 0.94:
        return rng.choice(PLACEHOLDER)
    if r < 0.97:
        return rng.choice(NEAR_PLACEHOLDER)
    return ""


def gen_int(rng):
    r = rng.random()
    if r < 0.7:
        return rng.choice(INTS)
    if r < 0.85:
        return rng.randint(-10 ** 6, 10 ** 6)
    return rng.choice([1, -1]) * rng.getrandbits(rng.choice([20, 40, 52, 53, 54, 60, 63]))


PRECISE_FLOATS = ["52.5200065", "1234567.891", "0.000123456789", "13.404954", "99999.9999999", "3.14159265358979",
                  "0.1000000001", "123456.789012345", "-77.0364827", "1.00000001", "299792.458001", "6.02214076",
                  "0.30000000004", "16777217.5", "2.718281828459", "-0.00098765432"]


def gen_precise_float(rng):
    """a decimal of 8-15 significant digits (exact in the model's float64 fragment, but not a float32): mostly of a
    magnitude that %v writes in plain digits (1e-4 <= |x| < 1e6), sometimes beyond (exponent form: class KF-C17g)"""
    if rng.random() < 0.3:
        return rng.choice(PRECISE_FLOATS)
    nd = rng.randint(8, 15)
    digits = [rng.randint(1, 9)] + [rng.randint(0, 9) for _ in range(nd - 2)] + [rng.randint(1, 9)]
    m = int("".join(str(d) for d in digits))
    dexp = rng.choice([-4, -3, -2, -1, 0, 0, 1, 1, 2, 2, 3, 4, 5, 5]) if rng.random() < 0.85 else \
        rng.choice([-7, -5, 6, 7, 9, 12])
    if dexp - nd + 1 >= 0:                      # an integral float: keep a fraction so that YAML reads a float
        dexp = nd - 2
    d = Decimal(m).scaleb(dexp - nd + 1)
    return ("-" if rng.random() < 0.25 else "") + format(d, "f")


def sig_digits(text):
    me = dec_norm(text)
    return len(str(abs(me[0]))) if me and me[0] else 0


def gen_float(rng):
    r = rng.random()
    if r < 0.50:
        return rng.choice(FLOATS)
    if r < 0.58:
        return "%d.%d" % (rng.randint(-9999, 9999), rng.randint(1, 999))
    if r < 0.86:
        return gen_precise_float(rng)
    if r < 0.95:
        return rng.choice(EFORM_FLOATS)
    return rng.choice(WIDE_FLOATS)


def gen_scalar(rng, top=False, want=None):
    k = want or rng.choice(["s", "s", "s", "i", "i", "f", "b"])
    if k == "s":
        return ["s", gen_string(rng, top)]
    if k == "i":
        return ["i", gen_int(rng)]
    if k == "f":
        return ["f", gen_float(rng)]
    if k == "b":
        return ["b", rng.random() < 0.5]
    return ["n"]


def gen_any_value(rng, depth=0):
    r = rng.random()
    if depth >= 2 or r < 0.55:
        return gen_scalar(rng, depth == 0)
    if r < 0.78:
        return ["l", [gen_any_value(rng, depth + 1) for _ in range(rng.choice([0, 1, 2, 2, 3]))]]
    keys = rng.sample(SUBKEYS, rng.choice([0, 1, 2, 2, 3]))
    return ["m", [[k, gen_any_value(rng, depth + 1)] for k in keys]]


def fit(rng, t, depth=0, top=True):
    """a value that suits type t (mostly), so that conversions succeed more often than not"""
    k = t[0]
    r = rng.random()
    if r < 0.03 and not top:
        return ["n"]
    if k == "string":
        return gen_scalar(rng, top, "s") if r < 0.8 else gen_scalar(rng, top)
    if k == "bool":
        if r < 0.5:
            return ["b", rng.random() < 0.5]
        if r < 0.75:
            return ["s", rng.choice(["true", "false", "1", "0", "t", "F", "TRUE", "True", "yes", "", "2"])]
        return gen_scalar(rng, top)
    if k in ("int", "uint"):
        if r < 0.55:
            return ["i", gen_int(rng)]
        if r < 0.7:
            return ["f", gen_float(rng)]
        if r < 0.88:
            return ["s", rng.choice(NUMLIKE + ["8080", "-5", "255", "256", "0x10", "1_0", "", "12ab", "1e3", " 5", "+"])]
        return gen_scalar(rng, top)
    if k == "float":
        if r < 0.5:
            return ["f", gen_float(rng)]
        if r < 0.7:
            return ["i", gen_int(rng)]
        if r < 0.88:
            return ["s", rng.choice(NUMLIKE + ["1e5", ".5", "5.", "inf", "nan", "", "abc", "1.5x"])]
        return gen_scalar(rng, top)
    if k == "any":
        return gen_any_value(rng, depth)
    if k == "ptr":
        return fit(rng, t[1], depth, top)
    if k == "slice":
        if r < 0.72:
            return ["l", [fit(rng, t[1], depth + 1, False) for _ in range(rng.choice([0, 1, 2, 2, 3, 4]))]]
        if r < 0.92:
            return fit(rng, t[1], depth, top)          # a single value is lifted
        return ["m", []]
    if k == "map":
        if r < 0.8:
            keys = rng.sample(SUBKEYS, rng.choice([0, 1, 2, 2, 3]))
            return ["m", [[kk, fit(rng, t[1], depth + 1, False)] for kk in keys]]
        if r < 0.9:
            return ["l", [["m", [[rng.choice(SUBKEYS), fit(rng, t[1], depth + 1, False)]]] for _ in range(rng.choice([0, 1, 2]))]]
        return gen_any_value(rng, depth)
    if k == "struct":
        if r < 0.9:
            kv = []
            for f in t[1]:
                if rng.random() < 0.8:
                    kv.append([match_name(f).lower(), fit(rng, f[2], depth + 1, False)])
            if rng.random() < 0.3:
                extra = rng.choice(SUBKEYS)
                if extra not in [x[0] for x in kv]:
                    kv.append([extra, gen_scalar(rng)])
            rng.shuffle(kv)
            return ["m", kv]
        return gen_any_value(rng, depth)
    raise ValueError(t)


# ------------------------------------------------------------------------------------------------
# types: ["string"] ["bool"] ["int", bits] ["uint", bits] ["float", bits] ["any"] ["ptr", T] ["slice", T] ["map", T]
#        ["struct", [[goname, yamltag, T]...]]

def gen_scalar_type(rng):
    r = rng.random()
    if r < 0.34:
        return ["string"]
    if r < 0.46:
        return ["bool"]
    if r < 0.66:
        return ["int", rng.choice([0, 0, 0, 8, 16, 32, 64])]
    if r < 0.76:
        return ["uint", rng.choice([0, 0, 8, 16, 32, 64])]
    if r < 0.88:
        return ["float", rng.choice([64, 64, 64, 32])]
    return ["any"]


def gen_type(rng, depth=0):
    r = rng.random()
    if depth >= 2 or r < 0.42:
        return gen_scalar_type(rng)
    if r < 0.52:
        return ["ptr", gen_type(rng, depth + 1)]
    if r < 0.72:
        return ["slice", gen_type(rng, depth + 1)]
    if r < 0.86:
        return ["map", gen_type(rng, depth + 1)]
    names = rng.sample(SUBKEYS, rng.choice([1, 2, 2, 3, 4]))
    return ["struct", [gen_field(rng, i, n, gen_type(rng, depth + 1)) for i, n in enumerate(names)]]


def gen_field(rng, i, n, ft, renamed=0.45):
    """a struct field for the base name n (distinct per struct): Go name, yaml tag, further tags.  Whatever tag key the
    decoder uses, the match names of one struct stay distinct (also case-insensitively) and lower-case-able."""
    r = rng.random()
    extra = {}
    if r < 1 - renamed:
        go, tag = GONAME[n], ("" if rng.random() < 0.75 else n)            # the yaml name is the Go name
    elif r < 1 - renamed / 2:
        go, tag = "F%d%s" % (i, GONAME[rng.choice(SUBKEYS)]), n            # yaml tag differs from the Go name
    else:
        go, tag = GONAME[n], rng.choice([n + "_y", "x_" + n])              # snake-case yaml name, Go name still matches n
    if tag and rng.random() < 0.2:
        tag += ",omitempty"
    rj = rng.random()
    if rj < 0.25:
        extra["json"] = rng.choice([n + "J", "j_" + n]) + (",omitempty" if rng.random() < 0.3 else "")
    elif rj < 0.33:
        extra["json"] = n
    elif rj < 0.37:
        extra["mapstructure"] = "m_" + n
    return [go, tag, ft, extra] if extra else [go, tag, ft]


def hexs(x):
    return x.encode().hex()


PRE_WORDS = ["dflt", "keep me", "0", "x", "localhost", "true", "12"]
PRE_KEYS = ["dflt", "keep", "zone", "env"]


def gen_pre_any(rng, depth=0):
    r = rng.random()
    if depth >= 1 or r < 0.5:
        return rng.choice([{"s": hexs("dflt")}, {"i": "7"}, {"f": "2.5"}, {"b": True}, {"s": hexs("12")}])
    if r < 0.75:
        return {"l": [gen_pre_any(rng, depth + 1) for _ in range(rng.choice([2, 3, 4]))]}
    return {"m": sorted([hexs(k), gen_pre_any(rng, depth + 1)] for k in rng.sample(PRE_KEYS + ["name", "port"], 2))}


def gen_prefill(rng, t, depth=0):
    """an <fval> of type t that is not the zero value: what a constructor left in the field (slices longer than the
    lists the generator configures, maps with keys of their own, structs with every field set)"""
    k = t[0]
    if k == "string":
        return {"S": hexs(rng.choice(PRE_WORDS))}
    if k == "bool":
        return {"B": rng.random() < 0.85}
    if k == "int":
        return {"I": str(rng.choice([1, 7, 42, -3, 100]))}
    if k == "uint":
        return {"I": str(rng.choice([1, 7, 42, 100]))}
    if k == "float":
        return {"F": rng.choice(["0.5", "2.25", "-1.5", "8"])}
    if k == "any":
        return {"A": gen_pre_any(rng)}
    if k == "ptr":
        return {"N": 1} if rng.random() < 0.12 else {"P": gen_prefill(rng, t[1], depth)}
    if k == "slice":
        if rng.random() < 0.06:
            return {"L": []}
        n = rng.choice([3, 4, 5, 6]) if depth == 0 else rng.choice([1, 2, 3])
        return {"L": [gen_prefill(rng, t[1], depth + 1) for _ in range(n)]}
    if k == "map":
        keys = rng.sample(PRE_KEYS, rng.choice([1, 2, 2, 3]))
        if rng.random() < 0.5:
            keys.append(rng.choice(SUBKEYS))           # a key the configuration may supply as well
        return {"M": sorted([hexs(kk), gen_prefill(rng, t[1], depth + 1)] for kk in set(keys))}
    if k == "struct":
        return {"T": [[hexs(match_name(f)), gen_prefill(rng, f[2], depth + 1)] for f in t[1]]}
    raise ValueError(t)


def default_prefill(t):
    """deterministic pre-fill (for shrunk types)"""
    k = t[0]
    if k == "string":
        return {"S": hexs("dflt")}
    if k == "bool":
        return {"B": True}
    if k in ("int", "uint"):
        return {"I": "7"}
    if k == "float":
        return {"F": "0.5"}
    if k == "any":
        return {"A": {"m": [[hexs("keep"), {"i": "7"}]]}}
    if k == "ptr":
        return {"P": default_prefill(t[1])}
    if k == "slice":
        return {"L": [default_prefill(t[1]) for _ in range(4)]}
    if k == "map":
        return {"M": [[hexs("dflt"), default_prefill(t[1])], [hexs("keep"), default_prefill(t[1])]]}
    return {"T": [[hexs(match_name(f)), default_prefill(f[2])] for f in t[1]]}


def gen_container_type(rng):
    """top-level slice / map / struct (sometimes behind a pointer or in interface{}) three times out of four"""
    r = rng.random()
    if r < 0.28:
        return ["slice", gen_type(rng, 1)]
    if r < 0.50:
        return ["map", gen_type(rng, 1)]
    if r < 0.72:
        while True:
            t = gen_type(rng, 0)
            if t[0] == "struct":
                return t
    if r < 0.80:
        return ["ptr", gen_container_type(rng)]
    return gen_type(rng)


def type_go(t, tagkey="yaml"):
    k = t[0]
    if k in ("string", "bool", "any"):
        return {"k": k}
    if k in ("int", "uint", "float"):
        return {"k": k, "bits": t[1]}
    if k in ("ptr", "slice", "map"):
        return {"k": k, "e": type_go(t[1], tagkey)}
    # a struct-typed field is an EMBEDDED one in one case of three (decided by its name): it is still bound from the subtree
    # under its own name, like every other field
    return {"k": "struct", "f": [{"go": f[0], "tags": [{"k": a, "v": b} for a, b in field_tags(f)],
                                 "name": match_name(f, tagkey), "t": type_go(f[2], tagkey),
                                 "anon": f[2][0] == "struct" and sum(map(ord, f[0])) % 3 == 0} for f in t[1]]}


def type_coq(t):
    """the declared type (Values.gtype): Go names and struct tags; the Coq side picks the names (Values.erase)"""
    k = t[0]
    if k == "string":
        return "GString"
    if k == "bool":
        return "GBool"
    if k == "any":
        return "GAny"
    if k == "int":
        return "(GInt %d)" % (t[1] or 64)
    if k == "uint":
        return "(GUint %d)" % (t[1] or 64)
    if k == "float":
        return "(GFloat %d)" % t[1]
    if k == "ptr":
        return "(GPtr %s)" % type_coq(t[1])
    if k == "slice":
        return "(GSlice %s)" % type_coq(t[1])
    if k == "map":
        return "(GMap %s)" % type_coq(t[1])
    return "(GStruct %s)" % vlib.coq_list(
        "(%s, %s, %s)" % (vlib.coq_bytes(f[0]),
                          vlib.coq_list("(%s, %s)" % (vlib.coq_bytes(a), vlib.coq_bytes(b)) for a, b in field_tags(f)),
                          type_coq(f[2])) for f in t[1])


def has_renamed(t, tagkey="yaml"):
    """some struct field of t is matched under a name that is not its Go name when the decoder uses tagkey"""
    if t[0] in ("ptr", "slice", "map"):
        return has_renamed(t[1], tagkey)
    if t[0] == "struct":
        return any(match_name(f, tagkey) != f[0] or has_renamed(f[2], tagkey) for f in t[1])
    return False


def names_differ(t, k1, k2):
    if t[0] in ("ptr", "slice", "map"):
        return names_differ(t[1], k1, k2)
    if t[0] == "struct":
        return any(match_name(f, k1).lower() != match_name(f, k2).lower() or names_differ(f[2], k1, k2) for f in t[1])
    return False


def type_kind(t):
    return t[0] if t[0] not in ("ptr",) else "ptr:" + type_kind(t[1])


# ------------------------------------------------------------------------------------------------
# YAML

def yaml_flow(v):
    k = v[0]
    if k == "n":
        return "null"
    if k == "b":
        return "true" if v[1] else "false"
    if k == "i":
        return str(v[1])
    if k == "f":
        return v[1]
    if k == "s":
        return json.dumps(v[1], ensure_ascii=False)
    if k == "l":
        return "[" + ", ".join(yaml_flow(x) for x in v[1]) + "]"
    return "{" + ", ".join("%s: %s" % (json.dumps(kk), yaml_flow(x)) for kk, x in v[1]) + "}"


def yaml_doc(key, v):
    parts = key.split(".")
    text = yaml_flow(v)
    for p in reversed(parts):
        text = "{%s: %s}" % (json.dumps(p), text)
    return text + "\n"


# ------------------------------------------------------------------------------------------------
# observations -> Coq

def unhex(h):
    return bytes.fromhex(h)


def dec_norm(text):
    """float text -> normalised (m, e) or None (inf / nan)"""
    try:
        d = Decimal(text)
    except Exception:
        return None
    if not d.is_finite():
        return None
    sign, digits, exp = d.as_tuple()
    m = int("".join(str(x) for x in digits))
    if m == 0:
        return (0, 0)
    while m % 10 == 0:
        m //= 10
        exp += 1
    return (-m if sign else m, exp)


class Odd(Exception):
    """an observation the Coq types cannot carry (inf/nan, an unexpected dynamic type)"""


def cval_coq(j):
    if "n" in j:
        return "VNull"
    if "b" in j:
        return "(VBool %s)" % vlib.coq_bool(j["b"])
    if "i" in j:
        return "(VInt %s)" % vlib.coq_z(int(j["i"]))
    if "f" in j:
        me = dec_norm(j["f"])
        if me is None:
            raise Odd("float " + j["f"])
        return "(VDec %s %s)" % (vlib.coq_z(me[0]), vlib.coq_z(me[1]))
    if "s" in j:
        return "(VStr %s)" % vlib.coq_bytes(unhex(j["s"]))
    if "l" in j:
        return "(VList %s)" % vlib.coq_list(cval_coq(x) for x in j["l"])
    if "m" in j:
        return "(VMap %s)" % vlib.coq_list("(%s, %s)" % (vlib.coq_bytes(unhex(k)), cval_coq(x)) for k, x in j["m"])
    raise Odd("dynamic type " + str(j.get("x")))


def pyval_coq(v):
    """generator value -> Coq cval"""
    k = v[0]
    if k == "n":
        return "VNull"
    if k == "b":
        return "(VBool %s)" % vlib.coq_bool(v[1])
    if k == "i":
        return "(VInt %s)" % vlib.coq_z(v[1])
    if k == "f":
        me = dec_norm(v[1])
        return "(VDec %s %s)" % (vlib.coq_z(me[0]), vlib.coq_z(me[1]))
    if k == "s":
        return "(VStr %s)" % vlib.coq_bytes(v[1].encode())
    if k == "l":
        return "(VList %s)" % vlib.coq_list(pyval_coq(x) for x in v[1])
    return "(VMap %s)" % vlib.coq_list("(%s, %s)" % (vlib.coq_bytes(kk.encode()), pyval_coq(x)) for kk, x in v[1])


def fval_coq(j):
    if "S" in j:
        return "(FStr %s)" % vlib.coq_bytes(unhex(j["S"]))
    if "B" in j:
        return "(FBool %s)" % vlib.coq_bool(j["B"])
    if "I" in j:
        return "(FInt %s)" % vlib.coq_z(int(j["I"]))
    if "F" in j:
        me = dec_norm(j["F"])
        if me is None:
            return "(FStr %s)" % vlib.coq_bytes(("?" + j["F"]).encode())      # never equal to a modelled float
        return "(FFloat %s %s)" % (vlib.coq_z(me[0]), vlib.coq_z(me[1]))
    if "N" in j:
        return "FNil"
    if "P" in j:
        return "(FPtr %s)" % fval_coq(j["P"])
    if "L" in j:
        return "(FSlice %s)" % vlib.coq_list(fval_coq(x) for x in j["L"])
    if "M" in j:
        return "(FMap %s)" % vlib.coq_list("(%s, %s)" % (vlib.coq_bytes(unhex(k)), fval_coq(x)) for k, x in j["M"])
    if "T" in j:
        return "(FStruct %s)" % vlib.coq_list("(%s, %s)" % (vlib.coq_bytes(unhex(k)), fval_coq(x)) for k, x in j["T"])
    if "A" in j:
        try:
            return "(FAny %s)" % cval_coq(j["A"])
        except Odd as ex:
            return "(FStr %s)" % vlib.coq_bytes(("?" + str(ex)).encode())
    raise ValueError(j)


def obs_coq(o):
    if o is None:
        return "ONone"
    if o["o"] == "ok":
        return "(OOk %s)" % fval_coq(o["f"])
    if o["o"] == "err":
        return "OErr"
    return "OPanic"            # panic or hang


def tag_text(c):
    return c["text"] if c["kind"] == "lit" else ""


def coq_opt_bytes(x):
    return "None" if x is None else "(Some %s)" % vlib.coq_bytes(x)


KIND_NO = {"key": 0, "lit": 1, "tpl": 2}
# sharing groups: also change the maps / lists held in interface-typed positions of a bound value
DEEP = os.environ.get("VERIF_C17_DEEP", "1") not in ("", "0")


def coq_case(c, o, fix):
    """raises Odd when Configure.Get returned something the model's value type cannot carry"""
    kind = KIND_NO[c["kind"]]
    v = cval_coq(o["get"]) if c["kind"] != "lit" else "VNull"
    pre = "None"
    if c.get("pre") is not None:
        if o.get("pre") is None:
            raise Odd("the harness could not pre-fill the field")
        pre = "(Some %s)" % fval_coq(o["pre"])      # as read back from the pre-filled Go value
    get2 = "None"
    if o.get("get2") is not None:
        get2 = "(Some %s)" % cval_coq(o["get2"])
    hist = "None"
    if c.get("hist") is not None:                      # populated again: (the loaded document, the Sets)
        doc, sets = c["hist"]
        hist = "(Some (%s, %s))" % (
            vlib.coq_list("(%s, %s)" % (vlib.coq_bytes(kk.encode()), pyval_coq(x)) for kk, x in doc[1]),
            vlib.coq_list("(%s, %s)" % (vlib.coq_bytes(kk.encode()), pyval_coq(x)) for kk, x in sets))
    return "mkCase %d %d %s %s %s %s %s %s %s %s %s %s %s %s %s %s %s %s %s (%s, %s)" % (
        c["id"], kind, vlib.coq_bool(c["req"]), vlib.coq_bytes(c["key"]), v, vlib.coq_bytes(tag_text(c)),
        type_coq(c["type"]), vlib.coq_bool(fix), obs_coq(o.get("prefix")), obs_coq(o.get("value")), obs_coq(o.get("prop")),
        pre, obs_coq(o.get("fresh")), coq_opt_bytes(c.get("dflt")), vlib.coq_bytes(c.get("pfx", "")),
        vlib.coq_bytes(c.get("sfx", "")), coq_opt_bytes(c.get("mapper")), get2, hist,
        vlib.coq_bytes(c.get("xb", "")), vlib.coq_bytes(c.get("xa", "")))


# ------------------------------------------------------------------------------------------------
# cases

def mk_key_case(rng, v, t, req=True, key=None, stream="main"):
    return {"kind": "key", "key": key or rng.choice(KEYS), "value": v, "type": t, "req": req, "text": "", "stream": stream}


def mk_lit_case(text, t, req=True, stream="literal"):
    return {"kind": "lit", "key": "k", "value": ["n"], "type": t, "req": req,
            "text": text + ("" if req else ",required=false"), "stream": stream}


def gen_default_case(rng):
    """value:"${key:default}" / prop:"key:default" next to prefix:"key".  Mostly the key is PRESENT (the default must play
    no part) - often with the empty string as its value -, sometimes absent / null / an empty list or map (the default
    applies)."""
    r = rng.random()
    dflt = rng.choice(DEFAULTS)
    req = rng.random() < 0.5
    if r < 0.34:                                       # present, the empty string
        rr = rng.random()
        t = (["string"] if rr < 0.5 else ["ptr", ["string"]] if rr < 0.6 else ["slice", ["string"]] if rr < 0.7 else
             ["any"] if rr < 0.8 else gen_scalar_type(rng))
        c = mk_key_case(rng, ["s", ""], t, req=req, stream="default")
    elif r < 0.52:                                     # present, a string
        t = ["string"] if rng.random() < 0.6 else gen_scalar_type(rng)
        c = mk_key_case(rng, ["s", rng.choice(WT_WORDS) if rng.random() < 0.6 else gen_string(rng, True)], t, req=req,
                        stream="default")
    elif r < 0.74:                                     # present, anything fitted to a type (0, false, lists, maps, structs)
        t = gen_type(rng)
        v = fit(rng, t)
        if rng.random() < 0.25:
            v = rng.choice([["i", 0], ["b", False], ["f", "0.0"], ["s", "0"], ["s", "false"], ["s", " "]])
        c = mk_key_case(rng, v, t, req=req, stream="default")
    elif r < 0.84:                                     # present but empty list / map: counts as absent for the ${} stage
        t = rng.choice([["slice", ["string"]], ["map", ["string"]], ["string"], ["any"], ["slice", ["int", 0]]])
        c = mk_key_case(rng, rng.choice([["l", []], ["m", []]]), t, req=req, stream="default")
    else:                                              # absent / null: the default applies
        t = ["string"] if rng.random() < 0.5 else gen_scalar_type(rng) if rng.random() < 0.7 else gen_type(rng)
        c = mk_key_case(rng, ["n"], t, req=req, stream="default")
        c["absent"] = rng.random() < 0.7
    c["dflt"] = dflt if rng.random() < 0.93 else ""
    return c


def gen_template_case(rng):
    """value:"<pfx>${key[:default]}<sfx>": the placeholder spliced into a longer literal (value route only)"""
    pfx, sfx = rng.choice(TPL_PFX), rng.choice(TPL_SFX)
    if not pfx and not sfx:
        sfx = rng.choice([x for x in TPL_SFX if x])
    r = rng.random()
    if r < 0.25:
        v = ["s", ""]
    elif r < 0.60:
        v = ["s", rng.choice(WT_WORDS) if rng.random() < 0.7 else gen_string(rng, True)]
    elif r < 0.80:
        v = gen_scalar(rng, True, rng.choice(["i", "f", "b"]))
    else:
        v = ["n"]
    rr = rng.random()
    t = ["string"] if rr < 0.72 else ["any"] if rr < 0.8 else ["slice", ["string"]] if rr < 0.86 else gen_scalar_type(rng)
    c = mk_key_case(rng, v, t, req=rng.random() < 0.7, stream="template")
    c["kind"] = "tpl"
    c["pfx"], c["sfx"] = pfx, sfx
    if v == ["n"]:
        c["absent"] = rng.random() < 0.7
    if rng.random() < (0.65 if v != ["n"] else 0.8):
        c["dflt"] = rng.choice(DEFAULTS)
    return c


# ---- groups: several bindings per start, several starts per process --------------------------------------------

def gen_wt_type(rng, depth=0, structy=0.55):
    """types of the well-typed stream (no interface{}: every route binds the same value, nothing fails)"""
    r = rng.random()
    if depth >= 2 or r > structy + 0.25:
        return rng.choice([["string"], ["string"], ["bool"], ["int", 0], ["int", 64], ["int", 32], ["float", 64], ["uint", 16]])
    if r < structy:
        names = rng.sample(SUBKEYS, rng.choice([1, 2, 2, 3, 3, 4]))
        fields = [gen_field(rng, i, n, gen_wt_type(rng, depth + 1, 0.2), renamed=0.6) for i, n in enumerate(names)]
        t = ["struct", fields]
        return ["ptr", t] if rng.random() < 0.2 else t
    if r < structy + 0.12:
        return ["slice", gen_wt_type(rng, depth + 1, 0.3)]
    if r < structy + 0.2:
        return ["map", gen_wt_type(rng, depth + 1, 0.3)]
    return ["ptr", gen_wt_type(rng, depth + 1, 0.3)]


def gen_wt_value(rng, t, tagkey, top=True):
    """a value that already has type t: struct fields under the names the decoder with TagName = tagkey looks for"""
    k = t[0]
    if k == "string":
        return ["s", rng.choice(WT_WORDS if top else WT_WORDS[:12] + ["007", "1.10", "TRUE", "'q'"])]
    if k == "bool":
        return ["b", rng.random() < 0.6]
    if k == "int":
        lim = 2 ** ((t[1] or 64) - 1) - 1
        return ["i", rng.choice([z for z in (1, 7, 64, 3, 90, 8080, -4, 100000, 2 ** 31 - 1, 2 ** 40) if abs(z) <= lim])]
    if k == "uint":
        return ["i", rng.choice([1, 7, 64, 443, 65535])]
    if k == "float":
        return ["f", rng.choice(FLOATS)]
    if k == "ptr":
        return gen_wt_value(rng, t[1], tagkey, top)
    if k == "slice":
        return ["l", [gen_wt_value(rng, t[1], tagkey, False) for _ in range(rng.choice([1, 2, 2, 3]))]]
    if k == "map":
        return ["m", [[kk, gen_wt_value(rng, t[1], tagkey, False)] for kk in rng.sample(SUBKEYS, rng.choice([1, 2, 2, 3]))]]
    kv = [[match_name(f, tagkey).lower(), gen_wt_value(rng, f[2], tagkey, False)] for f in t[1] if rng.random() < 0.9]
    if not kv:
        f = t[1][0]
        kv = [[match_name(f, tagkey).lower(), gen_wt_value(rng, f[2], tagkey, False)]]
    rng.shuffle(kv)
    return ["m", kv]


def gen_group_case(rng, key):
    r = rng.random()
    if r < 0.08:                                       # a literal next to the configured values
        return mk_lit_case(rng.choice(["hello", "a:b", "hello world", "x=y", "path/to/x.txt"]), ["string"], stream="group")
    mapper = rng.choice(MAPPERS) if rng.random() < 0.42 else None
    t = gen_wt_type(rng)
    tagkey = decoder_tag(mapper)
    # the configuration is mostly written for the decoder the property really gets; sometimes for the yaml names although
    # the property says mapper=..., or for the json names although it does not (those fields then stay zero)
    vkey = tagkey if rng.random() < 0.82 else rng.choice(["yaml", "json"])
    v = gen_wt_value(rng, t, vkey)
    c = mk_key_case(rng, v, t, req=True, key=key, stream="group")
    c["mapper"] = mapper
    rr = rng.random()
    if rr < 0.18:
        c["dflt"] = rng.choice(DEFAULTS)
    elif rr < 0.26 and t == ["string"]:                # present and empty, with a default: nothing may be bound but ""
        c["value"], c["req"], c["dflt"] = ["s", ""], False, rng.choice(DEFAULTS)
    elif rr < 0.32 and t == ["string"]:
        c["kind"], c["pfx"], c["sfx"] = "tpl", rng.choice(["pre-", "http://", "id=", ""]), rng.choice(["-post", "/p", ".local"])
    return add_xargs(rng, c, 0.25)


def gen_group(rng, gid):
    """starts x components x bindings, all run in ONE process, every start one App.Run.  Every binding is well-typed
    (it succeeds on every route), so whatever a binding receives can only depend on its own tag and key."""
    starts = []
    k = 0
    for _ in range(rng.choice([1, 2, 2, 3, 3])):
        comps = []
        for _ in range(rng.choice([1, 1, 2, 2, 3])):
            cases = []
            for _ in range(rng.choice([1, 2, 2, 3])):
                key = "k%d" % k if rng.random() < 0.6 else "s%d.val" % k
                cases.append(gen_group_case(rng, key))
                k += 1
            comps.append(cases)
        starts.append({"comps": comps})
    return {"gid": gid, "starts": starts}


# ---- sharing groups: the same keys bound several times, every holder scribbles over what it was given ------------

ANY_WORDS = ["eu", "gold", "primary", "a.example.org", "x:y", "v1.2.3", "hello", "UPPER lower", "it's", "eu-west-1"]


def gen_shared_value(rng, deep):
    """(value, [types that bind it on every route]) - maps and lists, the containers a decoder could hand out as they are"""
    r = rng.random()
    str_map = lambda n: ["m", [[k, ["s", rng.choice(ANY_WORDS)]] for k in rng.sample(SUBKEYS, n)]]
    if r < 0.30:                                       # map of strings
        v = str_map(rng.choice([1, 2, 2, 3, 4]))
        fields = [gen_field(rng, i, kv[0], ["string"], renamed=0.3) for i, kv in enumerate(v[1])]
        ts = [["map", ["any"]], ["map", ["any"]], ["any"], ["map", ["string"]], ["ptr", ["map", ["any"]]],
              ["struct", [f[:3] for f in fields]]]
    elif r < 0.50:                                     # list of strings
        v = ["l", [["s", rng.choice(ANY_WORDS)] for _ in range(rng.choice([1, 2, 3, 3, 4]))]]
        ts = [["slice", ["any"]], ["slice", ["any"]], ["any"], ["slice", ["string"]], ["ptr", ["slice", ["any"]]]]
    elif r < 0.66:                                     # list of ints (interface-typed targets get them on the prefix route only:
        v = ["l", [["i", rng.choice([30, 10, 20, 5, 8080, 443, 1])] for _ in range(rng.choice([2, 3, 3, 4]))]]
        ts = [["slice", ["int", 0]], ["slice", ["int", 64]], ["slice", ["string"]], ["slice", ["float", 64]]]
    elif r < 0.76:                                     # map of ints / bools into typed maps
        if rng.random() < 0.5:
            v = ["m", [[k, ["i", rng.choice([1, 7, 64, 8080])]] for k in rng.sample(SUBKEYS, rng.choice([1, 2, 3]))]]
            ts = [["map", ["int", 0]], ["map", ["string"]], ["map", ["int", 64]]]
        else:
            v = ["m", [[k, ["b", rng.random() < 0.5]] for k in rng.sample(SUBKEYS, rng.choice([1, 2, 3]))]]
            ts = [["map", ["bool"]], ["map", ["any"]], ["any"]]
    elif r < 0.88:                                     # map of lists / map of maps of strings
        if rng.random() < 0.5:
            v = ["m", [[k, ["l", [["s", rng.choice(ANY_WORDS)] for _ in range(rng.choice([1, 2, 3]))]]]
                       for k in rng.sample(SUBKEYS, rng.choice([1, 2, 3]))]]
            ts = [["map", ["slice", ["string"]]], ["map", ["slice", ["any"]]], ["map", ["any"]], ["any"]]
        else:
            v = ["m", [[k, str_map(rng.choice([1, 2]))] for k in rng.sample(SUBKEYS, rng.choice([1, 2, 3]))]]
            ts = [["map", ["map", ["string"]]], ["map", ["map", ["any"]]], ["map", ["any"]], ["any"]]
    else:                                              # list of maps / list of lists
        if rng.random() < 0.5:
            v = ["l", [str_map(rng.choice([1, 2])) for _ in range(rng.choice([1, 2, 3]))]]
            ts = [["slice", ["map", ["string"]]], ["slice", ["map", ["any"]]], ["slice", ["any"]], ["any"]]
        else:
            v = ["l", [["l", [["s", rng.choice(ANY_WORDS)] for _ in range(rng.choice([1, 2]))]] for _ in range(rng.choice([2, 3]))]]
            ts = [["slice", ["slice", ["string"]]], ["slice", ["slice", ["any"]]], ["slice", ["any"]], ["any"]]
    return v, ts


def gen_sharing_group(rng, gid, deep):
    """1-2 starts x 2-3 components x 1-3 bindings over 1-3 SHARED keys; every key is bound at least twice per start"""
    nkeys = rng.choice([1, 1, 2, 2, 3])
    shared = []
    for k in range(nkeys):
        v, ts = gen_shared_value(rng, deep)
        shared.append(("k%d" % k if rng.random() < 0.5 else "s%d.val" % k, v, ts))
    starts = []
    for _ in range(rng.choice([1, 1, 2])):
        comps = []
        ncomps = rng.choice([2, 2, 3])
        picks = []
        for ci in range(ncomps):
            picks.append([rng.randrange(nkeys) for _ in range(rng.choice([1, 2, 2, 3]))])
        flat = [x for p_ in picks for x in p_]
        for k in range(nkeys):                           # every key at least twice
            while flat.count(k) < 2:
                picks[rng.randrange(ncomps)].append(k)
                flat.append(k)
        for p_ in picks:
            cases = []
            for k in p_:
                key, v, ts = shared[k]
                c = mk_key_case(rng, copy.deepcopy(v), copy.deepcopy(rng.choice(ts)), req=True, key=key, stream="sharing-group")
                cases.append(c)
            comps.append(cases)
        starts.append({"comps": comps})
    return {"gid": gid, "starts": starts, "mutate": True, "deep": deep}


# ---- retry groups: the points of one (lazy) component definition populated twice, Configure.Set in between ----------

RETRY_GATES = ["init", "init", "aps", "validate", "dep"]


def gen_retry_binding(rng, key):
    """a well-typed binding with the value its key holds when the start loads the configuration (value0; None = the key
    is absent then) and the value it holds after the Sets (value, never empty)"""
    r = rng.random()
    if r < 0.18:                                       # placeholder(s) inside a longer literal, string field
        c = mk_key_case(rng, ["s", rng.choice(WT_WORDS[:12])], ["string"], req=True, key=key, stream="retry-group")
        c["kind"], c["pfx"], c["sfx"] = "tpl", rng.choice(["pre-", "http://", "id=", ""]), rng.choice(["-post", "/api", ".local", ":80"])
        t, tagkey = ["string"], "yaml"
    else:
        mapper = rng.choice(MAPPERS) if rng.random() < 0.2 else None
        t = gen_wt_type(rng)
        tagkey = decoder_tag(mapper)
        c = mk_key_case(rng, gen_wt_value(rng, t, tagkey), t, req=rng.random() < 0.75, key=key, stream="retry-group")
        c["mapper"] = mapper
    if rng.random() < 0.15:
        c["dflt"] = rng.choice(["dflt", "7", "fallback", "x y"]) if t == ["string"] else None
    rr = rng.random()
    if rr < 0.2:                                       # control: the key keeps its value
        c["value0"] = copy.deepcopy(c["value"])
    elif rr < 0.35:                                    # absent at first (required without a default: the first creation fails there)
        c["value0"] = None
    else:
        v0 = c["value"]
        for _ in range(6):
            v0 = gen_wt_value(rng, t, tagkey) if c["kind"] == "key" else ["s", rng.choice(WT_WORDS[:12])]
            if v0 != c["value"]:
                break
        c["value0"] = v0
    return add_xargs(rng, c, 0.3)


def retry_stuck(c):
    """the binding alone refuses the first creation: a required point whose key has no value when the start loads the
    configuration (the prefix route of a key binding knows no default)"""
    if c["kind"] == "lit" or c.get("value0") is not None or not c["req"]:
        return False
    # a template with literal text around the placeholder never yields an empty tag value
    return c["kind"] == "key" or (c.get("dflt") is None and not c.get("pfx") and not c.get("sfx"))


def gen_retry_group(rng, gid):
    comps, gates = [], []
    k = 0
    for _ in range(rng.choice([1, 1, 2])):
        cases = []
        for _ in range(rng.choice([1, 2, 2, 3])):
            key = "k%d" % k if rng.random() < 0.5 else "s%d.val" % k
            cases.append(gen_retry_binding(rng, key))
            k += 1
        comps.append(cases)
        gates.append("required" if any(retry_stuck(c) for c in cases) else rng.choice(RETRY_GATES))
    g = {"gid": gid, "starts": [{"comps": comps}], "retry": {"gates": gates, "spell": rng.random()}}
    return g


def retry_sets(g):
    """the Configure.Set calls between the two requests: new values for the bindings' keys, the gates' keys"""
    sets, seen = [], set()
    spell = g["retry"].get("spell", 1.0)
    for comp in g["starts"][0]["comps"]:
        for c in comp:
            if c["kind"] != "lit" and c.get("value0") != c["value"] and c["key"] not in seen:
                seen.add(c["key"])
                key = c["key"].upper() if spell < 0.15 else c["key"].title() if spell < 0.3 else c["key"]
                sets.append([key, c["value"]])
    if "validate" in g["retry"]["gates"]:
        sets.append(["rgate.n", ["i", 500]])
    if "dep" in g["retry"]["gates"]:
        sets.append(["rgate.dep", ["s", "retrydep"]])
    return sets


def retry_doc(g):
    """the configuration the start loads, as a nested value: the OLD values of the bindings and of the gates"""
    doc = ["m", [["other", ["m", [["key", ["i", 1]]]]], ["rgate", ["m", [["n", ["i", 1]], ["dep", ["s", "nosuchcomponent"]]]]]]]
    seen = {}

    def put(node, segs, v):
        for kv in node[1]:
            if kv[0] == segs[0]:
                if len(segs) == 1 or kv[1][0] != "m":
                    raise ValueError("retry group: key path %s configured twice" % ".".join(segs))
                return put(kv[1], segs[1:], v)
        for seg in reversed(segs[1:]):
            v = ["m", [[seg, v]]]
        node[1].append([segs[0], v])
    for comp in g["starts"][0]["comps"]:
        for c in comp:
            if c["kind"] == "lit" or c.get("value0") is None:
                continue
            if c["key"] in seen:
                if seen[c["key"]] != c["value0"]:
                    raise ValueError("retry group: two first values for key %s" % c["key"])
                continue
            seen[c["key"]] = c["value0"]
            put(doc, c["key"].split("."), copy.deepcopy(c["value0"]))
    return doc


def pyval_json(v):
    """generator value -> the driver's <cval> JSON (what is handed to Configure.Set)"""
    k = v[0]
    if k == "n":
        return {"n": 1}
    if k == "b":
        return {"b": v[1]}
    if k == "i":
        return {"i": str(v[1])}
    if k == "f":
        return {"f": v[1]}
    if k == "s":
        return {"s": hexs(v[1])}
    if k == "l":
        return {"l": [pyval_json(x) for x in v[1]]}
    return {"m": [[hexs(kk), pyval_json(x)] for kk, x in v[1]]}


def go_src_type(t):
    """Go source text of a generated field type (the same shape harness/cmd/c17 goType builds with reflect)"""
    k = t[0]
    if k in ("string", "bool", "any"):
        return k
    if k in ("int", "uint"):
        return k + (str(t[1]) if t[1] else "")
    if k == "float":
        return "float%d" % t[1]
    if k == "ptr":
        return "*" + go_src_type(t[1])
    if k == "slice":
        return "[]" + go_src_type(t[1])
    if k == "map":
        return "map[string]" + go_src_type(t[1])
    fields = []
    for f in t[1]:
        tags = " ".join("%s:%s" % (a, json.dumps(b, ensure_ascii=False)) for a, b in field_tags(f))
        fields.append("%s %s %s" % (f[0], go_src_type(f[2]), json.dumps(tags, ensure_ascii=False)) if tags else
                      "%s %s" % (f[0], go_src_type(f[2])))
    return "struct { " + "; ".join(fields) + " }"


def go_field_tag(name, text):
    return json.dumps("%s:%s" % (name, json.dumps(text, ensure_ascii=False)), ensure_ascii=False)


def retry_names(g):
    n = len(g["starts"][0]["comps"])
    return ["RG%dC%d" % (g["gid"], ci) for ci in range(n)], ["rg%dc%d" % (g["gid"], ci) for ci in range(n)]


def retry_go_source(groups):
    """retry_types.go: one lazy struct type per component of every retry group"""
    out = ["// generated by tools/props/c17.py - the lazy components of the retry groups\npackage main\n",
           "import \"github.com/go-kid/ioc/definition\"\n"]
    for g in groups:
        if not g.get("retry"):
            continue
        tnames, cnames = retry_names(g)
        for ci, comp in enumerate(g["starts"][0]["comps"]):
            lines = ["type %s struct {" % tnames[ci], "\tdefinition.LazyInitComponent", "\tRetryGate"]
            for i, c in enumerate(comp):
                gc = go_case(c, False)
                ft = go_src_type(c["type"])
                body = gc["body"] or c["key"]
                if c["kind"] == "lit":
                    lines.append("\tK%dValue %s %s" % (i, ft, go_field_tag("value", gc["text"])))
                elif c["kind"] == "tpl":
                    lines.append("\tK%dValue %s %s" % (i, ft, go_field_tag("value", gc["pfx"] + "${" + body + "}" + gc["sfx"] + gc["args"])))
                else:
                    lines.append("\tK%dPrefix %s %s" % (i, ft, go_field_tag("prefix", c["key"] + gc["args"])))
                    lines.append("\tK%dValue %s %s" % (i, ft, go_field_tag("value", "${" + body + "}" + gc["args"])))
                    lines.append("\tK%dProp %s %s" % (i, ft, go_field_tag("prop", body + gc["args"])))
            gate = g["retry"]["gates"][ci]
            if gate == "validate":
                lines.append("\tGateN int %s" % go_field_tag("value", "${rgate.n},validate=min=100"))
            elif gate == "dep":
                lines.append("\tGateD *RetryDep %s" % go_field_tag("wire", "${rgate.dep}"))
            lines.append("}")
            lines.append("func (c *%s) Naming() string { return %s }" % (tnames[ci], json.dumps(cnames[ci])))
            lines.append("func init() { retryCtors[%s] = func() any { return &%s{} } }\n" % (json.dumps(tnames[ci]), tnames[ci]))
            out.append("\n".join(lines))
    return "\n".join(out) + "\nvar _ definition.LazyInit = (*definition.LazyInitComponent)(nil)\n"


def build_retry_bin(ctx, groups, base):
    """the driver with the lazy component types of these retry groups compiled in (cached by the generated source)"""
    src = retry_go_source(groups)
    hsh = vlib.stable_hash([src])
    cache = getattr(ctx, "retry_bins", None)
    if cache is None:
        cache = ctx.retry_bins = {}
    if hsh in cache:
        return cache[hsh]
    import shutil
    d = os.path.join(vlib.HARNESS, "work", "%s-%s%s" % (ctx.id, ctx.tier, getattr(ctx, "worktag", "")), "c17r_%s" % hsh)
    if os.path.isdir(d):
        shutil.rmtree(d)
    os.makedirs(d)
    srcdir = os.path.join(vlib.HARNESS, "cmd", "c17")
    for f in sorted(os.listdir(srcdir)):
        if f.endswith(".go"):
            shutil.copy(os.path.join(srcdir, f), os.path.join(d, f))
    open(os.path.join(d, "retry_types.go"), "w").write(src)
    binp = vlib.go_build(ctx, "./" + os.path.relpath(d, vlib.HARNESS), out=ctx.wpath("c17r_%s.bin" % hsh))
    cache[hsh] = binp
    return binp


def group_cases(g):
    return [c for st in g["starts"] for comp in st["comps"] for c in comp]


def gen_cases(ctx, n):
    out = gen_cases_plain(ctx, n)
    for c in out:
        add_xargs(ctx.rng, c, 0.65 if c.get("stream") in ("absent", "optional", "default") else 0.25)
    return out


def gen_cases_plain(ctx, n):
    rng = ctx.rng
    out = []
    for _ in range(n):
        r = rng.random()
        if r < 0.09:                                   # a default in the placeholder / prop shorthand
            out.append(gen_default_case(rng))
            continue
        if r < 0.14:                                   # the placeholder inside a longer literal
            out.append(gen_template_case(rng))
            continue
        r = (r - 0.14) / 0.86
        if r < 0.20:                                   # the component is registered with defaults in the bound field
            out.append(gen_prefilled_case(rng))
            continue
        if r < 0.26:                                   # a top-level decimal of 8-15 significant digits
            rr = rng.random()
            t = (["float", 64] if rr < 0.40 else ["ptr", ["float", 64]] if rr < 0.50 else ["string"] if rr < 0.62 else
                 ["any"] if rr < 0.70 else ["slice", ["float", 64]] if rr < 0.78 else ["float", 32] if rr < 0.84 else
                 gen_scalar_type(rng) if rr < 0.94 else gen_type(rng))
            out.append(mk_key_case(rng, ["f", gen_precise_float(rng)], t, req=rng.random() < 0.9, stream="precise-float"))
            continue
        r = (r - 0.26) / 0.74
        if r < 0.62:                                   # type first, value fitted to it
            t = gen_type(rng)
            out.append(mk_key_case(rng, fit(rng, t), t))
        elif r < 0.74:                                 # scalar x scalar product, incompatible pairs included
            out.append(mk_key_case(rng, gen_scalar(rng, True), gen_scalar_type(rng), stream="scalar-product"))
        elif r < 0.80:                                 # arbitrary value x arbitrary type
            out.append(mk_key_case(rng, gen_any_value(rng), gen_type(rng), stream="any-any"))
        elif r < 0.85:                                 # absent / null key, with and without required=false
            t = gen_type(rng)
            req = rng.random() < 0.5
            c = mk_key_case(rng, ["n"], t, req=req, stream="absent")
            c["absent"] = rng.random() < 0.6
            out.append(c)
        elif r < 0.88:                                 # required=false on a present key
            t = gen_type(rng)
            out.append(mk_key_case(rng, fit(rng, t), t, req=False, stream="optional"))
        else:                                          # literals in value tags
            t = gen_scalar_type(rng) if rng.random() < 0.6 else gen_type(rng)
            out.append(mk_lit_case(rng.choice(LITERALS), t, req=rng.random() < 0.9))
    return out


def gen_prefilled_case(rng):
    """constructor defaults in the configuration-bound field; the configured list is usually shorter than the default
    slice and the configured map has keys the default lacks and lacks keys the default has"""
    t = gen_container_type(rng)
    r = rng.random()
    if r < 0.08:
        c = mk_lit_case(rng.choice(LITERALS + ["[1,2]", "[a]", "{\"a\":1}", ""]), t, req=rng.random() < 0.7, stream="prefilled")
    elif r < 0.18:                                     # nothing configured: the default must stay (or Run fails)
        c = mk_key_case(rng, ["n"], t, req=rng.random() < 0.4, stream="prefilled")
        c["absent"] = rng.random() < 0.6
    elif r < 0.26:
        c = mk_key_case(rng, gen_any_value(rng), t, stream="prefilled")
    else:
        c = mk_key_case(rng, fit(rng, t), t, req=rng.random() < 0.9, stream="prefilled")
    c["pre"] = gen_prefill(rng, t)
    return c


def load_corpus():
    d = os.path.join(vlib.VERIF, "corpus", "C17")
    out = []
    groups = []
    for f in sorted(glob.glob(os.path.join(d, "*.json"))):
        c = json.load(open(f))
        if "group" in c:                                 # several starts x components x bindings, one process
            g = {"gid": len(groups), "starts": c["group"]["starts"], "corpus_file": os.path.basename(f)}
            if c["group"].get("mutate"):                 # a sharing group: holders scribble over what they were given
                g["mutate"], g["deep"] = True, DEEP
            if c["group"].get("retry"):                  # lazy components populated twice, Configure.Set in between
                g["retry"] = dict(c["group"]["retry"])
            for gc in group_cases(g):
                gc["stream"] = "corpus-group"
            groups.append(g)
            continue
        c["corpus_file"] = os.path.basename(f)
        c["stream"] = "corpus"
        out.append(c)
    return out, groups


def case_args(c):
    return (c.get("xb", "") + ("" if c["req"] else ",required=false") +
            (",mapper=" + c["mapper"] if c.get("mapper") is not None else "") + c.get("xa", ""))


XARGS = [",x=1", ",note=a b", ",Zed", ",k1={a,b} [1,2]", ",y=", ",q=(x, y)"]


def add_xargs(rng, c, share=0.3):
    """further arguments around the ones the binding reads, so that required=false / mapper= come first, last or in the
    middle of 2-5 arguments; validate=omitempty (passes on every value) on scalar fields only - on struct fields the
    validate processor validates the struct whatever the argument says"""
    if c["kind"] == "lit" or rng.random() >= share:
        return c
    pool = XARGS + ([",validate=omitempty", ",validate=omitempty"] if c["type"][0] in ("string", "bool", "int", "uint", "float") else [])
    r = rng.random()
    nb, na = (rng.choice([1, 2]), 0) if r < 0.35 else (0, rng.choice([1, 2])) if r < 0.6 else (rng.choice([1, 2]), rng.choice([1, 2]))
    pool = list(dict.fromkeys(pool))
    picks = rng.sample(pool, min(len(pool), nb + na))
    c["xb"], c["xa"] = "".join(picks[:nb]), "".join(picks[nb:])
    return c


def go_case(c, with_yaml=True):
    body = c["key"] + (":" + c["dflt"] if c.get("dflt") is not None else "")
    text = c["text"]
    if c["kind"] == "lit" and c.get("mapper") is not None:
        text += ",mapper=" + c["mapper"]
    g = {"id": c["id"], "kind": c["kind"], "key": c["key"], "body": body, "pfx": c.get("pfx", ""), "sfx": c.get("sfx", ""),
         "args": case_args(c), "text": text, "type": type_go(c["type"], decoder_tag(c.get("mapper"))),
         "pre": c.get("pre")}
    if not with_yaml:
        return g
    if c["kind"] != "lit" and not c.get("absent"):
        g["yaml"] = yaml_doc(c["key"], c["value"])
    else:
        g["yaml"] = yaml_doc("other.key", ["i", 1])
    return g


def start_yaml(st):
    """one document for all bindings of a start (their keys have distinct first segments)"""
    parts = ['"other": {"key": 1}']
    seen = {}
    for comp in st["comps"]:
        for c in comp:
            if c["kind"] != "lit" and not c.get("absent"):
                if c["key"] in seen:                     # sharing groups: several bindings of one key, one configured value
                    if seen[c["key"]] != c["value"]:
                        raise ValueError("two values for key %s in one start" % c["key"])
                    continue
                seen[c["key"]] = c["value"]
                parts.append(yaml_doc(c["key"], c["value"]).strip()[1:-1])
    return "{" + ", ".join(parts) + "}\n"


def go_group(g):
    if g.get("retry"):
        tnames, cnames = retry_names(g)
        sets = retry_sets(g)
        doc = retry_doc(g)
        for c in group_cases(g):
            c["hist"] = (doc, sets)
        st = g["starts"][0]
        return {"gid": g["gid"], "mutate": False, "deep": False,
                "starts": [{"yaml": yaml_flow(doc) + "\n",
                            "comps": [{"cases": [go_case(c, False) for c in comp]} for comp in st["comps"]]}],
                "retry": {"ctors": tnames, "names": cnames, "gates": g["retry"]["gates"],
                          "sets": [{"key": k, "val": pyval_json(v)} for k, v in sets]}}
    return {"gid": g["gid"], "mutate": bool(g.get("mutate")), "deep": bool(g.get("deep")),
            "starts": [{"yaml": start_yaml(st),
                                         "comps": [{"cases": [go_case(c, False) for c in comp]} for comp in st["comps"]]}
                                        for st in g["starts"]]}


DEFS = {"M": "mismatches", "V": "violations", "K": "known", "U": "unmodelled", "NT": "count_nontrivial",
        "DC": "domain_counts", "PC": "prefill_counts", "CC": "class_counts", "SC": "sharing_counts", "RC": "retry_counts",
        "XC": "xargs_counts"}
NCC = 11


def evaluate(ctx, binp, cases, tag, groups=()):
    """implementation + Coq.  cases = the bindings run one App.Run per route; groups = bindings run together (their cases
    carry ids of their own).  returns (by_id, res) with res = {M, V: [ids], K: {id: class}, U, NT: counts}"""
    if any(g.get("retry") for g in groups):
        binp = build_retry_bin(ctx, groups, binp)
    gin = {"cases": [go_case(c) for c in cases], "groups": [go_group(g) for g in groups]}
    rc, res, raw, _loud = vlib.run_json_verbose_share(ctx, binp, gin, quiet_only=("groups",), timeout=3000)
    if res is None or len(res.get("outs", [])) != len(cases) or len(res.get("gouts") or []) != len(groups):
        raise vlib.GoBuildError("./cmd/c17 (run)", raw[-3000:])
    splice = (res.get("facts") or {}).get("float_splice")
    if splice not in ("1e+06", "1000000"):
        raise vlib.GoBuildError("./cmd/c17 (facts)", "value:\"${k}\" with k: 1000000.0 bound %r into a string field; the model knows "
                                "\"1e+06\" (unchanged tree) and \"1000000\" (repair D-C17g)" % splice)
    fix = splice == "1000000"
    ctx.float_fix = fix
    by_id = {}
    terms = []
    odd = []
    for c, o in zip(cases, res["outs"]):
        by_id[c["id"]] = {"case": c, "observed": o, "yaml": go_case(c)["yaml"]}
        try:
            terms.append(coq_case(c, o, fix))
        except Odd as ex:
            odd.append((c["id"], str(ex)))
    for g, gg, go_ in zip(groups, gin["groups"], res.get("gouts") or []):
        gcs = group_cases(g)
        if len(go_["outs"]) != len(gcs):
            raise vlib.GoBuildError("./cmd/c17 (run)", "group %d: %d observations for %d bindings" % (
                g["gid"], len(go_["outs"]), len(gcs)))
        shown = {"gid": g["gid"], "starts": [{"yaml": sg["yaml"], "components": st["comps"]}
                                             for st, sg in zip(g["starts"], gg["starts"])],
                 "observed": go_["outs"]}
        if g.get("mutate"):
            shown["mutate"], shown["deep"] = True, bool(g.get("deep"))
        if g.get("retry"):
            shown["retry"] = dict(g["retry"], sets=gg["retry"]["sets"], set_values=retry_sets(g))
            for o in go_["outs"]:
                for r_ in ("prefix", "value", "prop"):
                    if o.get(r_) and str(o[r_].get("d", "")).startswith("harness:"):
                        raise vlib.GoBuildError("./cmd/c17 (retry group %d)" % g["gid"], o[r_]["d"] + "\n" + json.dumps(shown)[:3000])
        for c, o in zip(gcs, go_["outs"]):
            by_id[c["id"]] = {"case": c, "observed": o, "group": shown}
            try:
                terms.append(coq_case(c, o, fix))
            except Odd as ex:
                odd.append((c["id"], str(ex)))
    out = vlib.coq_eval_sharded(ctx, "cases_c17_" + tag, HEADER, terms, DEFS, shard=250)
    k = out["K"]
    out["K"] = {k[i]: k[i + 1] for i in range(0, len(k), 2)}
    out["U"] = sum(out["U"])
    out["NT"] = sum(out["NT"])
    dc = out["DC"]
    out["DC"] = [sum(dc[i::4]) for i in range(4)]
    pc = out["PC"]
    out["PC"] = [sum(pc[i::5]) for i in range(5)]
    cc = out["CC"]
    out["CC"] = [sum(cc[i::NCC]) for i in range(NCC)]
    sc = out["SC"]
    out["SC"] = [sum(sc[i::4]) for i in range(4)]
    rcn = out["RC"]
    out["RC"] = [sum(rcn[i::4]) for i in range(4)]
    xc = out["XC"]
    out["XC"] = [sum(xc[i::3]) for i in range(3)]
    out["odd"] = odd
    return by_id, out


# ------------------------------------------------------------------------------------------------
# shrinking

def value_size(v):
    if v[0] == "l":
        return 1 + sum(value_size(x) for x in v[1])
    if v[0] == "m":
        return 1 + sum(1 + value_size(x) for _, x in v[1])
    if v[0] == "s":
        return 1 + len(v[1])
    if v[0] == "i":
        return 1 + len(str(v[1]))
    return 1


def type_size(t):
    if t[0] in ("ptr", "slice", "map"):
        return 1 + type_size(t[1])
    if t[0] == "struct":
        return 1 + sum(1 + len(f) - 3 + type_size(f[2]) for f in t[1])
    return 1


def case_size(c):
    return value_size(c["value"]) + type_size(c["type"]) + len(c["text"]) + \
        (len(json.dumps(c["pre"])) // 8 + 1 if c.get("pre") is not None else 0) + \
        (1 + len(c["dflt"]) if c.get("dflt") is not None else 0) + len(c.get("pfx", "")) + len(c.get("sfx", "")) + \
        (2 if c.get("mapper") is not None else 0) + len(c.get("xb", "")) + len(c.get("xa", ""))


def entry_size(e):
    """a binding of a group counts with its whole group (the replay is the group)"""
    if e.get("group"):
        return 1000 + sum(4 + case_size(c) for st in e["group"]["starts"] for comp in st["components"] for c in comp)
    return case_size(e["case"])


def shrink_values(v):
    out = []
    if v[0] == "l":
        for i in range(len(v[1])):
            out.append(["l", v[1][:i] + v[1][i + 1:]])
            out.append(v[1][i])
            for s in shrink_values(v[1][i]):
                out.append(["l", v[1][:i] + [s] + v[1][i + 1:]])
    elif v[0] == "m":
        for i in range(len(v[1])):
            out.append(["m", v[1][:i] + v[1][i + 1:]])
            out.append(v[1][i][1])
            for s in shrink_values(v[1][i][1]):
                out.append(["m", v[1][:i] + [[v[1][i][0], s]] + v[1][i + 1:]])
    elif v[0] == "s" and len(v[1]) > 1:
        h = len(v[1]) // 2
        out += [["s", v[1][:h]], ["s", v[1][h:]], ["s", v[1][1:]], ["s", v[1][:-1]]]
    elif v[0] == "i" and abs(v[1]) > 9:
        out += [["i", v[1] // 10], ["i", 1]]
    return out


def shrink_types(t):
    out = []
    if t[0] in ("ptr", "slice", "map"):
        out.append(t[1])
        out += [[t[0], s] for s in shrink_types(t[1])]
    elif t[0] == "struct":
        for i in range(len(t[1])):
            if len(t[1]) > 1:
                out.append(["struct", t[1][:i] + t[1][i + 1:]])
            out.append(t[1][i][2])
            for s in shrink_types(t[1][i][2]):
                out.append(["struct", t[1][:i] + [[t[1][i][0], t[1][i][1], s] + t[1][i][3:]] + t[1][i + 1:]])
    elif t[0] in ("int", "uint") and t[1] != 0:
        out.append([t[0], 0])
    return out


def shrink_candidates(c):
    out = []
    if c["kind"] in ("key", "tpl"):
        for v in shrink_values(c["value"]):
            d = copy.deepcopy(c)
            d["value"] = v
            out.append(d)
        for f, small in (("dflt", "d"), ("pfx", ""), ("sfx", ""), ("mapper", None)):
            if c.get(f) in (None, "", small):
                continue
            if f in ("pfx", "sfx") and not (c.get("pfx") and c.get("sfx")):
                continue                                 # a template keeps some literal text
            d = copy.deepcopy(c)
            d[f] = small
            out.append(d)
        if c.get("dflt") is not None and c["kind"] == "tpl":
            d = copy.deepcopy(c)
            d["dflt"] = None
            out.append(d)
        for f in ("xb", "xa"):                           # further arguments: none, or one fewer
            if c.get(f):
                d = copy.deepcopy(c)
                d[f] = ""
                out.append(d)
                parts = c[f].split(",")[1:]
                if len(parts) > 1 and "{" not in c[f] and "(" not in c[f]:
                    d = copy.deepcopy(c)
                    d[f] = "," + ",".join(parts[1:])
                    out.append(d)
    else:
        t = c["text"]
        if len(t) > 1:
            for s in (t[:len(t) // 2], t[len(t) // 2:], t[1:], t[:-1]):
                d = copy.deepcopy(c)
                d["text"] = s
                out.append(d)
    for t in shrink_types(c["type"]):
        d = copy.deepcopy(c)
        d["type"] = t
        if d.get("pre") is not None:
            d["pre"] = default_prefill(t)
        out.append(d)
    if c.get("pre") is not None:
        d = copy.deepcopy(c)
        d["pre"] = None
        out.append(d)
        dp = default_prefill(c["type"])
        if dp != c["pre"]:
            d = copy.deepcopy(c)
            d["pre"] = dp
            out.append(d)
    if c["key"] != "k" and c["kind"] in ("key", "tpl") and c.get("stream") != "group":
        d = copy.deepcopy(c)
        d["key"] = "k"
        out.append(d)
    return out[:60]


def regroup(shown):
    """the replayable form of a group as it is written to a replay file -> the generator's form"""
    g = {"gid": shown.get("gid", 0), "starts": [{"comps": copy.deepcopy(st["components"])} for st in shown["starts"]]}
    if shown.get("mutate"):
        g["mutate"], g["deep"] = True, bool(shown.get("deep"))
    if shown.get("retry"):
        g["retry"] = {"gates": list(shown["retry"]["gates"]), "spell": shown["retry"].get("spell", 1.0)}
    return g


def wt_shrinks(c):
    out = []
    t, v = c["type"], c["value"]
    if t[0] == "struct" and v[0] == "m" and len(t[1]) > 1:
        for i, f in enumerate(t[1]):
            names = {match_name(f, k).lower() for k in ("yaml", "json", "mapstructure", "toml")}
            d = copy.deepcopy(c)
            d["type"] = ["struct", t[1][:i] + t[1][i + 1:]]
            d["value"] = ["m", [kv for kv in v[1] if kv[0] not in names]]
            if d["value"][1]:
                out.append(d)
    if c.get("dflt") is not None and v not in (["s", ""], ["n"]) and not c.get("absent"):
        d = copy.deepcopy(c)
        d["dflt"] = None
        out.append(d)
    if c.get("mapper") is not None:
        d = copy.deepcopy(c)
        d["mapper"] = None
        out.append(d)
    return out


def group_shrink_candidates(g, target):
    """smaller groups that still hold the failing binding (given by its position): without one start / component / other
    binding, or with the failing binding - or one that comes before it - made smaller (see wt_shrinks)"""
    out = []
    si0, ci0, ki0 = target

    def variant(edit):
        d = copy.deepcopy(g)
        pos = edit(d)
        if pos is not None:
            out.append((d, pos))
    for si in range(len(g["starts"])):
        if si != si0:
            variant(lambda d, si=si: (d["starts"].pop(si), (si0 - (si < si0), ci0, ki0))[1])
    for si, st in enumerate(g["starts"]):
        for ci in range(len(st["comps"])):
            if (si, ci) != (si0, ci0):
                variant(lambda d, si=si, ci=ci: (d["starts"][si]["comps"].pop(ci),
                                                 (si0, ci0 - (si == si0 and ci < ci0), ki0))[1])
    for si, st in enumerate(g["starts"]):
        for ci, comp in enumerate(st["comps"]):
            for ki in range(len(comp)):
                if (si, ci, ki) != (si0, ci0, ki0):
                    variant(lambda d, si=si, ci=ci, ki=ki: (d["starts"][si]["comps"][ci].pop(ki),
                                                            (si0, ci0, ki0 - ((si, ci) == (si0, ci0) and ki < ki0)))[1])
    # bindings stay well-typed (a binding that fails would fail the start for all others): values and scalar types are
    # left alone; a struct loses a field together with its configured key, a binding its default / mapper argument
    for si, st in enumerate(g["starts"]):
        for ci, comp in enumerate(st["comps"]):
            for ki, c in enumerate(comp):
                if c["kind"] == "lit" or g.get("mutate"):   # bindings of a sharing group share their configured values
                    continue
                for sc in wt_shrinks(c):
                    variant(lambda d, si=si, ci=ci, ki=ki, sc=sc: (d["starts"][si]["comps"][ci].__setitem__(ki, sc),
                                                                   target)[1])
    keep = []
    for d, pos in out:
        d["starts"] = [st for st in d["starts"]]
        if all(st["comps"] and all(comp for comp in st["comps"]) for st in d["starts"]):
            keep.append((d, pos))
    return keep[:80]


def retry_shrink_candidates(g, target):
    """a retry group without one component / one other binding; the gates follow their components, and a component that
    lost the binding its first creation stumbled over ('required') gets an Init gate instead"""
    out = []
    _, ci0, ki0 = target
    comps = g["starts"][0]["comps"]

    def fixed(d):
        for ci, comp in enumerate(d["starts"][0]["comps"]):
            stuck = any(retry_stuck(c) for c in comp)
            if d["retry"]["gates"][ci] == "required" and not stuck:
                d["retry"]["gates"][ci] = "init"
            elif stuck:
                d["retry"]["gates"][ci] = "required"
        return d
    for ci in range(len(comps)):
        if ci != ci0:
            d = copy.deepcopy(g)
            d["starts"][0]["comps"].pop(ci)
            d["retry"]["gates"].pop(ci)
            out.append((fixed(d), (0, ci0 - (ci < ci0), ki0)))
    for ci, comp in enumerate(comps):
        for ki in range(len(comp)):
            if (ci, ki) != (ci0, ki0):
                d = copy.deepcopy(g)
                d["starts"][0]["comps"][ci].pop(ki)
                if d["starts"][0]["comps"][ci]:
                    out.append((fixed(d), (0, ci0, ki0 - (ci == ci0 and ki < ki0))))
    for ci in range(len(comps)):
        if g["retry"]["gates"][ci] not in ("init", "required") and not any(retry_stuck(c) for c in comps[ci]):
            d = copy.deepcopy(g)
            d["retry"]["gates"][ci] = "init"
            out.append((d, target))
    c = comps[ci0][ki0]
    for drop in ("mapper", "dflt"):
        if c.get(drop) is not None and not (drop == "dflt" and c.get("value0") is None and c["kind"] == "tpl"):
            d = copy.deepcopy(g)
            d["starts"][0]["comps"][ci0][ki0][drop] = None
            out.append((d, target))
    return out[:40]


# ------------------------------------------------------------------------------------------------

def load_known_merged(pid):
    found = {}
    for p in [os.path.join(vlib.VERIF, "known_findings.json"),
              os.path.join(vlib.VERIF, "known_findings.d", pid + ".json")]:
        if os.path.exists(p):
            data = json.load(open(p))
            for f in data.get("findings", []):
                if pid in f.get("properties", [f.get("property")]):
                    found.setdefault(f["id"], f)
    return list(found.values())


def value_kind(v):
    if v[0] == "s":
        s = v[1]
        if s == "":
            return "string:empty"
        for name, pool in (("number-like", NUMLIKE), ("bool-like", BOOLLIKE), ("quoted", QUOTED),
                           ("bracketed", BRACKETED), ("placeholder", PLACEHOLDER)):
            if s in pool:
                return "string:" + name
        return "string:other"
    if v[0] == "i":
        return "int:>2^53" if abs(v[1]) > 2 ** 53 else "int"
    if v[0] == "f":
        nd = sig_digits(v[1])
        return "float:8-15 significant digits" if 8 <= nd <= 15 else "float:>15 digits" if nd > 15 else "float"
    return {"b": "bool", "n": "null", "l": "list", "m": "map"}[v[0]]


def outcome_class(o):
    if o is None:
        return "-"
    return o["o"]


def run(ctx):
    vlib.load_known = load_known_merged
    static_ok = vlib.static_obligations(ctx)
    binp = vlib.go_build(ctx, "./cmd/c17")
    n = 3000 if ctx.quick() else 30000
    ngroups = 320 if ctx.quick() else 3200
    nsharing = 160 if ctx.quick() else 1600
    nretry = 140 if ctx.quick() else 1400
    corpus, corpus_groups = load_corpus()
    cases = corpus
    groups = []
    if ctx.replay:
        r = json.load(open(ctx.replay))
        rc = r.get("case", {}).get("case")
        if r.get("case", {}).get("group"):
            cases, groups = [], [regroup(r["case"]["group"])]
        elif rc:
            cases = [rc]
    else:
        cases = cases + gen_cases(ctx, n)
        groups = corpus_groups + [gen_group(ctx.rng, len(corpus_groups) + g) for g in range(ngroups)]
        groups += [gen_sharing_group(ctx.rng, len(groups) + g, DEEP) for g in range(nsharing)]
        groups += [gen_retry_group(ctx.rng, len(groups) + g) for g in range(nretry)]
    for gi, g in enumerate(groups):                      # the generated type names of retry groups carry the gid
        g["gid"] = gi
    for i, c in enumerate(cases):
        c["id"] = i
    singles = list(cases)

    def number_groups(gs, first):
        for g in gs:
            for c in group_cases(g):
                c["id"] = first
                first += 1
        return first
    number_groups(groups, len(cases))
    cases = cases + [c for g in groups for c in group_cases(g)]
    by_id, res = evaluate(ctx, binp, singles, "main", groups)
    M, V, K = res["M"], res["V"], res["K"]
    ctx.log("cases=%d (x3 routes for key cases) nontrivial=%d unmodelled=%d odd=%d mismatches=%d violations=%d known-class=%d" % (
        len(cases), res["NT"], res["U"], len(res["odd"]), len(M), len(V), len(K)))
    ctx.oblige("facts: the tree's value path is one of the two modelled variants (float64 spliced as %v text = unchanged, "
               "or in plain digits = repair D-C17g)", True, "D-C17g applied: %s" % ctx.float_fix)
    if res["odd"]:
        ctx.notes.append("cases left out of the Coq evaluation (Configure.Get returned inf/nan or an unexpected dynamic type): %s"
                         % res["odd"][:5])

    ctx.oblige("inside safe the implementation's three routes bind the same field (prediction of c17_paths_agree_key)",
               res["DC"][3] == 0, "%d safe cases, %d disagree" % (res["DC"][0], res["DC"][3]))
    static_ok = static_ok and res["DC"][3] == 0

    def classify(entry, K=K):
        return KF_IDS.get(K.get(entry["case"]["id"]))

    V.sort(key=lambda i: entry_size(by_id[i]))

    def shrink_group(entry):
        """a failing binding of a group: smaller groups (each run in a process of its own) in which a binding still fails"""
        cur = entry
        g = regroup(entry["group"])
        pos = [(si, ci, ki) for si, st in enumerate(g["starts"]) for ci, comp in enumerate(st["comps"])
               for ki, c in enumerate(comp) if c["id"] == entry["case"]["id"]]
        if not pos:
            return cur
        target = pos[0]
        for _round in range(15):
            cands = retry_shrink_candidates(g, target) if g.get("retry") else group_shrink_candidates(g, target)
            if not cands:
                break
            for gi, (d, _) in enumerate(cands):
                d["gid"] = gi
            number_groups([d for d, _ in cands], 0)
            b2, r2 = evaluate(ctx, binp, [], "shrink", [d for d, _ in cands])
            bad = set(i for i in r2["V"] if i not in r2["K"])
            best = None
            for d, p in cands:
                tc = d["starts"][p[0]]["comps"][p[1]][p[2]]
                if tc["id"] in bad and (best is None or entry_size(b2[tc["id"]]) < entry_size(b2[best[1]["id"]])):
                    best = (d, tc, p)
            if best is None or entry_size(b2[best[1]["id"]]) >= entry_size(cur):
                break
            g, target, cur = best[0], best[2], b2[best[1]["id"]]
        cur["how_to_read"] = ("group.starts are run one after the other in ONE process, every start as one App.Run over all its "
                              "components (one struct per component; a key binding is three fields prefix:\"key\", "
                              "value:\"${key[:dflt]}\", prop:\"key[:dflt]\" with the arguments required=false / mapper=<case.mapper>, "
                              "a tpl binding one field value:\"<pfx>${key[:dflt]}<sfx>\"); 'case' is the binding whose fields ended "
                              "different from what its own tag, key and configured value determine; group.observed lists the "
                              "observations of all bindings in order (strings and map keys are hex); struct fields are "
                              "[Go name, yaml tag, type, {further struct tags}]" +
                              ("; group.mutate: bindings of one key share ONE configured value, and a post-processor of the "
                               "driver visits every field (component by component as they are initialised, fields in order), "
                               "takes the observation listed here and THEN changes the bound map / slice in place (first key "
                               "overwritten, a key added, the last key deleted; elements reversed, the first overwritten%s); "
                               "observed.get2 is Configure.Get(key) on the same App after the start, which must equal "
                               "observed.get" % ("; deep: also inside interface-typed positions" if entry["group"].get("deep") else "")
                               if entry["group"].get("mutate") else "") +
                              ("; group.retry: the components are LAZY (generated Go types embedding definition.LazyInitComponent, "
                               "fields as above); ONE App: Run with the document group.starts[0].yaml (the bindings' value0), "
                               "GetComponentByName for every component - it is populated and then fails at a later stage "
                               "(group.retry.gates: init / aps = Init / AfterPropertiesSet returns an error the first time; validate "
                               "= a field value:\"${rgate.n},validate=min=100\" with rgate.n: 1; dep = a field wire:\"${rgate.dep}\" "
                               "naming a component that does not exist; required = a required binding without a configured value) -, "
                               "then Configure.Set(key, value) for group.retry.set_values, then GetComponentByName again; the "
                               "observations are the fields after that second creation and observed.get is Configure.Get(key) at "
                               "the end: all three routes must show the value configured at the time of the second creation"
                               if entry["group"].get("retry") else ""))
        return cur

    def shrink(entry):
        if entry.get("group"):
            return shrink_group(entry)
        cur = entry
        for _round in range(15):
            cands = shrink_candidates(cur["case"])
            if not cands:
                break
            for i, c in enumerate(cands):
                c["id"] = i
            b2, r2 = evaluate(ctx, binp, cands, "shrink")
            bad = [i for i in r2["V"] if i not in r2["K"]]
            if not bad:
                break
            bad.sort(key=lambda i: case_size(b2[i]["case"]))
            if case_size(b2[bad[0]]["case"]) >= case_size(cur["case"]):
                break
            cur = b2[bad[0]]
        cur["how_to_read"] = ("case.value is configured under case.key by the YAML in 'yaml'; observed.get is what Configure.Get "
                              "returned; observed.prefix / value / prop are the field of type case.type after binding through "
                              "prefix:\"key\", value:\"${key}\", prop:\"key\" - with case.dflt set value:\"${key:dflt}\" and "
                              "prop:\"key:dflt\"; kind tpl: only value:\"<pfx>${key[:dflt]}<sfx>\" - (strings and map keys are hex); "
                              "a default is for absent keys only, a present key (also k: \"\") must be bound as without it; the property demands "
                              "that the three agree and equal the configured value converted to the field's type; case.pre "
                              "(if set) is what the field held when the component was registered, observed.fresh what the "
                              "same binding leaves in a zero component - the two must not differ when something is bound")
        return cur

    def widen():
        ctx.rng.seed(ctx.seed + 4242)
        more = gen_cases(ctx, 1500)
        for i, c in enumerate(more):
            c["id"] = i
        gs = [gen_group(ctx.rng, g) for g in range(200)] + [gen_sharing_group(ctx.rng, 200 + g, DEEP) for g in range(100)]
        gs += [gen_retry_group(ctx.rng, 300 + g) for g in range(100)]
        number_groups(gs, len(more))
        b2, r2 = evaluate(ctx, binp, more, "widen", gs)
        bad = [i for i in r2["V"] if i not in r2["K"]]
        bad.sort(key=lambda i: entry_size(b2[i]))
        return [b2[i] for i in bad[:3]]

    # coverage
    distinct = {}
    nontrivial = {}
    vk, tk, streams, routes = {}, {}, {}, {}
    for c in cases:
        o = by_id[c["id"]]["observed"]
        h = vlib.stable_hash([c["kind"], c["value"], c["type"], c["req"], c["text"], bool(c.get("absent")), c.get("pre"),
                              c.get("dflt"), c.get("pfx", ""), c.get("sfx", ""), c.get("mapper"), c.get("xb", ""), c.get("xa", "")])
        distinct[h] = 1
        oks = [o.get(r) for r in ("prefix", "value", "prop") if o.get(r) is not None and o.get(r)["o"] == "ok"]
        if oks:
            nontrivial[h] = 1
        kname = value_kind(c["value"]) if c["kind"] != "lit" else "literal"
        vk[kname] = vk.get(kname, 0) + 1
        tk[c["type"][0]] = tk.get(c["type"][0], 0) + 1
        streams[c["stream"]] = streams.get(c["stream"], 0) + 1
        sig = "/".join(outcome_class(o.get(r)) for r in ("prefix", "value", "prop"))
        routes[sig] = routes.get(sig, 0) + 1
    precise = {"top-level float of 8-15 significant digits (key cases, three routes)": 0,
               "... written by %v in plain digits (1e-4 <= |x| < 1e6)": 0,
               "... into float64 / *float64": 0, "... into string": 0, "... into interface{}": 0, "... into other types": 0,
               "cases with such a float inside a list / map": 0}
    pre = {"pre-filled cases (field non-zero when the component is registered; 3 routes + 1 fresh run)": 0,
           "by top-level field kind": {}, "literal value tag into a pre-filled field": 0,
           "key absent / null (the default must stay, or Run fails)": 0,
           "configured list shorter than the pre-filled slice (top level)": 0,
           "configured map lacks a key of the pre-filled map (top level)": 0,
           "configured map omits a field of the pre-filled struct (top level)": 0}

    def has_precise(v):
        if v[0] == "f":
            return 8 <= sig_digits(v[1]) <= 15
        if v[0] == "l":
            return any(has_precise(x) for x in v[1])
        if v[0] == "m":
            return any(has_precise(x) for _, x in v[1])
        return False

    def strip_ptr(t, p):
        while t[0] == "ptr" and p is not None and "P" in p:
            t, p = t[1], p["P"]
        return t, p

    for c in cases:
        v, t = c["value"], c["type"]
        if c["kind"] == "key" and not c.get("absent"):
            if v[0] == "f" and has_precise(v):
                precise["top-level float of 8-15 significant digits (key cases, three routes)"] += 1
                me = dec_norm(v[1])
                if -4 <= len(str(abs(me[0]))) + me[1] - 1 < 6:
                    precise["... written by %v in plain digits (1e-4 <= |x| < 1e6)"] += 1
                bt = t[1] if t[0] == "ptr" else t
                slot = ("... into float64 / *float64" if bt == ["float", 64] else "... into string" if bt == ["string"] else
                        "... into interface{}" if bt == ["any"] else "... into other types")
                precise[slot] += 1
            elif v[0] in "lm" and has_precise(v):
                precise["cases with such a float inside a list / map"] += 1
        if c.get("pre") is not None:
            pre["pre-filled cases (field non-zero when the component is registered; 3 routes + 1 fresh run)"] += 1
            kk = type_kind(t)
            pre["by top-level field kind"][kk] = pre["by top-level field kind"].get(kk, 0) + 1
            if c["kind"] == "lit":
                pre["literal value tag into a pre-filled field"] += 1
                continue
            if c.get("absent") or v[0] == "n":
                pre["key absent / null (the default must stay, or Run fails)"] += 1
                continue
            bt, bp = strip_ptr(t, c["pre"])
            if bt[0] == "slice" and v[0] == "l" and "L" in bp and len(v[1]) < len(bp["L"]):
                pre["configured list shorter than the pre-filled slice (top level)"] += 1
            if bt[0] == "map" and v[0] == "m" and "M" in bp and {k for k, _ in bp["M"]} - {hexs(k) for k, _ in v[1]}:
                pre["configured map lacks a key of the pre-filled map (top level)"] += 1
            if bt[0] == "struct" and v[0] == "m" and "T" in bp and \
                    {bytes.fromhex(k).decode().lower() for k, _ in bp["T"]} - {k for k, _ in v[1]}:
                pre["configured map omits a field of the pre-filled struct (top level)"] += 1
    # ---- defaults in placeholders, templates, mapper arguments, groups
    def dclass(c):
        v = c["value"]
        if c.get("absent") or v[0] == "n":
            return "key absent / null (the default applies)"
        if v == ["s", ""]:
            return "key present, value is the empty string (the default must NOT be used)"
        if v in (["l", []], ["m", []]):
            return "key present with an empty list / map (counts as absent: the default applies)"
        return "key present, non-empty value (the default must NOT be used)"
    dfl = {"three routes: prefix:\"k\" / value:\"${k:d}\" / prop:\"k:d\"": {}, "template value:\"<pfx>${k:d}<sfx>\"": {},
           "template without a default": {}, "of those, inside groups (bound next to other properties)": 0}
    for c in cases:
        if c["kind"] == "lit":
            continue
        if c.get("dflt") is not None:
            slot = dfl["three routes: prefix:\"k\" / value:\"${k:d}\" / prop:\"k:d\"" if c["kind"] == "key" else
                       "template value:\"<pfx>${k:d}<sfx>\""]
            slot[dclass(c)] = slot.get(dclass(c), 0) + 1
            if c.get("stream") == "group":
                dfl["of those, inside groups (bound next to other properties)"] += 1
        elif c["kind"] == "tpl":
            slot = dfl["template without a default"]
            slot[dclass(c)] = slot.get(dclass(c), 0) + 1
    cc = res["CC"]
    dfl["measured in Coq on what Configure.Get returned: [key cases with a default; ... key present; ... value is the empty "
        "string; ... of which the three routes agree (nothing bound, field stays \"\"); ... key absent / empty list / empty "
        "map; templates; ... that bound a value]"] = cc[:7]

    def hist(xs):
        h = {}
        for x in xs:
            h[str(x)] = h.get(str(x), 0) + 1
        return dict(sorted(h.items()))
    mp = {"groups (each in a process of its own)": len(groups),
          "starts per group": hist(len(g["starts"]) for g in groups),
          "components per start": hist(len(st["comps"]) for g in groups for st in g["starts"]),
          "bindings per start": hist(sum(len(comp) for comp in st["comps"]) for g in groups for st in g["starts"]),
          "bindings in groups": sum(len(group_cases(g)) for g in groups),
          "bindings by mapper argument": hist(c.get("mapper") or "-" for g in groups for c in group_cases(g)),
          "bindings whose bound type contains a struct": 0,
          "... with a field whose yaml tag name differs from the Go name (no mapper argument)": 0,
          "... with a field named differently by the property's mapper tag key than by the yaml tag": 0,
          "struct bindings outside groups with a yaml-renamed field (singles; no mapper there)": 0,
          "groups in which a binding with mapper=X comes before a binding decoded under another tag key whose struct "
          "fields are named differently under X": 0,
          "... before it in the same start": 0, "... in an earlier start of the process": 0}

    def has_struct(t):
        return t[0] == "struct" or (t[0] in ("ptr", "slice", "map") and has_struct(t[1]))
    for c in singles:
        if has_struct(c["type"]) and has_renamed(c["type"]):
            mp["struct bindings outside groups with a yaml-renamed field (singles; no mapper there)"] += 1
    for g in groups:
        seen = []          # (start index, tag key) of earlier bindings with a mapper argument
        hit = same = earlier = False
        for si, st in enumerate(g["starts"]):
            for comp in st["comps"]:
                for c in comp:
                    tk_ = decoder_tag(c.get("mapper"))
                    if has_struct(c["type"]):
                        mp["bindings whose bound type contains a struct"] += 1
                        if c.get("mapper") is None and has_renamed(c["type"]):
                            mp["... with a field whose yaml tag name differs from the Go name (no mapper argument)"] += 1
                        if c.get("mapper") is not None and names_differ(c["type"], tk_, "yaml"):
                            mp["... with a field named differently by the property's mapper tag key than by the yaml tag"] += 1
                        for sj, x in seen:
                            if x != tk_ and names_differ(c["type"], tk_, x):
                                hit = True
                                same = same or sj == si
                                earlier = earlier or sj < si
                    if c.get("mapper") is not None:
                        seen.append((si, tk_))
        mp["groups in which a binding with mapper=X comes before a binding decoded under another tag key whose struct "
           "fields are named differently under X"] += hit
        mp["... before it in the same start"] += same
        mp["... in an earlier start of the process"] += earlier
    mp["measured in Coq: [bindings with a mapper argument; ... whose bound type differs from the yaml reading; bindings "
       "without one whose yaml tags rename a field; ... that bound a value by prefix]"] = cc[7:]

    sgroups = [g for g in groups if g.get("mutate")]
    sh = {"sharing groups (each in a process of its own; every holder changes its bound maps / slices in place right after "
          "it was observed)": len(sgroups),
          "mode": "deep (also inside interface-typed positions)" if DEEP else
                  "declared container types only (VERIF_C17_DEEP=0: maps / lists held in interface-typed positions are left alone)",
          "bindings (three routes each)": sum(len(group_cases(g)) for g in sgroups),
          "bindings per key and start": hist(n for g in sgroups for st in g["starts"] for n in
                                             __import__("collections").Counter(c["key"] for comp in st["comps"] for c in comp).values()),
          "starts per group": hist(len(g["starts"]) for g in sgroups),
          "by field type": hist(type_kind(c["type"]) + ("<" + type_kind(c["type"][1]) + ">" if c["type"][0] in ("map", "slice") else "")
                                for g in sgroups for c in group_cases(g)),
          "by configured value": hist({"m": "map", "l": "list"}.get(c["value"][0], c["value"][0]) + " of " +
                                      "/".join(sorted({{"m": "map", "l": "list", "s": "string", "i": "int", "b": "bool"}.get(x[0], x[0])
                                                       for x in (c["value"][1] if c["value"][0] == "l" else [kv[1] for kv in c["value"][1]])}))
                                      for g in sgroups for c in group_cases(g)),
          "measured in Coq: [bindings with Configure.Get read again after the scribbling; ... whose configured value is a map / "
          "list; ... bound ok by prefix; ... whose field type takes the configured value as it is (embed)]": res["SC"]}
    xcases = [c for c in cases if c.get("xb") or c.get("xa")]
    xa_stats = {"cases whose tags carry further arguments around required=false / mapper= (2-5 arguments in all)": len(xcases),
                "required=false first (arguments only behind it)": sum(1 for c in xcases if not c["req"] and not c.get("xb")),
                "required=false last": sum(1 for c in xcases if not c["req"] and not c.get("xa") and c.get("mapper") is None),
                "required=false in the middle": sum(1 for c in xcases if not c["req"] and c.get("xb") and (c.get("xa") or c.get("mapper") is not None)),
                "with validate=omitempty": sum(1 for c in xcases if "validate" in c.get("xb", "") + c.get("xa", "")),
                "with a bracketed value that contains a comma": sum(1 for c in xcases if "{a,b}" in c.get("xb", "") + c.get("xa", "") or "(x, y)" in c.get("xb", "") + c.get("xa", "")),
                "by stream": hist(c["stream"] for c in xcases),
                "measured in Coq: [cases with further arguments; ... with required=false among them; ... of those whose key is "
                "absent and whose value / prop routes left the field alone without failing]": res["XC"]}
    rgroups = [g for g in groups if g.get("retry")]
    rcases = [c for g in rgroups for c in group_cases(g)]
    rt = {"retry groups (one App each: lazy components requested, refused after the placeholder pass, Configure.Set, requested "
          "again)": len(rgroups),
          "components by what refused the first creation": hist(x for g in rgroups for x in g["retry"]["gates"]),
          "components per group": hist(len(g["starts"][0]["comps"]) for g in rgroups),
          "bindings": len(rcases),
          "bindings by kind (key = prefix + value placeholder + prop shorthand; tpl = placeholder inside a literal)":
              hist(c["kind"] for c in rcases),
          "bindings by first value": hist("absent at first" if c.get("value0") is None else "unchanged (control)"
                                          if c.get("value0") == c["value"] else "changed by Configure.Set" for c in rcases),
          "bindings with a default in the placeholder": sum(1 for c in rcases if c.get("dflt") is not None),
          "bindings with required=false": sum(1 for c in rcases if not c["req"]),
          "Set calls": sum(len(retry_sets(g)) for g in rgroups),
          "groups whose Set calls spell the keys in another letter case": sum(1 for g in rgroups if g["retry"].get("spell", 1) < 0.3),
          "by top-level field type": hist(type_kind(c["type"]) for c in rcases),
          "measured in Coq: [bindings populated twice; ... whose Configure.Get answer differs from the loaded document's (a Set "
          "reached the key); ... bound ok on every route at the second creation; ... inside the modelled fragment on all "
          "routes (compared with Rebind.prun's last pass)]": res["RC"]}
    pc = res["PC"]
    pre["measured in Coq: pre-filled / something bound and Run ok / ... and the field ended different from the default / "
        "nothing bound and the default stayed / bound ok inside the modelled fragment (compared with decode_weak)"] = pc
    kfc, kfs = {}, {}
    for i, k in K.items():
        kfc[KF_IDS[k]] = kfc.get(KF_IDS[k], 0) + 1
        st_ = by_id[i]["case"]["stream"]
        kfs.setdefault(KF_IDS[k], {})
        kfs[KF_IDS[k]][st_] = kfs[KF_IDS[k]].get(st_, 0) + 1
    ids = sorted(by_id)
    samples = [by_id[i] for i in ids[len(corpus):len(corpus) + 2] + ids[-1:]]
    triples = sum((3 if c["kind"] == "key" else 1) + (1 if c.get("pre") is not None else 0) for c in cases)
    app_runs = sum((3 if c["kind"] == "key" else 1) + (1 if c.get("pre") is not None else 0) for c in singles) + \
        sum(len(g["starts"]) for g in groups)
    cov = {
        "evaluations": triples,
        "distinct_nontrivial": len(nontrivial),
        "rule": "one evaluation = one field bound by the real container: one configured value (or literal) into one field of a "
                "generated type through one route (prefix / value placeholder, with or without a default, alone or inside a "
                "literal / prop / literal value tag).  Outside groups every evaluation is an App.Run of its own (cases of the "
                "stream 'prefilled' register the component with a non-zero value already in the field and add one run on a zero "
                "component); a group runs several starts in one process and binds all fields of all components of a start in "
                "one App.Run; a retry group is ONE App whose lazy components are created twice (the first creation is refused after "
                "the placeholder pass, Configure.Set corrects the configuration, the second creation populates the same Property "
                "objects again) and reports the fields after the second creation; a case is non-trivial when at least one of its routes bound a value (outcome ok); distinct = "
                "distinct (kind, value, type, required, literal text, default, surrounding text, mapper)",
        "app_runs": app_runs,
        "samples": samples,
        "traces_validated_against_impl": triples,
        "input_distribution": {"value_kinds": vk, "top_level_type_kinds": tk, "streams": streams,
                               "route_outcomes(prefix/value/prop)": routes,
                               "high_precision_floats": precise, "prefilled_fields": pre,
                               "placeholder_defaults_and_templates": dfl, "mapper_arguments_and_groups": mp,
                               "sharing_groups": sh, "populated_twice(retry groups)": rt,
                               "further_tag_arguments": xa_stats},
        "cases": len(cases),
        "distinct_cases": len(distinct),
        "nontrivial_cases_coq": res["NT"],
        "outside_modelled_fragment(some route compared by the oracle only)": res["U"],
        "known_finding_class_sizes": kfc,
        "known_finding_class_sizes_by_stream": kfs,
        "theorem_domains_exercised": {"key cases inside safe with inert text (c17_paths_agree_key applies)": res["DC"][0],
                                      "... of which bound a value (not a common conversion error)": res["DC"][2],
                                      "... on which the implementation's three routes differ (must be 0)": res["DC"][3],
                                      "key cases whose value already has the field's type (embed, c17_prefix_exact)": res["DC"][1]},
    }
    return vlib.decide(ctx, static_ok, by_id, M, V, cov, classify_known=classify, widen=widen, shrink=shrink,
                       assumptions=["the model starts from what Configure.Get(key) returned (viper + yaml.v3 are not modelled)",
                                    "float64 values are compared as exact decimals; the model claims faithfulness for at most 15 "
                                    "significant digits (6 for float32) and integers up to 2^53; outside that fragment only the "
                                    "model-independent part of the oracle (routes agree, unchanged when already of the field's "
                                    "type) is evaluated",
                                    "map keys are lower-case identifiers (viper folds case); struct fields are exported",
                                    "literals are generated inside the tag grammar: no top-level comma (C19), no ${ / #{ (C16/C18)",
                                    "sharing groups change bound values through reflection in a driver post-processor "
                                    "(PostProcessAfterInitialization), standing in for components that modify what they were given in "
                                    "Init; maps / lists held in interface-typed positions are changed too (VERIF_C17_DEEP=0: only what is "
                                    "reachable through declared map / slice / pointer / struct types)",
                                    "retry groups: the lazy components are generated Go source compiled into a copy of the driver "
                                    "(methods cannot be had from reflect.StructOf); the configuration store between the two "
                                    "creations is Model/ConfigStore.v (viper's override over the loaded document), checked "
                                    "against Configure.Get of the real App on every binding; every binding has a non-empty "
                                    "configured value at the second creation; a lazy component is created when it is asked "
                                    "for by name",
                                    "bindings of a group are well-typed (every route succeeds), so that one binding cannot fail the "
                                    "start for the others; conversions and failures are exercised one binding per start",
                                    "a failing oracle counts as a known finding only if the case lies in a class KF-C17a..i AND "
                                    "the implementation did exactly what the model of the unrepaired value path predicts"])
