"""C13 — runners once, in order, after the container is ready (wiring family: generated Go types run through the real container vs Model/Factory.v)."""
import wiring
from wiring import Profile

MANIFEST = {
    "level": "proof",
    "text": 'theorems over App.v: runner events follow all eager initialisation, are the sorted runners up to the first failing one; correspondence with runner sets of all classes and each failing runner; the EXTENDED model (Model/FactoryX.v: Init methods that look components up, post-processors that short-circuit instantiation) carries every run-level invariant family as well (Proofs/FactoryX*.v, theorems *_extended) and is what the correspondence evaluates; scenarios end with Factory.GetComponents(), are restarted on the same App value, have another App started before or in the middle, and include crowds of 24..36 instances of one type; some ordinary components are also (do-nothing) factory or definition-registry post-processors that look at the registry, and named and unnamed instances of one type stand side by side, callbacks fail with the component in hand, func points name methods that take parameters, two instantiations of one generic type are registered under their default names',
    "design_ref": "DESIGN.md 5 C13, 4.3, Appendix A/D",
    "note": "trusted: Coq kernel + vm_compute; hand-written model (Model/Resolve.v, Factory.v, App.v) tied to the code by exact "
            "comparison of event log, wiring and lookups on generated scenarios; Python generator/Go code generator/wx runtime; "
            "Go reflect and runtime; user callbacks are total functions of the scenario (re-entrant Init lookups and short-circuits are the extras of Model/FactoryX.v)",
    "technique": "Rocq proof over the Factory/Resolve model + vm_compute correspondence on generated wiring scenarios",
}

PROFILES = [(Profile(p_runner=0.7, p_fault=0.0, n_procs=(0, 1), p_lazy=0.2, n_bare=(0, 2)), 400, 4000), (Profile(p_runner=0.7, p_fault=0.8, n_procs=(0, 1)), 200, 2000)]

RULE = 'runner sets of all ordering classes (ties, negatives), lazy runners, runners on cycles, each choice of failing runner; non-trivial = >= 2 runners or a failing runner'


def run(ctx):
    return wiring.run_family(ctx, "Corr.Check_C13", wiring.std_scenarios(PROFILES), RULE)
