"""C08 — qualifier and Primary narrowing per field (wiring family: generated Go types run through the real container vs Model/Factory.v)."""
import wiring
from wiring import Profile

MANIFEST = {
    "level": "proof",
    "text": 'theorems: the further-matching loop equals the per-field function at every index (independence), qualifier soundness, ranking; correspondence with 1-4 fields per holder incl. optional empty fields first; the EXTENDED model (Model/FactoryX.v: Init methods that look components up, post-processors that short-circuit instantiation) carries every run-level invariant family as well (Proofs/FactoryX*.v, theorems *_extended) and is what the correspondence evaluates; scenarios end with Factory.GetComponents(), are restarted on the same App value, have another App started before or in the middle, and include crowds of 24..36 instances of one type; some ordinary components are also (do-nothing) factory or definition-registry post-processors that look at the registry, and named and unnamed instances of one type stand side by side, callbacks fail with the component in hand, func points name methods that take parameters, two instantiations of one generic type are registered under their default names; processor crowds (10..15 further Ordered user post-processors of pairwise different Order behind the built-in ones)',
    "design_ref": "DESIGN.md 5 C08, 4.3, Appendix A/D",
    "note": "trusted: Coq kernel + vm_compute; hand-written model (Model/Resolve.v, Factory.v, App.v) tied to the code by exact "
            "comparison of event log, wiring and lookups on generated scenarios; Python generator/Go code generator/wx runtime; "
            "Go reflect and runtime; user callbacks are total functions of the scenario (re-entrant Init lookups and short-circuits are the extras of Model/FactoryX.v)",
    "technique": "Rocq proof over the Factory/Resolve model + vm_compute correspondence on generated wiring scenarios",
}

PROFILES = [(Profile(p_wrap=0.0, n_procs=(0, 2), p_qual=0.7, p_primary=0.3, p_pointqual=0.6, p_optional=0.4, p_extra_instance=0.5, p_valid=0.6, fields=(1, 4),
                     p_qual_api=0.5, p_proc_crowd=0.03), 600, 6000)]

RULE = ('populations with arbitrary qualifier/primary/naming attributes, qualifier sets of size 1-2 incl. the empty qualifier (written in the tag, '
        'or - in scenarios with a PriorityOrdered user post-processor, for half of the qualified points - added by that processor through '
        'Property.AddArg("qualifier", ...) to a tag that declares none), optional fields without candidates placed before others; '
        'non-trivial = a point with a qualifier set or a single point with >= 2 providers')


def run(ctx):
    return wiring.run_family(ctx, "Corr.Check_C08", wiring.std_scenarios(PROFILES), RULE)
