"""C12 — ordering contract. Direct calls of SortOrderedComponents + invocation order in real starts, and the read order
of the loaders at EVERY Initialize of one Configure that is driven through several steps (SetLoaders / AddLoaders /
Initialize, loaders added between two Initializes, the last Initialize optionally inside App.Run)."""
import vlib

MANIFEST = {
    "level": "proof",
    "text": "Rocq theorems over Model/Sorter.v for all participant lists (permutation, three blocks, Order non-decreasing, "
            "canonical projection); the model is tied to the code on every run by evaluating it (vm_compute) against the real "
            "SortOrderedComponents on generated multisets and against invocation logs of processors, runners and loaders "
            "in real App.Run starts and of the loaders at every Initialize of a multi-step history on one Configure "
            "(c12_resort: sorting a stored result together with later registrations = sorting everything); instantiation-aware post-processors next to plain ones, the callbacks around instantiation as sequences of their own; loader histories that hand a configured loader over once more",
    "design_ref": "DESIGN.md 5 C12",
    "note": "trusted: Coq kernel + vm_compute; hand-written model of SortOrderedComponents; Go harness and generators; "
            "sort.Slice assumed only to permute (the oracle re-checks sortedness on each output)",
    "technique": "Rocq proof (induction over lists: Permutation/Sorted) + vm_compute correspondence against the Go implementation",
}

EXTREMES = [-(2 ** 63), 2 ** 63 - 1, -1, 0, 1]


def gen_parts(rng, n, profile):
    parts = []
    # small Order pools force ties; extremes and negatives included
    pool = rng.choice([[0, 1], [-2, -1, 0, 1, 2], EXTREMES, list(range(-50, 50)), [7]])
    weights = rng.choice([(1, 1, 1), (3, 1, 1), (1, 3, 1), (1, 1, 3), (1, 1, 0), (0, 1, 1), (1, 0, 0)])
    for i in range(n):
        cls = rng.choices("POU", weights)[0]
        if profile == "wide" and rng.random() < 0.3:
            o = rng.randint(-(2 ** 63), 2 ** 63 - 1)
        else:
            o = rng.choice(pool)
        parts.append({"id": i, "cls": cls, "ord": 0 if cls == "U" else o})
    return parts


def gen_cases(ctx, n_direct, n_run, start_id=0):
    rng = ctx.rng
    cases = []
    cid = start_id
    for _ in range(n_direct):
        n = rng.choice([0, 1, 2, 3, 5, 8, 13, 21, 40]) if rng.random() < 0.8 else rng.randint(0, 120)
        cases.append({"id": cid, "kind": "direct", "parts": gen_parts(rng, n, rng.choice(["tight", "wide"]))})
        cid += 1
    for _ in range(n_run):
        kind = rng.choice(["runner", "processor", "loader"])
        n = rng.randint(0, 9)
        parts = gen_parts(rng, n, "tight")
        if kind == "processor":
            # built-in wiring happens at ordered 2..8 / priority 2..16; user processors of every class are allowed;
            # about half of them are instantiation-aware as well (their callbacks around instantiation are sequences
            # of their own), the others are plain ComponentPostProcessors
            for p in parts:
                p["aware"] = rng.random() < 0.5
        cases.append({"id": cid, "kind": kind, "parts": parts})
        cid += 1
    return cases


def gen_hist(rng, cid):
    """one Configure: phases of set/add steps each closed by an Initialize; every loader of the case is used once"""
    n = rng.randint(2, 10)
    parts = gen_parts(rng, n, "tight")
    ids = [p["id"] for p in parts]
    rng.shuffle(ids)
    nph = rng.choice([2, 2, 2, 3, 3, 4])
    cuts = sorted(rng.randint(0, n) for _ in range(nph - 1))
    groups = [ids[a:b] for a, b in zip([0] + cuts, cuts + [n])]
    steps = []
    for ph, g in enumerate(groups):
        i = 0
        while i < len(g):
            k = rng.choice([1, 1, 2, 3])
            first = ph == 0 and i == 0
            op = "set" if rng.random() < (0.5 if first else 0.06) else "add"
            steps.append({"op": op, "ids": g[i:i + k]})
            i += k
        if ph > 0 and rng.random() < 0.15:
            # a loader that is already configured is handed over once more: it is then configured twice, and read twice
            seen = [x for st in steps if st["op"] != "init" for x in st["ids"]]
            if seen:
                steps.append({"op": "add", "ids": [rng.choice(seen)]})
        steps.append({"op": "init", "ids": []})
        if rng.random() < 0.07:
            steps.append({"op": "init", "ids": []})
    return {"id": cid, "kind": "loaderhist", "parts": parts, "steps": steps,
            "start": rng.choice(["new", "new", "default"]), "via": rng.choice(["direct", "direct", "app"])}


def hist_classes(c):
    """statistics: Initializes; loaders added after an Initialize by class; an ordered one added after an Initialize
    that had consulted a loader which must come after it"""
    cls = {p["id"]: p for p in c["parts"]}
    rank = {"P": 0, "O": 1, "U": 2}
    key = lambda i: (rank[cls[i]["cls"]], cls[i]["ord"] if cls[i]["cls"] != "U" else 0)
    cur, inits, added, must_move = [], 0, {"P": 0, "O": 0, "U": 0}, False
    consulted = []
    for st in c["steps"]:
        if st["op"] == "init":
            inits += 1
            consulted = list(cur)
        else:
            if st["op"] == "set":
                cur = []
                consulted = [] if inits else consulted
            for i in st["ids"]:
                if inits:
                    added[cls[i]["cls"]] += 1
                    if any(key(i) < key(j) for j in consulted if j in cur):
                        must_move = True
                cur.append(i)
    return inits, added, must_move


CORPUS = [
    {"kind": "direct", "parts": [{"id": 0, "cls": "U", "ord": 0}, {"id": 1, "cls": "P", "ord": 1},
                                 {"id": 2, "cls": "O", "ord": 99}, {"id": 3, "cls": "P", "ord": 98},
                                 {"id": 4, "cls": "O", "ord": 0}]},
    {"kind": "direct", "parts": [{"id": 0, "cls": "O", "ord": -(2 ** 63)}, {"id": 1, "cls": "O", "ord": 2 ** 63 - 1},
                                 {"id": 2, "cls": "P", "ord": 2 ** 63 - 1}, {"id": 3, "cls": "P", "ord": -(2 ** 63)},
                                 {"id": 4, "cls": "U", "ord": 0}, {"id": 5, "cls": "O", "ord": -(2 ** 63)}]},
    {"kind": "runner", "parts": [{"id": 0, "cls": "U", "ord": 0}, {"id": 1, "cls": "O", "ord": 3},
                                 {"id": 2, "cls": "P", "ord": 7}, {"id": 3, "cls": "O", "ord": -3},
                                 {"id": 4, "cls": "P", "ord": 7}]},
    {"kind": "processor", "parts": [{"id": 0, "cls": "U", "ord": 0}, {"id": 1, "cls": "O", "ord": 3},
                                    {"id": 2, "cls": "P", "ord": 70}, {"id": 3, "cls": "O", "ord": -3},
                                    {"id": 4, "cls": "P", "ord": 17}]},
    # instantiation-aware processors next to a plain one whose name sorts last ("processor9"): the callbacks around
    # instantiation still reach every aware participant, in contract order
    {"kind": "processor", "parts": [{"id": 1, "cls": "U", "ord": 0, "aware": True}, {"id": 2, "cls": "O", "ord": 3, "aware": True},
                                    {"id": 3, "cls": "P", "ord": 70, "aware": True}, {"id": 4, "cls": "O", "ord": -3, "aware": True},
                                    {"id": 9, "cls": "U", "ord": 0, "aware": False}]},
    {"kind": "loader", "parts": [{"id": 0, "cls": "U", "ord": 0}, {"id": 1, "cls": "O", "ord": 3},
                                 {"id": 2, "cls": "P", "ord": 7}, {"id": 3, "cls": "U", "ord": 0},
                                 {"id": 4, "cls": "P", "ord": -7}]},
]


def part_term(p):
    cls = {"P": "Prio %s" % vlib.coq_z(p["ord"]), "O": "Ord %s" % vlib.coq_z(p["ord"]), "U": "Unord"}[p["cls"]]
    return "mkPart %d (%s)" % (p["id"], cls)


HEADER = "From Coq Require Import List ZArith.\nFrom IocVerif Require Import Model.Sorter Corr.Check_C12.\nImport ListNotations.\n"


def evaluate(ctx, binp, cases, tag):
    """run implementation + Coq; returns (by_id, mismatches, violations, nontrivial_count, nevals)"""
    rc, res, raw, _loud = vlib.run_json_verbose_share(ctx, binp, {"cases": cases}, timeout=900)
    if res is None:
        raise vlib.GoBuildError("./cmd/c12 (run)", raw[-3000:])
    terms = []
    by_id = {}
    k = 0
    for c, o in zip(cases, res["outs"]):
        o["facts"] = o["facts"] or []
        for si, (name, seq) in enumerate(zip(o["seqname"] or [], o["seqs"] or [])):
            seq = seq or []
            k += 1
            facts = (o["seqfacts"][si] or []) if o.get("seqfacts") else o["facts"]
            by_id[k] = {"case": c, "facts": facts, "observed": name, "seq": seq, "err": o["err"],
                        "panic": o["panic"]}
            if o["panic"] or o["err"]:
                # a start that fails/panics is an observation outside the model: report as mismatch+violation
                seq = [-1]
            terms.append("mkCase %d %s %s" % (k, vlib.coq_list(part_term(p) for p in facts),
                                              vlib.coq_list(str(10 ** 6 if x < 0 else x) for x in seq) + "%nat"))
    out = vlib.coq_eval_sharded(ctx, "cases_c12_" + tag, HEADER, terms,
                                {"M": "mismatches", "V": "violations", "NT": "count_nontrivial"})
    return by_id, out["M"], out["V"], sum(out["NT"]), k


from wiring import Profile
WPROFILES = [Profile(n_procs=(2, 4), p_wrap=0.4, p_cycle_bias=0.85, fields=(1, 3), p_runner=0.5, p_lazy=0.2, n_bare=(0, 0)),
             Profile(n_procs=(1, 3), p_wrap=0.1, p_runner=0.8, p_cycle_bias=0.5, p_fault=0.2, n_bare=(0, 0))]


def run(ctx):
    static_ok = vlib.static_obligations(ctx, extra_targets=["Corr/WiringFacts.vo"])
    binp = vlib.go_build(ctx, "./cmd/c12")
    nd, nr, nh = (3000, 150, 600) if ctx.quick() else (60000, 2000, 12000)
    cases = [dict(c, id=i) for i, c in enumerate(CORPUS)]
    if ctx.replay:
        import json
        r = json.load(open(ctx.replay))
        cases = [dict(r["case"]["case"], id=0)] if "case" in r and "case" in r["case"] else cases
    else:
        cases += gen_cases(ctx, nd, nr, start_id=len(cases))
        cases += [gen_hist(ctx.rng, len(cases) + i) for i in range(nh)]
    wonly = None
    if ctx.replay and cases and cases[0].get("kind") == "wiring":
        wonly, cases = cases[0]["scenario"], []
    by_id, M, V, nt, nev = evaluate(ctx, binp, cases, "main") if cases else ({}, [], [], 0, 0)
    ctx.log("cases=%d evaluations=%d nontrivial=%d mismatches=%d violations=%d" % (len(cases), nev, nt, len(M), len(V)))
    # the callbacks are actually invoked in the sorted sequence: real starts of generated wiring scenarios with several
    # user post-processors (observing, substituting; cycles, so that early-reference callbacks occur) and several
    # runners, compared with the model and judged on the implementation's own event log (Corr/Check_C12w.v)
    import wiring
    WBASE = 10 ** 7
    if wonly is not None:
        wscns = [wonly]
    elif ctx.replay:
        wscns = []
    else:
        nw = 160 if ctx.quick() else 1600
        wscns = [wiring.gen_scenario(ctx.rng, i, WPROFILES[i % len(WPROFILES)]) for i in range(nw)]
    wb, wnt = {}, 0
    if wscns:
        for i, s in enumerate(wscns):
            s["id"] = i
        wb, wout, _ = wiring.evaluate(ctx, wscns, "w", "Corr.Check_C12w",
                                      {"M": "mismatches", "V": "violations", "NT": "count_nontrivial"})
        wnt = sum(wout["NT"])
        for i, e in wb.items():
            by_id[WBASE + i] = {"case": {"kind": "wiring", "scenario": e["scenario"], "parts": e["scenario"]["comps"]},
                                "observation": e["observation"], "names": e["names"]}
        M += [WBASE + i for i in wout["M"]]
        V += [WBASE + i for i in wout["V"]]
        ctx.log("callback order in real starts: scenarios=%d nontrivial=%d mismatches=%d violations=%d" % (
            len(wb), wnt, len(wout["M"]), len(wout["V"])))
    distinct = len({vlib.stable_hash([c["kind"], [(p["cls"], p["ord"]) for p in c["parts"]], c.get("steps"), c.get("via")])
                    for c in cases})
    hs = {"histories": 0, "initializes": 0, "with_two_or_more_Initializes": 0, "last_Initialize_inside_App.Run": 0,
          "loaders_added_after_an_Initialize": {"P": 0, "O": 0, "U": 0},
          "a_loader_added_after_an_Initialize_must_be_sorted_before_one_already_consulted": 0}
    for c in cases:
        if c["kind"] != "loaderhist":
            continue
        inits, added, must = hist_classes(c)
        hs["histories"] += 1
        hs["initializes"] += inits
        hs["with_two_or_more_Initializes"] += 1 if inits >= 2 else 0
        hs["last_Initialize_inside_App.Run"] += 1 if c["via"] == "app" else 0
        for k in "POU":
            hs["loaders_added_after_an_Initialize"][k] += added[k]
        hs["a_loader_added_after_an_Initialize_must_be_sorted_before_one_already_consulted"] += 1 if must else 0
    kinds = {}
    sizes = {}
    for c in cases:
        kinds[c["kind"]] = kinds.get(c["kind"], 0) + 1
        b = min(len(c["parts"]) // 5 * 5, 40)
        sizes[b] = sizes.get(b, 0) + 1

    V.sort(key=lambda i: len(by_id[i]["case"]["parts"]))

    def shrink(c):
        cur = c
        if cur["case"]["kind"] == "wiring":
            return cur
        for _round in range(15):
            parts = cur["case"]["parts"]
            cands = [dict(cur["case"], parts=parts[:i] + parts[i + 1:]) for i in range(len(parts))]
            if cur["case"]["kind"] == "loaderhist":
                steps = cur["case"]["steps"]
                for d, p in zip(cands, parts):
                    d["steps"] = [dict(st, ids=[x for x in st["ids"] if x != p["id"]]) for st in steps]
                cands += [dict(cur["case"], steps=steps[:i] + steps[i + 1:]) for i in range(len(steps))
                          if not steps[i]["ids"]]
                cands += [dict(cur["case"], via="direct")] if cur["case"]["via"] == "app" else []
                cands += [dict(cur["case"], start="new")] if cur["case"]["start"] != "new" else []
            cands = [dict(d, id=i) for i, d in enumerate(cands)]
            if not cands:
                return cur
            b2, _, V2, _, _ = evaluate(ctx, binp, cands, "shrink")
            if not V2:
                return cur
            cur = b2[V2[0]]
        return cur

    def widen():
        ctx.rng.seed(ctx.seed + 99)
        more = gen_cases(ctx, 20000, 600)
        more += [gen_hist(ctx.rng, len(more) + i) for i in range(3000)]
        b2, _, V2, _, _ = evaluate(ctx, binp, more, "widen")
        return [b2[i] for i in V2[:3]]

    samples = [by_id[i] for i in sorted(by_id)[:2]] + [by_id[i] for i in sorted(by_id)[-2:]]
    cov = {
        "evaluations": nev + len(wb),
        "callback_order_in_real_starts": {"scenarios": len(wb), "with_two_user_processors_or_two_runners": wnt},
        "distinct_nontrivial": min(nt, distinct),
        "rule": "generated participant lists (classes P/O/U, Order pools with ties, negatives, int64 extremes; sizes 0-120) "
                "sorted by the real SortOrderedComponents, plus invocation logs of processors/runners/loaders in real "
                "App.Run starts, plus the read order at every Initialize of multi-step histories on one Configure (set/add "
                "steps between Initializes; each Initialize is one evaluation against the loaders configured at that "
                "moment); non-trivial = at least two classes present and at least one (class,Order) tie; "
                "distinct = distinct (kind, class/order list, steps)",
        "samples": samples,
        "traces_validated_against_impl": sum(1 for c in cases if c["kind"] != "direct"),
        "input_distribution": {"kinds": kinds, "size_buckets": sizes, "loader_histories_on_one_Configure": hs},
        "nontrivial_cases": nt,
        "distinct_cases": distinct,
    }
    return vlib.decide(ctx, static_ok, by_id, M, V, cov, widen=widen, shrink=shrink,
                       assumptions=["sort.Slice is only assumed to return some permutation; the oracle checks it"])
