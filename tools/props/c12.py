"""C12 — ordering contract. Direct calls of SortOrderedComponents + invocation order in real starts."""
import vlib

MANIFEST = {
    "level": "proof",
    "text": "Rocq theorems over Model/Sorter.v for all participant lists (permutation, three blocks, Order non-decreasing, "
            "canonical projection); the model is tied to the code on every run by evaluating it (vm_compute) against the real "
            "SortOrderedComponents on generated multisets and against invocation logs of processors, runners and loaders "
            "in real App.Run starts",
    "design_ref": "DESIGN.md 5 C12",
    "note": "trusted: Coq kernel + vm_compute; hand-written model of SortOrderedComponents; Go harness and generators; "
            "sort.Slice assumed only to permute (the oracle re-checks sortedness on each output)",
    "technique": "Rocq proof (induction over lists: Permutation/Sorted) + vm_compute correspondence against the Go implementation",
}

EXTREMES = [-(2 ** 63), 2 ** 63 - 1, -1, 0, 1]


def gen_parts(rng, n, profile):
    parts = []
    # small Order pools force ties; extremes and negatives included
    pool = rng.choice([[0, 1], [-2, -1, 0, 1, 2], EXTREMES, list(range(-50, 50)), [7]])
    weights = rng.choice([(1, 1, 1), (3, 1, 1), (1, 3, 1), (1, 1, 3), (1, 1, 0), (0, 1, 1), (1, 0, 0)])
    for i in range(n):
        cls = rng.choices("POU", weights)[0]
        if profile == "wide" and rng.random() < 0.3:
            o = rng.randint(-(2 ** 63), 2 ** 63 - 1)
        else:
            o = rng.choice(pool)
        parts.append({"id": i, "cls": cls, "ord": 0 if cls == "U" else o})
    return parts


def gen_cases(ctx, n_direct, n_run, start_id=0):
    rng = ctx.rng
    cases = []
    cid = start_id
    for _ in range(n_direct):
        n = rng.choice([0, 1, 2, 3, 5, 8, 13, 21, 40]) if rng.random() < 0.8 else rng.randint(0, 120)
        cases.append({"id": cid, "kind": "direct", "parts": gen_parts(rng, n, rng.choice(["tight", "wide"]))})
        cid += 1
    for _ in range(n_run):
        kind = rng.choice(["runner", "processor", "loader"])
        n = rng.randint(0, 9)
        parts = gen_parts(rng, n, "tight")
        if kind == "processor":
            # built-in wiring happens at ordered 2..8 / priority 2..16; user processors of every class are allowed
            pass
        cases.append({"id": cid, "kind": kind, "parts": parts})
        cid += 1
    return cases


CORPUS = [
    {"kind": "direct", "parts": [{"id": 0, "cls": "U", "ord": 0}, {"id": 1, "cls": "P", "ord": 1},
                                 {"id": 2, "cls": "O", "ord": 99}, {"id": 3, "cls": "P", "ord": 98},
                                 {"id": 4, "cls": "O", "ord": 0}]},
    {"kind": "direct", "parts": [{"id": 0, "cls": "O", "ord": -(2 ** 63)}, {"id": 1, "cls": "O", "ord": 2 ** 63 - 1},
                                 {"id": 2, "cls": "P", "ord": 2 ** 63 - 1}, {"id": 3, "cls": "P", "ord": -(2 ** 63)},
                                 {"id": 4, "cls": "U", "ord": 0}, {"id": 5, "cls": "O", "ord": -(2 ** 63)}]},
    {"kind": "runner", "parts": [{"id": 0, "cls": "U", "ord": 0}, {"id": 1, "cls": "O", "ord": 3},
                                 {"id": 2, "cls": "P", "ord": 7}, {"id": 3, "cls": "O", "ord": -3},
                                 {"id": 4, "cls": "P", "ord": 7}]},
    {"kind": "processor", "parts": [{"id": 0, "cls": "U", "ord": 0}, {"id": 1, "cls": "O", "ord": 3},
                                    {"id": 2, "cls": "P", "ord": 70}, {"id": 3, "cls": "O", "ord": -3},
                                    {"id": 4, "cls": "P", "ord": 17}]},
    {"kind": "loader", "parts": [{"id": 0, "cls": "U", "ord": 0}, {"id": 1, "cls": "O", "ord": 3},
                                 {"id": 2, "cls": "P", "ord": 7}, {"id": 3, "cls": "U", "ord": 0},
                                 {"id": 4, "cls": "P", "ord": -7}]},
]


def part_term(p):
    cls = {"P": "Prio %s" % vlib.coq_z(p["ord"]), "O": "Ord %s" % vlib.coq_z(p["ord"]), "U": "Unord"}[p["cls"]]
    return "mkPart %d (%s)" % (p["id"], cls)


HEADER = "From Coq Require Import List ZArith.\nFrom IocVerif Require Import Model.Sorter Corr.Check_C12.\nImport ListNotations.\n"


def evaluate(ctx, binp, cases, tag):
    """run implementation + Coq; returns (by_id, mismatches, violations, nontrivial_count, nevals)"""
    rc, res, raw = vlib.run_json(binp, {"cases": cases}, timeout=900)
    if res is None:
        raise vlib.GoBuildError("./cmd/c12 (run)", raw[-3000:])
    terms = []
    by_id = {}
    k = 0
    for c, o in zip(cases, res["outs"]):
        o["facts"] = o["facts"] or []
        for name, seq in zip(o["seqname"] or [], o["seqs"] or []):
            seq = seq or []
            k += 1
            by_id[k] = {"case": c, "facts": o["facts"], "observed": name, "seq": seq, "err": o["err"],
                        "panic": o["panic"]}
            if o["panic"] or o["err"]:
                # a start that fails/panics is an observation outside the model: report as mismatch+violation
                seq = [-1]
            terms.append("mkCase %d %s %s" % (k, vlib.coq_list(part_term(p) for p in o["facts"]),
                                              vlib.coq_list(str(10 ** 6 if x < 0 else x) for x in seq) + "%nat"))
    out = vlib.coq_eval_sharded(ctx, "cases_c12_" + tag, HEADER, terms,
                                {"M": "mismatches", "V": "violations", "NT": "count_nontrivial"})
    return by_id, out["M"], out["V"], sum(out["NT"]), k


def run(ctx):
    static_ok = vlib.static_obligations(ctx)
    binp = vlib.go_build(ctx, "./cmd/c12")
    nd, nr = (3000, 150) if ctx.quick() else (60000, 2000)
    cases = [dict(c, id=i) for i, c in enumerate(CORPUS)]
    if ctx.replay:
        import json
        r = json.load(open(ctx.replay))
        cases = [dict(r["case"]["case"], id=0)] if "case" in r and "case" in r["case"] else cases
    else:
        cases += gen_cases(ctx, nd, nr, start_id=len(cases))
    by_id, M, V, nt, nev = evaluate(ctx, binp, cases, "main")
    ctx.log("cases=%d evaluations=%d nontrivial=%d mismatches=%d violations=%d" % (len(cases), nev, nt, len(M), len(V)))
    distinct = len({vlib.stable_hash([c["kind"], [(p["cls"], p["ord"]) for p in c["parts"]]]) for c in cases})
    kinds = {}
    sizes = {}
    for c in cases:
        kinds[c["kind"]] = kinds.get(c["kind"], 0) + 1
        b = min(len(c["parts"]) // 5 * 5, 40)
        sizes[b] = sizes.get(b, 0) + 1

    V.sort(key=lambda i: len(by_id[i]["case"]["parts"]))

    def shrink(c):
        cur = c
        for _round in range(15):
            parts = cur["case"]["parts"]
            cands = [dict(cur["case"], id=i, parts=parts[:i] + parts[i + 1:]) for i in range(len(parts))]
            if not cands:
                return cur
            b2, _, V2, _, _ = evaluate(ctx, binp, cands, "shrink")
            if not V2:
                return cur
            cur = b2[V2[0]]
        return cur

    def widen():
        ctx.rng.seed(ctx.seed + 99)
        more = gen_cases(ctx, 20000, 600)
        b2, _, V2, _, _ = evaluate(ctx, binp, more, "widen")
        return [b2[i] for i in V2[:3]]

    samples = [by_id[i] for i in sorted(by_id)[:2]] + [by_id[i] for i in sorted(by_id)[-2:]]
    cov = {
        "evaluations": nev,
        "distinct_nontrivial": min(nt, distinct),
        "rule": "generated participant lists (classes P/O/U, Order pools with ties, negatives, int64 extremes; sizes 0-120) "
                "sorted by the real SortOrderedComponents, plus invocation logs of processors/runners/loaders in real "
                "App.Run starts; non-trivial = at least two classes present and at least one (class,Order) tie; "
                "distinct = distinct (kind, class/order list)",
        "samples": samples,
        "traces_validated_against_impl": sum(1 for c in cases if c["kind"] != "direct"),
        "input_distribution": {"kinds": kinds, "size_buckets": sizes},
        "nontrivial_cases": nt,
        "distinct_cases": distinct,
    }
    return vlib.decide(ctx, static_ok, by_id, M, V, cov, widen=widen, shrink=shrink,
                       assumptions=["sort.Slice is only assumed to return some permutation; the oracle checks it"])
