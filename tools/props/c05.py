"""C05 — lifecycle order, exactly once, dependencies first (wiring family: generated Go types run through the real container vs Model/Factory.v)."""
import wiring
from wiring import Profile

MANIFEST = {
    "level": "proof",
    "text": 'event-log theorems of the factory model; correspondence compares the complete event log (callbacks of observing processors with field snapshots, AfterPropertiesSet, Init) exactly; the EXTENDED model (Model/FactoryX.v: Init methods that look components up, post-processors that short-circuit instantiation) carries every run-level invariant family as well (Proofs/FactoryX*.v, theorems *_extended) and is what the correspondence evaluates; scenarios end with Factory.GetComponents(), are restarted on the same App value, have another App started before or in the middle,; a third stream has callbacks, AfterPropertiesSet or Init methods that fail; some ordinary components are also (do-nothing) factory or definition-registry post-processors that look at the registry, and named and unnamed instances of one type stand side by side, callbacks fail with the component in hand, func points name methods that take parameters, two instantiations of one generic type are registered under their default names',
    "design_ref": "DESIGN.md 5 C05, 4.3, Appendix A/D",
    "note": "trusted: Coq kernel + vm_compute; hand-written model (Model/Resolve.v, Factory.v, App.v) tied to the code by exact "
            "comparison of event log, wiring and lookups on generated scenarios; Python generator/Go code generator/wx runtime; "
            "Go reflect and runtime; user callbacks are total functions of the scenario (re-entrant Init lookups and short-circuits are the extras of Model/FactoryX.v)",
    "technique": "Rocq proof over the Factory/Resolve model + vm_compute correspondence on generated wiring scenarios",
}

# no crowd scenarios here: the dependencies-first oracle is cubic in the population and one crowd of 36 kept a thorough-tier
# shard busy for more than half an hour (C01 C03 C04 C06-C08 C10 C13 carry them)
PROFILES = [(Profile(p_wrap=0.1, n_procs=(0, 3), p_lazy=0.35, p_init=0.8, p_aps=0.5, p_crowd=0.0), 450, 4500),
            (Profile(p_wrap=0.15, n_procs=(1, 2), p_lazy=0.4, p_init=0.9, p_aps=0.5, p_initget=0.4, p_short=0.5, p_crowd=0.0), 150, 1500),
            # a lifecycle that is cut short: a callback, AfterPropertiesSet or Init that fails ends the component's lifecycle
            # and the start; nothing that was refused is initialised any further or handed out as finished
            (Profile(p_wrap=0.1, n_procs=(1, 3), p_lazy=0.3, p_init=0.8, p_aps=0.5, p_fault=0.8, n_faults=(1, 2), p_valid=0.8, p_crowd=0.0), 100, 1000)]

RULE = 'graphs with lazy/eager mixes, 0-3 observing processors of all ordering classes, init callbacks; non-trivial = successful start with >= 1 injected edge and >= 1 Init'


def run(ctx):
    return wiring.run_family(ctx, "Corr.Check_C05", wiring.std_scenarios(PROFILES), RULE)
