"""C06 — type-directed injection is sound and complete (wiring family: generated Go types run through the real container vs Model/Factory.v)."""
import wiring
from wiring import Profile

MANIFEST = {
    "level": "proof",
    "text": 'theorems over Resolve.v (candidates, qualifier filter, ranking) and inject; correspondence on populations with several types/interfaces/instances per type; the EXTENDED model (Model/FactoryX.v: Init methods that look components up, post-processors that short-circuit instantiation) carries every run-level invariant family as well (Proofs/FactoryX*.v, theorems *_extended) and is what the correspondence evaluates; scenarios end with Factory.GetComponents(), are restarted on the same App value, have another App started before or in the middle, and include crowds of 24..36 instances of one type; some ordinary components are also (do-nothing) factory or definition-registry post-processors that look at the registry, and named and unnamed instances of one type stand side by side, callbacks fail with the component in hand, func points name methods that take parameters, two instantiations of one generic type are registered under their default names',
    "design_ref": "DESIGN.md 5 C06, 4.3, Appendix A/D",
    "note": "trusted: Coq kernel + vm_compute; hand-written model (Model/Resolve.v, Factory.v, App.v) tied to the code by exact "
            "comparison of event log, wiring and lookups on generated scenarios; Python generator/Go code generator/wx runtime; "
            "Go reflect and runtime; user callbacks are total functions of the scenario (re-entrant Init lookups and short-circuits are the extras of Model/FactoryX.v)",
    "technique": "Rocq proof over the Factory/Resolve model + vm_compute correspondence on generated wiring scenarios",
}

PROFILES = [(Profile(p_wrap=0.0, n_procs=(0, 2), p_extra_instance=0.5, max_ifaces=4, kind_weights={"ptr": 3, "iface": 4, "sptr": 3, "siface": 4, "any": 1, "func": 3, "name": 0.5, "other": 0.1}), 420, 4500),
            (Profile(p_wrap=0.0, n_procs=(0, 2), n_bare=(1, 3), p_sealed=0.5, p_local_twins=0.4, p_foreign_twins=0.4, max_ifaces=3, fields=(1, 4), kind_weights={"ptr": 1, "iface": 3, "sptr": 1, "siface": 5, "any": 5, "func": 0.5, "name": 1, "other": 0}), 180, 1500)]

RULE = 'populations of several types x interfaces x instances; consumer fields *T, I, []*T, []I, any, func; non-trivial = successful start with an unnamed point that has >= 2 admissible providers'


def run(ctx):
    return wiring.run_family(ctx, "Corr.Check_C06", wiring.std_scenarios(PROFILES), RULE)
