"""C15 — configuration sources merge in loader order; adding a source drops nothing.

Generates loader sets (raw / file / args / user-written loaders of every ordering class, 1-4 loaders plus the
ArgsLoader(os.Args) of configure.Default()), key trees with overlapping and disjoint keys, groups of loaders of EQUAL
class and Order (several files, several user loaders with the same Order(), files next to priority-0 user loaders) that
give one key different values, option sequences (SetConfig / AddConfigLoader / SetConfigLoader in every order), runs the
REAL App on them (harness/cmd/c15) and evaluates model and oracle in Coq (Corr/Check_C15.v).

A second stream drives ONE Configure through a history: SetLoaders / AddLoaders / Initialize / reads, several
Initializes with loaders added in between, the last one optionally performed by App.Run (app.SetConfigure(cfg) or the
App's own Configure); every step is replayed on the model (Model/ConfigMerge.v cstep_run) and the property is
evaluated on the observations (every Initialize consults the sort of ALL loaders configured so far).

A third stream RE-USES option values and loader slices: app.SetConfigLoader(ls...) / AddConfigLoader(ls...) /
SetConfig(file) values are built once and applied round after round to a new App, to the same App started again, to a
new App on the same Configure, to Configures driven directly with the same []Loader slices; every object configured
from them must show the configuration the model computes from the VALUES (Corr/Check_C15.v rcase)."""
import copy
import glob
import json
import os

import vlib

MANIFEST = {
    "level": "proof",
    "text": "Rocq theorems over Model/ConfigMerge.v for all document lists, key trees and paths: the effective configuration "
            "is the path-wise deep merge in loader-sequence order (c15_deep_merge), last supplier wins on leaves under shape "
            "compatibility (c15_last_wins, refuted without it: KF-C15b), single suppliers survive, nothing is dropped, the "
            "sequence is the C12 sorter's (ordered loaders first; equal class and Order in the order they were added: "
            "c15_sequence_contract / _stable / _builtin), a Configure initialised several times consults the sort of ALL loaders "
            "configured so far (c15_history, c15_reinitialize), source-adding options keep earlier loaders "
            "(c15_add_monotone; refuted for the unrepaired AddConfigLoader: D-C15a). The model is tied to the code on every run "
            "by vm_compute against real App.Run starts and multi-step histories on one Configure: Get(path) for every path of "
            "every document, the read order of user-written loaders, a prefix-bound field; the arguments loader modelled from the argument strings (parse_arg / argv_load, c15_args_value_is_rest_after_first_eq) and option values / loader slices re-used across Apps and starts; process-wide options (app.Settings) in processes of their own; environment variables named like the configuration paths",
    "design_ref": "DESIGN.md 5 C15",
    "note": "trusted: Coq kernel + vm_compute; hand-written model of viper v1.19.0 mergeMaps/searchMap and go-kid/properties "
            "buildMap (third-party, modelled as they behave); Go harness and Python generators; keys are lower-case identifiers "
            "(viper folds case), values canonicalised (integral floats = ints); sort.Slice on at most 12 elements is a stable "
            "insertion sort (cases stay below), so loaders of equal class and Order are taken in the order they were added",
    "technique": "Rocq proof (nested induction over config trees, induction over document lists and over histories, stable "
                 "insertion sort via C12) + vm_compute correspondence against the Go implementation",
}

TOP = ["app", "db", "srv", "log", "feat", "cache"]
SUB = ["host", "port", "name", "mode", "opts", "a", "b", "c", "ttl"]
WORDS = ["alpha", "beta", "x1", "prod", "dev", "h1", "west", "v2", "some text"]
FLOATS = ["0.5", "1.5", "2.25", "-3.75"]

HEADER = ("From Coq Require Import List String NArith ZArith.\n"
          "From IocVerif Require Import Model.Sorter Model.ConfigMerge Corr.Check_C15.\n"
          "Import ListNotations.\nLocal Open Scope list_scope.\n")


# ------------------------------------------------------------------------------------------------
# trees: ["m", [[k, t]...]] | ["l", [t...]] | ["i", n] | ["f", "1.5"] | ["s", "x"] | ["b", true] | ["n"]

def gen_atom(rng, allow_null=True):
    r = rng.random()
    if r < 0.45:
        return ["i", rng.choice([0, 1, 2, 3, 5, 8, 80, 443, 8080, -1, -7])]
    if r < 0.75:
        return ["s", rng.choice(WORDS)]
    if r < 0.87:
        return ["b", rng.random() < 0.5]
    if r < 0.96 or not allow_null:
        return ["f", rng.choice(FLOATS)]
    return ["n"]


def gen_value(rng, depth, pmap):
    """a value for a key: map (prob pmap, decreasing with depth), list, or atom"""
    r = rng.random()
    if depth < 3 and r < pmap:
        n = rng.choice([0, 1, 1, 2, 2, 3]) if rng.random() < 0.1 else rng.choice([1, 2, 2, 3])
        keys = rng.sample(SUB, n)
        return ["m", [[k, gen_value(rng, depth + 1, pmap * 0.6)] for k in keys]]
    if r < pmap + 0.12:
        n = rng.choice([0, 1, 2, 3])
        items = []
        for _ in range(n):
            if rng.random() < 0.15:
                items.append(["m", [[rng.choice(SUB), gen_atom(rng, False)]]])
            else:
                items.append(gen_atom(rng, False))
        return ["l", items]
    return gen_atom(rng)


def gen_schema(rng):
    n = rng.choice([1, 2, 2, 3, 3, 4])
    keys = rng.sample(TOP, n)
    return ["m", [[k, gen_value(rng, 1, 0.65)] for k in keys]]


def revalue(rng, t, keep, conflict):
    """a document drawn from the schema: each entry kept with prob `keep`, leaves get fresh values;
    with prob `conflict` a node changes shape (map <-> non-map)"""
    if t[0] == "m":
        kids = []
        for k, v in t[1]:
            if rng.random() > keep:
                continue
            if rng.random() < conflict:
                v2 = gen_atom(rng) if v[0] == "m" else ["m", [[rng.choice(SUB), gen_atom(rng, False)]]]
                kids.append([k, v2])
            else:
                kids.append([k, revalue(rng, v, max(keep, 0.6), conflict)])
        if rng.random() < 0.25 and len(kids) < 4:          # a key of its own (disjoint keys)
            pool = [k for k in (SUB + TOP) if k not in [x[0] for x in kids] and k not in [x[0] for x in t[1]]]
            kids.append([rng.choice(pool), gen_atom(rng, False)])
        rng.shuffle(kids)
        return ["m", kids]
    if t[0] == "l":
        return gen_value(rng, 3, 0.0) if rng.random() < 0.5 else t
    return gen_atom(rng) if rng.random() < 0.8 else t


def leaf_paths(t, pre=()):
    """(path, leaf) for every non-map leaf; maps are descended"""
    out = []
    if t[0] == "m":
        for k, v in t[1]:
            out += leaf_paths(v, pre + (k,))
    else:
        out.append((list(pre), t))
    return out


def all_paths(t, pre=()):
    out = []
    if t[0] == "m":
        for k, v in t[1]:
            out.append(list(pre + (k,)))
            out += all_paths(v, pre + (k,))
    return out


def nest(pairs):
    """[(path, leaf)] -> tree, later pairs overwrite (used only for args documents without prefix clashes)"""
    root = ["m", []]
    for p, leaf in pairs:
        cur = root
        for i, k in enumerate(p):
            hit = [e for e in cur[1] if e[0] == k]
            if i == len(p) - 1:
                if hit:
                    hit[0][1] = leaf
                else:
                    cur[1].append([k, leaf])
            else:
                if hit and hit[0][1][0] == "m":
                    cur = hit[0][1]
                elif hit:
                    hit[0][1] = ["m", []]
                    cur = hit[0][1]
                else:
                    nxt = ["m", []]
                    cur[1].append([k, nxt])
                    cur = nxt
    return root


# ------------------------------------------------------------------------------------------------
# YAML / args text

def yaml_scalar(t):
    k = t[0]
    if k == "i":
        return str(t[1])
    if k == "f":
        return t[1]
    if k == "s":
        return json.dumps(t[1])
    if k == "b":
        return "true" if t[1] else "false"
    if k == "n":
        return "null"
    raise ValueError(t)


def yaml_flow(t):
    if t[0] == "m":
        return "{" + ", ".join("%s: %s" % (json.dumps(k), yaml_flow(v)) for k, v in t[1]) + "}"
    if t[0] == "l":
        return "[" + ", ".join(yaml_flow(x) for x in t[1]) + "]"
    return yaml_scalar(t)


def yaml_block(t, ind=0):
    lines = []
    for k, v in t[1]:
        if v[0] == "m" and v[1]:
            lines.append(" " * ind + k + ":")
            lines += yaml_block(v, ind + 2)
        else:
            lines.append(" " * ind + k + ": " + yaml_flow(v))
    return lines


def doc_text(doc, style):
    if doc is None:
        return ""
    if style == "flow" or not doc[1]:
        return yaml_flow(doc) + "\n"
    return "\n".join(yaml_block(doc)) + "\n"


# command-line value texts.  PUNCT: strconv2.ParseAny reads them as the text itself (whatever punctuation they
# contain); TYPED: ParseAny reads a quoted text (quotes dropped), a number, a bool, a list or a map.
PUNCT_VALUES = ["a=b", "a=b=c", "=", "==", "x=", "=x", "k=v", "x=1&y=2", "user:pw@tcp(h:3306)/db?x=1&y=2", "aGVsbG8=", "aGk==",
                "http://h:80/p?a=b#frag", "k:v", "k: v", "a#b", "a #b", "#c", "x,y", "some text", " lead", "trail ", "'a=b", "a\"b",
                "{a=b}", "key=[v]", "(a=b)", "a=(b", "a\\b", "$", "${x}", "-", "--", "~", "null", "yes", "1e3", "0x10", "*", "&x",
                "!t", "%", "@a", "`", "|", ">", "?", "- x", "[a", "b]", "{", "}", "a;b", "a|b=c", "p=q r=s"]
TYPED_VALUES = ['"a=b"', "'q'", '"k: v"', "''", '""', "'x=y z'", "007", "+5", "1.50", "-0.5", "8080", "True", "FALSE", "[1,2]",
                "[a=b,c]", "[]", "[x,y=z]", '{"a":1}', '{"a":"b=c","n":[1,2]}', "map[a:b=c]", "map[a:1 b:x]", "{}", "1000000",
                "0.00001", "[k:v,#,a b]"]


def arg_value_ok(t):
    """texts the generator does not emit: a lone quote character makes strconv2.ParseAny panic (val[1:0]; the fault is in
    go-kid/strconv2 and already recorded for C16 as KF-C16e) - alone or as an element of a [..] list"""
    if t in ("'", '"'):
        return False
    if t.startswith("[") and ("'" in t or '"' in t):
        return False
    return all(32 <= ord(ch) < 127 for ch in t)


def gen_arg_value(rng):
    r = rng.random()
    if r < 0.5:
        return rng.choice(PUNCT_VALUES)
    if r < 0.7:
        return rng.choice(TYPED_VALUES)
    while True:
        t = "".join(rng.choice("ab1=:#, '\"?&/@.-_+[]{}()") for _ in range(rng.choice([1, 2, 3, 4, 6, 8])))
        if arg_value_ok(t):
            return t


def arg_value_class(t):
    if t[:1] in ("'", '"') and t[-1:] == t[:1] and len(t) >= 2:
        return "quoted"
    if t[:1] in "[{" or t.startswith("map["):
        return "bracketed"
    if "=" in t:
        return "text_with_equals_sign"
    return "other_text_or_number"


def arg_text(p, a):
    if a[0] == "t":
        return "--app.config=%s=%s" % (".".join(p), a[1])
    if a[0] == "i":
        v = str(a[1])
    elif a[0] == "f":
        v = a[1]
    elif a[0] == "b":
        v = "true" if a[1] else "false"
    else:
        v = a[1]
    return "--app.config=%s=%s" % (".".join(p), v)


def gen_args(rng, schema, profile):
    """args of one ArgsLoader as [(path, atom)]; profile: ok | dup | overwrite | panic"""
    doc = revalue(rng, schema, 0.6, 0.0)
    pairs = [(p, a) for p, a in leaf_paths(doc) if a[0] in "isbf"]
    rng.shuffle(pairs)
    pairs = pairs[:rng.choice([1, 2, 3, 4])]
    # value texts with punctuation ('=' ':' '#' ',' blanks, quotes, brackets ...): the model types them (parse_arg)
    pairs = [(p, ["t", gen_arg_value(rng)] if rng.random() < 0.3 else a) for p, a in pairs]
    if profile == "dup" and pairs:
        p, _ = rng.choice(pairs)
        pairs.append((p, gen_atom(rng, False)))
    deep = [pa for pa in pairs if len(pa[0]) >= 2]
    if profile == "overwrite" and deep:          # "k.x=v" then "k=v": fine, the later scalar replaces the map
        p, _ = rng.choice(deep)
        pairs.append((p[:-1], ["i", 7]))
    if profile == "panic" and deep:              # "k=v" then "k.x=v": go-kid/properties panics
        p, a = rng.choice(deep)
        i = pairs.index((p, a))
        pairs.insert(rng.randint(0, i), (p[:-1], ["i", 7]))
    return [[p, a] for p, a in pairs]


# ------------------------------------------------------------------------------------------------
# cases

USER_ORDS = [0, 0, 0, 1, 1, -1, 5, 5, -7, 2 ** 31]


def gen_loader(rng, schema, lid, kind, conflict, argprofile="ok"):
    L = {"lid": lid, "kind": kind, "doc": None, "missing": False, "args": [], "style": rng.choice(["block", "flow"])}
    if kind == "user":
        # a loader type of the user's: priority-ordered / ordered / unordered, small Order pool (ties; 0 ties with files)
        L["cls"] = rng.choice("PPOOU")
        L["ord"] = 0 if L["cls"] == "U" else rng.choice(USER_ORDS)
    if kind == "args":
        L["args"] = gen_args(rng, schema, argprofile)
        return L
    r = rng.random()
    if r < 0.06:
        L["doc"] = None                               # zero bytes: skipped by loadConfigure
    elif r < 0.10:
        L["doc"] = ["m", []]                          # "{}": merged, no effect
    else:
        L["doc"] = revalue(rng, schema, rng.choice([0.5, 0.7, 0.9]), conflict)
    return L


def gen_case(rng, cid, profile):
    """profile: plain | conflict (KF-C15b stream) | argpanic (KF-C15c stream) | missing (unreadable file)"""
    schema = gen_schema(rng)
    conflict = 0.25 if profile == "conflict" else 0.0
    nl = rng.choice([1, 2, 2, 3, 3, 4])
    lid = [0]

    def newl(kind=None, argprofile="ok"):
        lid[0] += 1
        kind = kind or rng.choice(["raw", "raw", "file", "file", "args", "user", "user"])
        return gen_loader(rng, schema, lid[0], kind, conflict, argprofile)

    loaders = [newl() for _ in range(nl)]
    if profile == "argpanic":
        loaders[rng.randrange(nl)] = newl("args", "panic")
    elif rng.random() < 0.3:
        loaders.append(newl("args", rng.choice(["dup", "overwrite"])))
    if profile == "missing":
        lid[0] += 1
        loaders.insert(rng.randrange(len(loaders) + 1),
                       {"lid": lid[0], "kind": "file", "doc": None, "missing": True, "args": [], "style": "block"})
    rng.shuffle(loaders)                               # every insertion order
    if profile in ("plain", "conflict") and rng.random() < 0.30:
        add_repeat(rng, loaders, lid)
    if profile == "plain" and rng.random() < 0.5:
        add_equal_group(rng, loaders, lid, schema)
    ops = []
    i = 0
    first = True
    while i < len(loaders):
        L = loaders[i]
        r = rng.random()
        if L["kind"] == "file" and r < 0.6:
            ops.append({"op": "setconfig", "loaders": [L]})
            i += 1
        else:
            n = 1 if r < 0.7 else 2
            grp = loaders[i:i + n]
            i += len(grp)
            # SetConfigLoader replaces (its documented meaning): mostly as the first option, sometimes later
            op = "setloaders" if (rng.random() < (0.25 if first else 0.06)) else "addloaders"
            ops.append({"op": op, "loaders": grp})
        first = False
    if rng.random() < 0.05:
        ops.append({"op": "setloaders", "loaders": []})
    osargs = []
    if rng.random() < 0.45:
        osargs = gen_args(rng, schema, rng.choice(["ok", "ok", "dup", "overwrite"]))
    if osargs and profile == "plain" and rng.random() < 0.12:
        # the command line's own arguments once more in an explicit ArgsLoader, after an overriding raw document
        lid[0] += 2
        again = {"lid": lid[0], "kind": "args", "doc": None, "missing": False, "args": copy.deepcopy(osargs),
                 "style": "block", "grp": 0}
        grp = [again]
        ov = override_of(rng, nest([(p, a) for p, a in osargs]), lid[0] - 1, ["raw"])
        if ov:
            grp.insert(0, ov)
        ops.append({"op": "addloaders", "loaders": grp})
    case = {"id": cid, "osargs": osargs, "ops": ops, "prefix": "", "child": False, "profile": profile}
    finish_case(rng, case)
    if osargs and rng.random() < 0.12:
        case["child"] = True
    if ops and rng.random() < 0.1:
        # the last options are process-wide ones (app.Settings), which every Run applies after its own: the same sequence
        case["child"] = True
        case["global"] = rng.randint(1, len(ops))
    return case


def different_atom(rng, a):
    for _ in range(20):
        b = gen_atom(rng, False)
        if b != a and not (b[0] == "s" and " " in b[1]):
            return b
    return ["s", "other"]


def override_of(rng, doc, lid, kinds):
    """a loader that gives some leaf paths of `doc` a DIFFERENT value (same shape: leaf for leaf), plus sometimes a key
    of its own; None if doc has no leaf"""
    leaves = [(p, a) for p, a in leaf_paths(doc) if p]
    if not leaves:
        return None
    rng.shuffle(leaves)
    picked = leaves[:rng.choice([1, 1, 2, 3])]
    pairs = [(p, different_atom(rng, a)) for p, a in picked]
    if rng.random() < 0.3:
        pairs.append((["own%d" % lid], gen_atom(rng, False)))
    kind = rng.choice(kinds)
    L = {"lid": lid, "kind": kind, "doc": None, "missing": False, "args": [], "style": rng.choice(["block", "flow"])}
    if kind == "args":
        L["args"] = [[p, a] for p, a in pairs]
    else:
        L["doc"] = nest(pairs)
    return L


def add_repeat(rng, loaders, lid):
    """A ... B ... A: a second loader that delivers exactly the bytes loader A delivers (the same raw text, the same
    file once more, another file / raw bytes with the content of a file, the same arguments), later in the insertion
    order, usually with a loader in between that overrides some of A's leaves. Each source is merged in its position,
    so the later occurrence must win for the shared keys."""
    cands = [L for L in loaders if not L["missing"] and (L["args"] if L["kind"] == "args" else L["doc"] and L["doc"][1])]
    if not cands:
        return
    A = rng.choice(cands)
    i = loaders.index(A)
    lid[0] += 1
    D = copy.deepcopy(A)
    D["lid"] = lid[0]
    A.setdefault("grp", A["lid"])
    D["grp"] = A["grp"]
    r = rng.random()
    if A["kind"] == "file":
        if r < 0.45:
            D["kind"] = "raw"                          # raw bytes equal to the content of an earlier file
            D.pop("fileof", None)
        elif r < 0.75:
            D["fileof"] = A.get("fileof", A["lid"])    # the very same file loaded twice
        # else: another file with the same content
    elif A["kind"] == "raw" and r < 0.2:
        D["kind"] = "file"                             # a file with the content of a raw loader (files merge first)
    between = []
    if rng.random() < 0.75:
        lid[0] += 1
        ov = override_of(rng, loader_doc(A), lid[0], ["raw", "raw", "raw", "args", "file"])
        if ov:
            between.append(ov)
    loaders[i + 1:i + 1] = between
    j = rng.randint(i + 1 + len(between), len(loaders))
    loaders.insert(j, D)
    if rng.random() < 0.15:                            # A, B, A, B', A
        lid[0] += 2
        D2 = copy.deepcopy(D)
        D2["lid"] = lid[0]
        ov = override_of(rng, loader_doc(A), lid[0] - 1, ["raw", "args"])
        loaders[j + 1:j + 1] = ([ov] if ov else []) + [D2]


def distinct_value(rng, lid):
    return rng.choice([["s", "eq%d" % lid], ["i", 1000 + lid], ["f", "%d.5" % lid]])


def add_equal_group(rng, loaders, lid, schema):
    """2-3 loaders that the sorter cannot separate (same class, same Order) and that give the same leaf paths DIFFERENT
    values, put at arbitrary positions of the insertion order: several files; user loaders of one class with one Order;
    files together with priority-0 user loaders. The one added last must win."""
    doc = revalue(rng, schema, 0.9, 0.0)
    leaves = [p for p, a in leaf_paths(doc) if p and a[0] != "l"]
    rng.shuffle(leaves)
    shared = leaves[:rng.choice([1, 1, 2])] or [["eqk"]]
    # no shared path may be a prefix of another one
    shared = [p for p in shared if not any(q != p and q[:len(p)] == p for q in shared)]
    form = rng.choice(["files", "files", "userP", "userO", "file+userP0", "userP", "userO"])
    k = rng.choice([2, 2, 3])
    o = rng.choice(USER_ORDS)
    for i in range(k):
        lid[0] += 1
        if form == "files" or (form == "file+userP0" and i % 2 == 0):
            L = {"lid": lid[0], "kind": "file"}
        elif form == "file+userP0":
            L = {"lid": lid[0], "kind": "user", "cls": "P", "ord": 0}
        else:
            L = {"lid": lid[0], "kind": "user", "cls": form[-1], "ord": o}
        pairs = [(p, distinct_value(rng, lid[0])) for p in shared if rng.random() < 0.9] or \
                [(shared[0], distinct_value(rng, lid[0]))]
        if rng.random() < 0.4:
            pairs.append((["own%d" % lid[0]], gen_atom(rng, False)))
        L.update({"doc": nest(pairs), "missing": False, "args": [], "style": rng.choice(["block", "flow"]), "eqgrp": form})
        loaders.insert(rng.randint(0, len(loaders)), L)


def lclass_of(L):
    """(rank, Order) as SortOrderedComponents sees the loader"""
    if L["kind"] == "file":
        return (0, 0)
    if L["kind"] == "user" and L["cls"] != "U":
        return (0 if L["cls"] == "P" else 1, L["ord"])
    return (2, 0)


def py_sequence(fin):
    """the expected loader sequence (statistics only; the model is Coq's)"""
    return sorted(fin, key=lambda L: lclass_of(L))         # sorted() is stable


def loader_doc(L):
    """the document a loader is expected to deliver (args: nested pairs), or None"""
    if L["kind"] == "args":
        return nest([(p, a) for p, a in L["args"]]) if L["args"] else None
    return L["doc"]


def final_loaders(case):
    cur = [{"lid": 0, "kind": "args", "args": case["osargs"], "doc": None, "missing": False}]
    for o in case["ops"]:
        cur = list(o["loaders"]) if o["op"] == "setloaders" else cur + list(o["loaders"])
    return cur


def finish_case(rng, case):
    """paths to observe (every path of every document, plus one absent) and the prefix key"""
    seen = []
    everyone = [L for o in case["ops"] for L in o["loaders"]] + \
               [{"kind": "args", "args": case["osargs"], "doc": None}]
    for L in everyone:
        d = loader_doc(L)
        if d:
            for p in all_paths(d):
                if p not in seen:
                    seen.append(p)
    seen = seen[:48]
    seen.append(["nope", "missing"])
    case["paths"] = seen
    fin = final_loaders(case)
    if any(L.get("missing") for L in fin) or rng is None:
        return
    docs = [loader_doc(L) for L in fin]
    docs = [d for d in docs if d]
    cands = prefix_candidates(docs)
    if cands and rng.random() < 0.5:
        case["prefix"] = rng.choice(cands)


def prefix_candidates(docs):
    """top-level keys that are a map in every document that has them, non-empty in at least one"""
    cands = []
    for k in TOP:
        vals = [v for d in docs for kk, v in d[1] if kk == k]
        if vals and all(v[0] == "m" for v in vals) and any(v[1] for v in vals):
            cands.append(k)
    return cands


def gen_cases(ctx, n, start_id):
    rng = ctx.rng
    out = []
    for i in range(n):
        r = rng.random()
        profile = "plain" if r < 0.80 else "conflict" if r < 0.90 else "argpanic" if r < 0.95 else "missing"
        out.append(gen_case(rng, start_id + i, profile))
    return out


def load_corpus():
    d = os.path.join(vlib.VERIF, "corpus", "C15")
    out = []
    for f in sorted(glob.glob(os.path.join(d, "*.json"))):
        c = json.load(open(f))
        c["corpus_file"] = os.path.basename(f)
        out.append(c)
    return out


# ------------------------------------------------------------------------------------------------
# to Go / to Coq

def go_case(ctx, case):
    fdir = ctx.wpath("files")
    os.makedirs(fdir, exist_ok=True)

    def spec(L):
        if L["kind"] == "raw":
            return {"kind": "raw", "text": doc_text(L["doc"], L["style"])}
        if L["kind"] == "args":
            return {"kind": "args", "args": ["prog", "-x"] + [arg_text(p, a) for p, a in L["args"]]}
        if L["kind"] == "user":
            return {"kind": "user", "cls": L["cls"], "ord": L["ord"], "lid": L["lid"],
                    "text": doc_text(L["doc"], L["style"])}
        f = os.path.join(fdir, "c%d_l%d.yaml" % (case["id"], L.get("fileof", L["lid"])))
        if L["missing"]:
            f += ".missing"
        else:
            open(f, "w").write(doc_text(L["doc"], L["style"]))
        return {"kind": "file", "file": f}

    ops = []
    for o in case["ops"]:
        if o["op"] == "setconfig":
            ops.append({"op": "setconfig", "file": spec(o["loaders"][0])["file"]})
        else:
            ops.append({"op": o["op"], "loaders": [spec(L) for L in o["loaders"]]})
    return {"id": case["id"], "osargs": [arg_text(p, a) for p, a in case["osargs"]], "ops": ops,
            "paths": [".".join(p) for p in case["paths"]], "prefix": case["prefix"], "child": case["child"],
            "global": case.get("global", 0)}


def cs(s):
    return vlib.coq_string(s)


def coq_path(p):
    return vlib.coq_list(cs(k) for k in p)


def coq_atom(a):
    k = a[0]
    if k == "i":
        return "AInt %s" % vlib.coq_z(int(a[1]))
    if k == "f":
        return "AFloat %s" % cs(a[1])
    if k == "s":
        return "AStr %s" % cs(a[1])
    if k == "b":
        return "ABool %s" % vlib.coq_bool(a[1])
    return "ANull"


def coq_tree(t):
    if t[0] == "m":
        return "CMap %s" % coq_doc(t)
    if t[0] == "l":
        return "CList %s" % vlib.coq_list(coq_tree(x) for x in t[1])
    return "CLeaf (%s)" % coq_atom(t)


def coq_doc(t):
    return vlib.coq_list("(%s, %s)" % (cs(k), coq_tree(v)) for k, v in t[1])


def coq_args(args, lead=()):
    """the argument strings as the ArgsLoader receives them"""
    return vlib.coq_list(vlib.coq_bytes(t) for t in list(lead) + [arg_text(p, a) for p, a in args])


def coq_loader(L):
    if L["kind"] == "args":
        k = "LArgv %s" % coq_args(L["args"], ("prog", "-x"))
    elif L["kind"] == "raw":
        k = "LRaw %s" % ("None" if L["doc"] is None else "(Some %s)" % coq_doc(L["doc"]))
    elif L["kind"] == "user":
        cls = {"P": "(Prio %s)" % vlib.coq_z(L["ord"]), "O": "(Ord %s)" % vlib.coq_z(L["ord"]), "U": "Unord"}[L["cls"]]
        k = "LUser %s %s" % (cls, "None" if L["doc"] is None else "(Some %s)" % coq_doc(L["doc"]))
    elif L["missing"]:
        k = "LFile None"
    else:
        k = "LFile (Some %s)" % ("None" if L["doc"] is None else "(Some %s)" % coq_doc(L["doc"]))
    return "mkLoader %d (%s)" % (L["lid"], k)


def coq_op(o):
    if o["op"] == "setconfig":
        return "OSetConfig (%s)" % coq_loader(o["loaders"][0])
    ctor = "OSetConfigLoader" if o["op"] == "setloaders" else "OAddConfigLoader"
    return "%s %s" % (ctor, vlib.coq_list(coq_loader(L) for L in o["loaders"]))


def coq_nats(xs):
    return vlib.coq_list(str(x) for x in (xs or [])) + "%nat"


def obs_tree(j):
    """Go canonical JSON -> tree"""
    if j is None:
        return None
    if "m" in j:
        return ["m", [[k, obs_tree(v)] for k, v in j["m"]]]
    if "l" in j:
        return ["l", [obs_tree(x) for x in j["l"]]]
    if "i" in j:
        return ["i", int(j["i"])]
    if "f" in j:
        return ["f", j["f"]]
    if "s" in j:
        return ["s", j["s"]]
    if "b" in j:
        return ["b", j["b"]]
    return ["n"]


def printable(t):
    if t is None:
        return True
    if t[0] == "m":
        return all(printable(["s", k]) and printable(v) for k, v in t[1])
    if t[0] == "l":
        return all(printable(x) for x in t[1])
    if t[0] in ("s", "f"):
        return all(32 <= ord(ch) < 127 for ch in t[1])
    return True


def coq_opt_tree(t):
    if t is None:
        return "None"
    if not printable(t):
        t = ["s", "?unprintable"]
    return "(Some (%s))" % coq_tree(t)


def coq_case(cid, case, obs):
    out = {"ok": "OOk", "err": "OErr", "panic": "OPanic"}[obs["out"]]
    gets = []
    if obs["out"] == "ok":
        for p, g in zip(case["paths"], obs["gets"] or []):
            gets.append("(%s, %s)" % (coq_path(p), coq_opt_tree(obs_tree(g))))
    bound = "None"
    if case["prefix"] and obs["out"] == "ok":
        bound = "(Some (%s, %s))" % (cs(case["prefix"]), coq_opt_tree(obs_tree(obs["bound"])))
    return "mkCase %d %s %s %s %s %s %s" % (cid, coq_args(case["osargs"]), vlib.coq_list(coq_op(o) for o in case["ops"]),
                                            out, vlib.coq_list(gets), bound, coq_nats(obs.get("log")))


# ------------------------------------------------------------------------------------------------
# histories: one Configure, several steps

def gen_hist(rng, cid):
    """start (new | default | appdefault), then phases of SetLoaders/AddLoaders/SetConfig steps each closed by an
    Initialize and (mostly) a read of every path; the last phase may be performed by App.Run"""
    r = rng.random()
    profile = "plain" if r < 0.86 else "conflict" if r < 0.92 else "argpanic" if r < 0.95 else "missing"
    schema = gen_schema(rng)
    conflict = 0.25 if profile == "conflict" else 0.0
    lid = [0]

    def newl(kinds):
        lid[0] += 1
        return gen_loader(rng, schema, lid[0], rng.choice(kinds), conflict)

    start = rng.choice(["new", "new", "new", "default", "default", "appdefault"])
    osargs = []
    if start != "new" and rng.random() < 0.5:
        osargs = gen_args(rng, schema, rng.choice(["ok", "ok", "dup", "overwrite"]))
    nph = rng.choice([2, 2, 2, 3, 3, 1])
    via_app = start == "appdefault" or rng.random() < 0.45
    steps = []
    everything = ["raw", "raw", "file", "file", "args", "user", "user", "user"]
    ordered_first = ["file", "file", "user", "user", "user", "raw"]
    for ph in range(nph):
        app = via_app and ph == nph - 1
        # the first phase leans to unordered loaders (a bootstrap document), later ones to ordered loaders
        kinds = everything if ph == 0 else ordered_first
        n = rng.choice([0, 1, 1, 2, 2, 3]) if ph == 0 else rng.choice([1, 1, 2, 2, 3])
        ls = [newl(kinds) for _ in range(n)]
        if ph > 0 and rng.random() < 0.35 and ls:
            # a tie with something configured earlier: same class and Order, same leaf, another value
            earlier = [L for st in steps for L in st.get("loaders", []) if lclass_of(L)[0] < 2 and loader_doc(L)]
            if earlier:
                E = rng.choice(earlier)
                lid[0] += 1
                ov = override_of(rng, loader_doc(E), lid[0], [E["kind"]])
                if ov:
                    if E["kind"] == "user":
                        ov["cls"], ov["ord"] = E["cls"], E["ord"]
                    ls.insert(rng.randint(0, len(ls)), ov)
        if profile == "argpanic" and ph == nph - 1:
            lid[0] += 1
            ls.append(gen_loader(rng, schema, lid[0], "args", 0.0, "panic"))
        if profile == "missing" and ph == rng.randrange(nph):
            lid[0] += 1
            ls.insert(rng.randint(0, len(ls)),
                      {"lid": lid[0], "kind": "file", "doc": None, "missing": True, "args": [], "style": "block"})
        i = 0
        firstop = True
        while i < len(ls):
            L = ls[i]
            if L["kind"] == "file" and rng.random() < 0.5:
                steps.append({"op": "setconfig", "loaders": [L], "app": app})
                i += 1
            else:
                k = rng.choice([1, 1, 2, 3])
                op = "set" if rng.random() < (0.25 if (ph == 0 and firstop) else 0.07) else "add"
                steps.append({"op": op, "loaders": ls[i:i + k], "app": app})
                i += k
            firstop = False
        steps.append({"op": "init", "loaders": [], "app": app})
        if rng.random() < 0.8 or ph == nph - 1:
            steps.append({"op": "get", "loaders": [], "app": app})
        if ph < nph - 1 and rng.random() < 0.08:
            steps.append({"op": "init", "loaders": [], "app": False})   # Initialize twice in a row
    case = {"id": cid, "start": start, "osargs": osargs, "steps": steps, "prefix": "", "profile": profile}
    finish_hist(rng, case)
    return case


def hist_loaders(case):
    out = [L for st in case["steps"] for L in st["loaders"]]
    if case["start"] != "new":
        out.append({"lid": 0, "kind": "args", "args": case["osargs"], "doc": None, "missing": False})
    return out


def hist_consulted(case):
    """the loaders some Initialize of the history consults (a SetLoaders may drop loaders before they are ever read)"""
    cur = [] if case["start"] == "new" else [{"lid": 0, "kind": "args", "args": case["osargs"], "doc": None, "missing": False}]
    got = []
    for st in case["steps"]:
        if st["op"] == "set":
            cur = list(st["loaders"])
        elif st["op"] in ("add", "setconfig"):
            cur = cur + list(st["loaders"])
        elif st["op"] == "init":
            got += [L for L in cur if L not in got]
    return got


def finish_hist(rng, case):
    seen = []
    for L in hist_loaders(case):
        d = loader_doc(L)
        if d:
            for p in all_paths(d):
                if p not in seen:
                    seen.append(p)
    seen = seen[:48]
    seen.append(["nope", "missing"])
    pref = case.get("prefix", "")
    case["prefix"] = ""
    steps = case["steps"]
    # the bound field is compared with the read that follows the App.Run: ... init(app), get
    app_init = len(steps) >= 2 and steps[-1]["op"] == "get" and steps[-2]["op"] == "init" and steps[-2]["app"]
    if app_init and not any(L.get("missing") for L in hist_loaders(case)):
        docs = [d for d in (loader_doc(L) for L in hist_consulted(case)) if d]
        cands = prefix_candidates(docs)
        if rng is not None:
            if cands and rng.random() < 0.5:
                case["prefix"] = rng.choice(cands)
        elif pref in cands:
            case["prefix"] = pref
    if case["prefix"] and [case["prefix"]] not in seen:
        seen.append([case["prefix"]])
    case["paths"] = seen


def gen_hists(ctx, n, start_id):
    return [gen_hist(ctx.rng, start_id + i) for i in range(n)]


def go_hist(ctx, case):
    g = go_case(ctx, {"id": case["id"], "osargs": case["osargs"], "paths": case["paths"], "prefix": case["prefix"],
                      "child": False, "ops": [{"op": "addloaders" if st["op"] != "setconfig" else "setconfig",
                                               "loaders": st["loaders"]} for st in case["steps"] if st["loaders"]]})
    specs = iter(g["ops"])
    steps = []
    for st in case["steps"]:
        o = {"op": st["op"], "app": st["app"]}
        if st["loaders"]:
            sp = next(specs)
            if st["op"] == "setconfig":
                o["file"] = sp["file"]
            else:
                o["loaders"] = sp["loaders"]
        steps.append(o)
    return {"id": case["id"], "osargs": g["osargs"], "paths": g["paths"], "prefix": case["prefix"],
            "start": case["start"], "steps": steps}


def coq_hist(cid, case, obs):
    steps = []
    souts = obs.get("steps") or []
    if obs["out"] != "ok" or len(souts) != len(case["steps"]):
        steps.append("HInit OPanic []")                      # the driver itself failed: never acceptable
        souts = []
    last_ok = False
    for st, so in zip(case["steps"], souts):
        if st["op"] in ("set", "add", "setconfig"):
            ctor = "HSet" if st["op"] == "set" else "HAdd"
            steps.append("%s %s" % (ctor, vlib.coq_list(coq_loader(L) for L in st["loaders"])))
            if so.get("out") == "panic":
                steps.append("HInit OPanic []")
        elif st["op"] == "init":
            out = {"ok": "OOk", "err": "OErr", "panic": "OPanic"}[so["out"]]
            steps.append("HInit %s %s" % (out, coq_nats(so.get("log"))))
            last_ok = so["out"] == "ok"
        else:
            if so.get("out") == "panic":
                steps.append("HGet [(%s, Some (CLeaf (AStr \"?get panicked\")))]" % coq_path(["nope", "missing"]))
                continue
            gets = ["(%s, %s)" % (coq_path(p), coq_opt_tree(obs_tree(g))) for p, g in zip(case["paths"], so.get("gets") or [])]
            steps.append("HGet %s" % vlib.coq_list(gets))
    bound = "None"
    if case["prefix"] and last_ok:
        bound = "(Some (%s, %s))" % (cs(case["prefix"]), coq_opt_tree(obs_tree(obs.get("bound"))))
    start = "[]" if case["start"] == "new" else "[mkLoader 0 (LArgv %s)]" % coq_args(case["osargs"])
    return "mkHCase %d %s %s %s" % (cid, start, vlib.coq_list(steps), bound)



# ------------------------------------------------------------------------------------------------
# re-used option values / loader slices

NEW_TARGETS = ("newapp", "newcfg")


def is_reuse(c):
    return "rounds" in c


def is_plain(c):
    return not is_hist(c) and not is_reuse(c)


def fix_targets(rounds):
    """make a list of rounds executable: the first target creates its object; sameapp needs an App"""
    have_app = False
    have_cfg = False
    for r in rounds:
        t = r["target"]
        if t in ("sameapp",) and not have_app:
            t = "appcfg" if have_cfg else "newapp"
        if t in ("appcfg", "samecfg") and not have_cfg:
            t = "newapp" if t == "appcfg" else "newcfg"
        r["target"] = t
        have_cfg = True
        have_app = t in ("newapp", "sameapp", "appcfg")
    return rounds


def gen_reuse(rng, cid):
    """pool of option values (built once by the driver) + rounds applying them to Apps / Configures"""
    schema = gen_schema(rng)
    lid = [0]

    def newl(kind=None):
        lid[0] += 1
        kind = kind or rng.choice(["raw", "raw", "raw", "file", "file", "args", "user", "user"])
        return gen_loader(rng, schema, lid[0], kind, 0.0)

    def with_override(ls):
        # a later loader of the list gives some leaf of an earlier one another value: the order is observable
        cands = [L for L in ls if loader_doc(L) and leaf_paths(loader_doc(L))]
        if cands and rng.random() < 0.6:
            E = rng.choice(cands)
            lid[0] += 1
            ov = override_of(rng, loader_doc(E), lid[0], ["raw", "raw", "file", "args", "user"])
            if ov:
                if ov["kind"] == "user":
                    ov["cls"] = rng.choice("PPOOU")
                    ov["ord"] = 0 if ov["cls"] == "U" else rng.choice(USER_ORDS)
                ls.insert(rng.randint(ls.index(E) + 1, len(ls)), ov)
        return ls

    pool = []
    if rng.random() < 0.55:
        # ONE option value that lists every source: sources := app.SetConfigLoader(base, file, override ...)
        ls = with_override([newl() for _ in range(rng.choice([2, 3, 3, 4, 5]))])
        pool.append({"op": "set", "loaders": ls, "spare": rng.random() < 0.2})
        if rng.random() < 0.25:
            L = newl(rng.choice(["file", "raw", "user"]))
            pool.append({"op": "setconfig", "loaders": [L], "spare": False} if L["kind"] == "file" and rng.random() < 0.6
                        else {"op": "add", "loaders": [L], "spare": rng.random() < 0.2})
    else:
        first = True
        for _ in range(rng.choice([1, 2, 2, 3, 4])):
            r = rng.random()
            if r < 0.25:
                pool.append({"op": "setconfig", "loaders": [newl("file")], "spare": False})
            else:
                ls = [newl() for _ in range(rng.choice([1, 1, 2, 3]))]
                if len(ls) > 1:
                    ls = with_override(ls)
                op = "set" if rng.random() < (0.4 if first else 0.08) else "add"
                pool.append({"op": op, "loaders": ls, "spare": rng.random() < 0.2})
            first = False
    osargs = gen_args(rng, schema, rng.choice(["ok", "ok", "dup", "overwrite"])) if rng.random() < 0.4 else []
    rounds = []
    have_app = False
    for k in range(rng.choice([2, 2, 2, 3])):
        if k == 0:
            t = rng.choice(["newapp", "newapp", "newapp", "newcfg", "newcfg"])
        elif have_app:
            t = rng.choice(["newapp", "newapp", "sameapp", "appcfg", "newcfg", "samecfg"])
        else:
            t = rng.choice(["newcfg", "newcfg", "samecfg", "newapp", "appcfg"])
        have_app = t in ("newapp", "sameapp", "appcfg")
        uses = list(range(len(pool)))
        if rng.random() < 0.15 and len(pool) > 1:
            uses = rng.sample(uses, rng.randint(1, len(pool)))
            if rng.random() < 0.5:
                uses.sort()
        rounds.append({"target": t, "uses": uses})
    case = {"id": cid, "osargs": osargs, "pool": pool, "rounds": fix_targets(rounds), "profile": "reuse"}
    finish_reuse(case)
    return case


def reuse_objects(case):
    """[(start loaders, [rounds])]: the rounds grouped by the object (App / Configure) they act on"""
    objs = []
    for i, r in enumerate(case["rounds"]):
        if r["target"] in NEW_TARGETS or not objs:
            objs.append([])
        objs[-1].append(i)
    return objs


def reuse_loaders(case):
    return [L for p in case["pool"] for L in p["loaders"]] + \
           [{"lid": 0, "kind": "args", "args": case["osargs"], "doc": None, "missing": False}]


def finish_reuse(case):
    seen = []
    for L in reuse_loaders(case):
        d = loader_doc(L)
        if d:
            for p in all_paths(d):
                if p not in seen:
                    seen.append(p)
    seen = seen[:48]
    seen.append(["nope", "missing"])
    case["paths"] = seen


def reuse_ordered_ok(case):
    """no object accumulates more than 12 loaders of one ordered class (sort.Slice stays an insertion sort)"""
    for rounds in reuse_objects(case):
        for rank in (0, 1):
            n = 0
            for i in rounds:
                for u in case["rounds"][i]["uses"]:
                    p = case["pool"][u]
                    k = sum(1 for L in p["loaders"] if lclass_of(L)[0] == rank)
                    n = k if p["op"] == "set" else n + k
                    if n > 12:
                        return False
    return True


def gen_reuses(ctx, n, start_id):
    out = []
    while len(out) < n:
        c = gen_reuse(ctx.rng, start_id + len(out))
        if reuse_ordered_ok(c):
            out.append(c)
    return out


def go_reuse(ctx, case):
    g = go_case(ctx, {"id": case["id"], "osargs": case["osargs"], "paths": case["paths"], "prefix": "", "child": False,
                      "ops": [{"op": "setconfig" if p["op"] == "setconfig" else "addloaders", "loaders": p["loaders"]}
                              for p in case["pool"]]})
    pool = []
    for p, sp in zip(case["pool"], g["ops"]):
        o = {"op": p["op"], "spare": bool(p.get("spare"))}
        if p["op"] == "setconfig":
            o["file"] = sp["file"]
        else:
            o["loaders"] = sp["loaders"]
        pool.append(o)
    return {"id": case["id"], "osargs": g["osargs"], "paths": g["paths"], "pool": pool, "rounds": case["rounds"]}


def coq_reuse(cid, case, obs):
    routs = obs.get("rounds") or []
    start = "[mkLoader 0 (LArgv %s)]" % coq_args(case["osargs"])
    if obs["out"] != "ok" or len(routs) != len(case["rounds"]):
        return "mkRCase %d [mkHCase %d %s [HInit OPanic []] None]" % (cid, cid, start)   # the driver itself failed
    objs = []
    for rounds in reuse_objects(case):
        steps = []
        for i in rounds:
            r, so = case["rounds"][i], routs[i]
            for u in r["uses"]:
                p = case["pool"][u]
                steps.append("%s %s" % ("HSet" if p["op"] == "set" else "HAdd",
                                        vlib.coq_list(coq_loader(L) for L in p["loaders"])))
            out = {"ok": "OOk", "err": "OErr", "panic": "OPanic"}[so["out"]]
            steps.append("HInit %s %s" % (out, coq_nats(so.get("log"))))
            gets = so.get("gets")
            if gets is None or len(gets) != len(case["paths"]):
                steps.append("HGet [(%s, Some (CLeaf (AStr \"?get panicked\")))]" % coq_path(["nope", "missing"]))
            else:
                steps.append("HGet %s" % vlib.coq_list("(%s, %s)" % (coq_path(p), coq_opt_tree(obs_tree(g)))
                                                      for p, g in zip(case["paths"], gets)))
        objs.append("mkHCase %d %s %s None" % (cid, start, vlib.coq_list(steps)))
    return "mkRCase %d %s" % (cid, vlib.coq_list(objs))


def reuse_stats(case):
    """what a re-use case contains"""
    st = {"targets": {}, "a_SetConfigLoader_value_used_twice": False,
          "of_these_with_an_ordered_loader_listed_before_an_unordered_one": False,
          "a_loader_slice_with_spare_capacity_used_twice": False, "objects": len(reuse_objects(case))}
    used = {}
    for r in case["rounds"]:
        st["targets"][r["target"]] = st["targets"].get(r["target"], 0) + 1
        for u in r["uses"]:
            used[u] = used.get(u, 0) + 1
    for u, n in used.items():
        p = case["pool"][u]
        if n >= 2 and p["op"] == "set":
            st["a_SetConfigLoader_value_used_twice"] = True
            ranks = [lclass_of(L)[0] for L in p["loaders"]]
            if any(ranks[i] < 2 and any(x == 2 for x in ranks[i + 1:]) for i in range(len(ranks))):
                st["of_these_with_an_ordered_loader_listed_before_an_unordered_one"] = True
        if n >= 2 and p.get("spare") and p["op"] != "setconfig":
            st["a_loader_slice_with_spare_capacity_used_twice"] = True
    return st


def reuse_shrink_candidates(c):
    out = []

    def variant(f):
        d = copy.deepcopy(c)
        f(d)
        d["rounds"] = [r for r in d["rounds"] if r["uses"] or True]
        fix_targets(d["rounds"])
        finish_reuse(d)
        if d["rounds"] and d["pool"]:
            out.append(d)

    def drop_pool(d, i):
        d["pool"].pop(i)
        for r in d["rounds"]:
            r["uses"] = [u - 1 if u > i else u for u in r["uses"] if u != i]

    if c["osargs"]:
        variant(lambda d: d.__setitem__("osargs", []))
    for i in range(len(c["rounds"])):
        if len(c["rounds"]) > 1:
            variant(lambda d, i=i: d["rounds"].pop(i))
        if c["rounds"][i]["target"] in ("sameapp", "appcfg"):
            variant(lambda d, i=i: d["rounds"][i].__setitem__("target", "samecfg"))
        if c["rounds"][i]["target"] == "newapp":
            variant(lambda d, i=i: d["rounds"][i].__setitem__("target", "newcfg"))
    for i, p in enumerate(c["pool"]):
        if len(c["pool"]) > 1:
            variant(lambda d, i=i: drop_pool(d, i))
        if p.get("spare"):
            variant(lambda d, i=i: d["pool"][i].__setitem__("spare", False))
        for j, L in enumerate(p["loaders"]):
            if len(p["loaders"]) > 1:
                variant(lambda d, i=i, j=j: d["pool"][i]["loaders"].pop(j))
            if L["doc"]:
                for pa in all_paths(L["doc"]):
                    variant(lambda d, i=i, j=j, pa=pa: d["pool"][i]["loaders"][j].__setitem__(
                        "doc", drop_key(d["pool"][i]["loaders"][j]["doc"], pa)))
            for a in range(len(L["args"])):
                variant(lambda d, i=i, j=j, a=a: d["pool"][i]["loaders"][j]["args"].pop(a))
    return out


RHEADER = HEADER + "Notation case := rcase (only parsing).\n"
RDEFS = {"M": "rmismatches", "V": "rviolations", "KB": "rkf_b", "KC": "rkf_c", "NT": "rcount_nontrivial"}

HHEADER = HEADER + "Notation case := hcase (only parsing).\n"
HDEFS = {"M": "hmismatches", "V": "hviolations", "KB": "hkf_b", "KC": "hkf_c", "NT": "hcount_nontrivial"}


DEFS = {"M": "mismatches", "V": "violations", "KB": "kf_b", "KC": "kf_c", "NT": "count_nontrivial"}


def is_hist(c):
    return "steps" in c


def evaluate(ctx, binp, cases, tag):
    """implementation + Coq. returns (by_id, res) with res = {M,V,KB,KC: [ids], NT: n}; plain cases and histories
    go through the same driver run and through their own correspondence functions"""
    gin = {"cases": [go_reuse(ctx, c) if is_reuse(c) else go_hist(ctx, c) if is_hist(c) else go_case(ctx, c) for c in cases]}
    rc, res, raw, _loud = vlib.run_json_verbose_share(ctx, binp, gin, timeout=1800)
    if res is None:
        raise vlib.GoBuildError("./cmd/c15 (run)", raw[-3000:])
    ctx.loader_facts = res.get("facts")
    by_id = {}
    terms, hterms, rterms = [], [], []
    for c, o in zip(cases, res["outs"]):
        everyone = reuse_loaders(c) if is_reuse(c) else hist_loaders(c) if is_hist(c) else \
            [L for op in c["ops"] for L in op["loaders"]]
        by_id[c["id"]] = {"case": c, "observed": o,
                          "yaml": {str(L["lid"]): doc_text(L["doc"], L["style"]) for L in everyone
                                   if L["kind"] != "args"}}
        if is_reuse(c):
            rterms.append(coq_reuse(c["id"], c, o))
        elif is_hist(c):
            hterms.append(coq_hist(c["id"], c, o))
        else:
            terms.append(coq_case(c["id"], c, o))
    out = {k: [] for k in DEFS}
    if terms:
        o1 = vlib.coq_eval_sharded(ctx, "cases_c15_" + tag, HEADER, terms, DEFS, shard=120)
        for k in DEFS:
            out[k] += o1[k]
    if hterms:
        o2 = vlib.coq_eval_sharded(ctx, "cases_c15h_" + tag, HHEADER, hterms, HDEFS, shard=100)
        for k in DEFS:
            out[k] += o2[k]
        out["NTH"] = sum(o2["NT"])
    if rterms:
        o3 = vlib.coq_eval_sharded(ctx, "cases_c15r_" + tag, RHEADER, rterms, RDEFS, shard=80)
        for k in DEFS:
            out[k] += o3[k]
        out["NTR"] = sum(o3["NT"])
    out["NT"] = sum(out["NT"])
    return by_id, out


# ------------------------------------------------------------------------------------------------
# shrinking

def case_size(c):
    n = len(c["osargs"]) + len(c["paths"]) + (1 if c.get("prefix") else 0)
    for r in c.get("rounds", []):
        n += 4 + len(r["uses"]) + (0 if r["target"] in ("newcfg", "samecfg") else 2)
    for o in c.get("pool", []):
        n += 3 + (1 if o.get("spare") else 0)
        for L in o["loaders"]:
            n += 2 + len(L["args"]) + (len(all_paths(L["doc"])) if L["doc"] else 0)
    for o in c.get("steps", []):
        n += 2 + (2 if o["app"] else 0)
        for L in o["loaders"]:
            n += 2 + len(L["args"]) + (len(all_paths(L["doc"])) if L["doc"] else 0)
    for o in c.get("ops", []):
        n += 3
        for L in o["loaders"]:
            n += 2 + len(L["args"]) + (len(all_paths(L["doc"])) if L["doc"] else 0)
    return n


def drop_key(t, path):
    if len(path) == 1:
        return ["m", [[k, v] for k, v in t[1] if k != path[0]]]
    return ["m", [[k, (drop_key(v, path[1:]) if k == path[0] and v[0] == "m" else v)] for k, v in t[1]]]


def twins(d, i, j):
    """the loader at ops[i].loaders[j] and every loader that must keep delivering the same bytes (same grp)"""
    L = d["ops"][i]["loaders"][j]
    if "grp" not in L:
        return [L]
    return [X for o in d["ops"] for X in o["loaders"] if X.get("grp") == L["grp"] and
            (X["kind"] == "args") == (L["kind"] == "args")]


def hist_shrink_candidates(c):
    out = []

    def variant(f):
        d = copy.deepcopy(c)
        f(d)
        finish_hist(None, d)
        out.append(d)

    def direct(d):
        for st in d["steps"]:
            st["app"] = False
        if d["start"] == "appdefault":
            d["start"] = "default"

    if any(st["app"] for st in c["steps"]):
        variant(direct)
    if c["prefix"]:
        variant(lambda d: d.__setitem__("prefix", ""))
    if c["osargs"]:
        variant(lambda d: d.__setitem__("osargs", []))
    if c["start"] == "default" and not c["osargs"]:
        variant(lambda d: d.__setitem__("start", "new"))
    for i, st in enumerate(c["steps"]):
        variant(lambda d, i=i: d["steps"].pop(i))
        for j, L in enumerate(st["loaders"]):
            if len(st["loaders"]) > 1:
                variant(lambda d, i=i, j=j: d["steps"][i]["loaders"].pop(j))
            if L["doc"]:
                for p in all_paths(L["doc"]):
                    variant(lambda d, i=i, j=j, p=p: d["steps"][i]["loaders"][j].__setitem__(
                        "doc", drop_key(d["steps"][i]["loaders"][j]["doc"], p)))
            for a in range(len(L["args"])):
                variant(lambda d, i=i, j=j, a=a: d["steps"][i]["loaders"][j]["args"].pop(a))
    return out


def shrink_candidates(c):
    if is_reuse(c):
        return reuse_shrink_candidates(c)
    if is_hist(c):
        return hist_shrink_candidates(c)
    out = []

    def variant(f):
        d = copy.deepcopy(c)
        f(d)
        d["child"] = False
        finish_paths_only(d)
        out.append(d)

    if c["prefix"]:
        variant(lambda d: d.__setitem__("prefix", ""))
    if c["osargs"]:
        variant(lambda d: d.__setitem__("osargs", []))
    for i in range(len(c["ops"])):
        variant(lambda d, i=i: d["ops"].pop(i))
        for j in range(len(c["ops"][i]["loaders"])):
            if len(c["ops"][i]["loaders"]) > 1:
                variant(lambda d, i=i, j=j: d["ops"][i]["loaders"].pop(j))
            L = c["ops"][i]["loaders"][j]
            if L["doc"]:
                for p in all_paths(L["doc"]):
                    variant(lambda d, i=i, j=j, p=p: [X.__setitem__("doc", drop_key(X["doc"], p))
                                                      for X in twins(d, i, j) if X["doc"]])
            for a in range(len(L["args"])):
                if L.get("grp") == 0:
                    continue
                variant(lambda d, i=i, j=j, a=a: [X["args"].pop(a) for X in twins(d, i, j) if a < len(X["args"])])
    return out


def finish_paths_only(case):
    pref = case["prefix"]
    finish_case(None, case)
    fin = final_loaders(case)
    docs = [d for d in (loader_doc(L) for L in fin) if d]
    ok = pref and not any(L.get("missing") for L in fin) and pref in prefix_candidates(docs)
    case["prefix"] = pref if ok else ""


# ------------------------------------------------------------------------------------------------

def load_known_merged(pid):
    """known_findings.json plus this property's own known_findings.d/<ID>.json (merged by id)"""
    found = {}
    for p in [os.path.join(vlib.VERIF, "known_findings.json"),
              os.path.join(vlib.VERIF, "known_findings.d", pid + ".json")]:
        if os.path.exists(p):
            data = json.load(open(p))
            for f in data.get("findings", []):
                if pid in f.get("properties", [f.get("property")]):
                    found.setdefault(f["id"], f)
    return list(found.values())


def vanished(entry):
    """the paths of the configured sources that the implementation no longer shows (for the replay file)"""
    c, o = entry["case"], entry["observed"]
    if not is_plain(c) or o["out"] != "ok":
        return []
    gone = []
    docs = [loader_doc(L) for L in final_loaders(c)]
    supplied = [p for d in docs if d for p in all_paths(d)]
    for p, g in zip(c["paths"], o["gets"] or []):
        if g is None and p in supplied:
            gone.append(".".join(p))
    return gone


def sort_tree(t):
    if t[0] == "m":
        return ["m", sorted([[k, sort_tree(v)] for k, v in t[1]])]
    return t


def payload(L):
    """what identifies the bytes a loader delivers (None = nothing / unreadable)"""
    if L.get("missing"):
        return None
    if L["kind"] == "args":
        return ("args", json.dumps(sort_tree(nest([(p, a) for p, a in L["args"]])))) if L["args"] else None
    if L["doc"] is None:
        return None
    return ("text", doc_text(L["doc"], L.get("style", "block")))


def overrides(B, A):
    """document B gives some leaf path of document A another (non-map) value"""
    la = {tuple(p): a for p, a in leaf_paths(A)}
    return any(tuple(p) in la and la[tuple(p)] != b for p, b in leaf_paths(B))


def repeat_stats(case):
    fin = final_loaders(case)
    seq = py_sequence(fin)
    pay = [payload(L) for L in seq]
    docs = [loader_doc(L) for L in seq]
    st = {"same": False, "aba": False, "samefile": False, "rawfile": False, "args": False, "osargs": False}
    paths = [L.get("fileof", L["lid"]) if L["kind"] == "file" else None for L in seq]
    for i in range(len(seq)):
        for k in range(i + 1, len(seq)):
            if pay[i] is None or pay[i] != pay[k]:
                continue
            st["same"] = True
            if paths[i] is not None and paths[i] == paths[k]:
                st["samefile"] = True
            if {seq[i]["kind"], seq[k]["kind"]} == {"raw", "file"}:
                st["rawfile"] = True
            if seq[i]["kind"] == "args":
                st["args"] = True
                if seq[i]["lid"] == 0:
                    st["osargs"] = True
            if any(docs[j] and docs[i] and overrides(docs[j], docs[i]) for j in range(i + 1, k)):
                st["aba"] = True
    return st


def tie_stats(loaders):
    """groups of loaders the sorter cannot separate (same ordered class, same Order) in which two members give one
    leaf path different values -> the forms present: files | userP | userO | file+userP0"""
    groups = {}
    for L in loaders:
        k = lclass_of(L)
        if k[0] < 2 and not L.get("missing") and loader_doc(L):
            groups.setdefault(k, []).append(L)
    forms = set()
    for k, g in groups.items():
        hit = False
        for i in range(len(g)):
            for j in range(i + 1, len(g)):
                if overrides(loader_doc(g[j]), loader_doc(g[i])):
                    hit = True
        if hit:
            kinds = {L["kind"] for L in g}
            forms.add("file+userP0" if kinds == {"file", "user"} else "files" if kinds == {"file"}
                      else "userP" if k[0] == 0 else "userO")
    return forms


def hist_stats(case):
    """what a history contains: number of Initializes; loaders added between two Initializes by class; an ordered
    loader added after an Initialize that already consulted an unordered one (the stored list is then NOT sorted)"""
    st = {"inits": 0, "added_after_init": {"P": 0, "O": 0, "U": 0}, "ordered_after_unordered_init": False,
          "tie_across_inits": False, "set_after_init": False}
    cur = [] if case["start"] == "new" else [{"kind": "args", "lid": 0, "args": case["osargs"], "doc": None}]
    consulted_unordered = False
    seen_init = False
    before = []
    for o in case["steps"]:
        if o["op"] == "init":
            st["inits"] += 1
            seen_init = True
            consulted_unordered = consulted_unordered or any(lclass_of(L)[0] == 2 for L in cur)
            before = list(cur)
        elif o["op"] == "set":
            cur = list(o["loaders"])
            st["set_after_init"] = st["set_after_init"] or seen_init
            consulted_unordered = False if seen_init else consulted_unordered
        elif o["op"] in ("add", "setconfig"):
            for L in o["loaders"]:
                if seen_init:
                    r = lclass_of(L)[0]
                    st["added_after_init"]["POU"[r]] += 1
                    if r < 2 and consulted_unordered:
                        st["ordered_after_unordered_init"] = True
                    if r < 2 and any(lclass_of(E) == lclass_of(L) and loader_doc(E) and loader_doc(L) and
                                     overrides(loader_doc(L), loader_doc(E)) for E in before):
                        st["tie_across_inits"] = True
            cur = cur + list(o["loaders"])
    return st


def run(ctx):
    vlib.load_known = load_known_merged
    static_ok = vlib.static_obligations(ctx)
    binp = vlib.go_build(ctx, "./cmd/c15")
    n, nh = (2500, 700) if ctx.quick() else (20000, 6000)
    nr = 300 if ctx.quick() else 3000
    corpus = load_corpus()
    cases = [dict(c, id=i) for i, c in enumerate(corpus)]
    if ctx.replay:
        r = json.load(open(ctx.replay))
        rc = r.get("case", {}).get("case")
        if rc:
            cases = [dict(rc, id=0)]
    else:
        cases += gen_cases(ctx, n, start_id=len(cases))
        cases += gen_hists(ctx, nh, start_id=len(cases))
        cases += gen_reuses(ctx, nr, start_id=len(cases))
    for c in cases:
        if is_reuse(c):
            assert reuse_ordered_ok(c), "more than 12 loaders of one ordered class"
            continue
        everyone = hist_loaders(c) if is_hist(c) else [L for o in c["ops"] for L in o["loaders"]]
        for rank in (0, 1):
            assert sum(1 for L in everyone if lclass_of(L)[0] == rank) <= 12, "more than 12 loaders of one ordered class"
    by_id, res = evaluate(ctx, binp, cases, "main")
    M, V, KB, KC, nt = res["M"], res["V"], set(res["KB"]), set(res["KC"]), res["NT"]
    want = {"file": "priority:0", "file2": "priority:0", "raw": "unordered", "args": "unordered",
            "userP": "priority:5", "userO": "ordered:-3", "userU": "unordered"}
    facts_ok = ctx.loader_facts == want
    ctx.oblige("facts: ordering class of the loader kinds read back from the real types = the model's lclass "
               "(FileLoader priority/Order 0, Raw/Args unordered; the driver's user loaders as declared)", facts_ok, json.dumps(ctx.loader_facts))
    static_ok = static_ok and facts_ok
    nhist = sum(1 for c in cases if is_hist(c))
    nreuse = sum(1 for c in cases if is_reuse(c))
    ctx.log("cases=%d (histories %d, re-used option values %d) nontrivial=%d (histories %d, re-use %d) mismatches=%d "
            "violations=%d (KF-C15b class %d, KF-C15c class %d)" % (
                len(cases), nhist, nreuse, nt, res.get("NTH", 0), res.get("NTR", 0), len(M), len(V), len(KB), len(KC)))
    for i in V:
        by_id[i]["vanished_paths"] = vanished(by_id[i])

    def classify(entry, KB=KB, KC=KC):
        i = entry["case"]["id"]
        if i in KC:
            return "KF-C15c"
        if i in KB:
            return "KF-C15b"
        return None

    V.sort(key=lambda i: case_size(by_id[i]["case"]))

    def shrink(entry):
        cur = entry
        for _round in range(15):
            cands = shrink_candidates(cur["case"])
            if not cands:
                break
            cands = [dict(c, id=i) for i, c in enumerate(cands)]
            b2, r2 = evaluate(ctx, binp, cands, "shrink")
            bad = [i for i in r2["V"] if i not in r2["KB"] and i not in r2["KC"]]
            if not bad:
                break
            bad.sort(key=lambda i: case_size(b2[i]["case"]))
            cur = b2[bad[0]]
        cur["vanished_paths"] = vanished(cur)
        cur["how_to_read"] = ("ops are applied in order to an App whose configure starts with ArgsLoader(osargs); "
                              "'observed.gets' lists App.Get(path) for case.paths in order; vanished_paths are supplied by a "
                              "configured source yet App.Get returns nil; 'observed.log' lists the lids of the user-written "
                              "loaders in the order LoadConfig was called. A case with 'steps' is a history on ONE Configure "
                              "(start new = configure.NewConfigure()+viper binder, default = configure.Default() under osargs, "
                              "appdefault = the Configure of app.NewApp()): set/add/setconfig = SetLoaders/AddLoaders/"
                              "AddLoaders(FileLoader), init = Initialize, get = Get of every path; steps with app=true are "
                              "performed by ONE App.Run (options after app.SetConfigure(cfg)); observed.steps[i] belongs to "
                              "steps[i]. Expected: every init consults the loaders configured so far as priority-ordered by "
                              "Order, then ordered by Order, then the others, equal class and Order in the order they were "
                              "added, and merges on top of what earlier inits left. A case with 'rounds' RE-USES option "
                              "values: every 'pool' entry (set = app.SetConfigLoader(ls...), add = app.AddConfigLoader(ls...), "
                              "setconfig = app.SetConfig(file); spare = the []Loader slice has spare capacity) is built ONCE and "
                              "rounds[i] applies pool[uses] in order to its target: newapp = app.NewApp().Run(opts...), sameapp = "
                              "the previous App run again, appcfg = a new App with app.SetConfigure(previous Configure), newcfg / "
                              "samecfg = a configure.Default() of its own / the previous Configure driven directly "
                              "(SetLoaders(ls...) / AddLoaders(ls...) with the pool's slices, then Initialize); "
                              "observed.rounds[i] = outcome, read order and Get of every path after round i. Expected: what the "
                              "same options give when their loader lists are taken as VALUES")
        return cur

    def widen():
        ctx.rng.seed(ctx.seed + 4242)
        more = gen_cases(ctx, 3000, 0)
        more += gen_hists(ctx, 1500, len(more))
        more += gen_reuses(ctx, 600, len(more))
        b2, r2 = evaluate(ctx, binp, more, "widen")
        return [b2[i] for i in r2["V"] if i not in r2["KB"] and i not in r2["KC"]][:3]

    distinct = {}
    kinds = {"raw": 0, "file": 0, "args": 0}
    nload = {}
    opkinds = {}
    profiles = {}
    kinds.update({"user(priority)": 0, "user(ordered)": 0, "user(unordered)": 0})
    ties = {"files": 0, "userP": 0, "userO": 0, "file+userP0": 0, "any": 0}
    hties = dict(ties)
    hs = {"histories": 0, "via_App.Run(SetConfigure)": 0, "via_App.Run(own Configure)": 0, "start": {},
          "initializes_per_history": {}, "with_two_or_more_Initializes": 0,
          "loaders_added_after_an_Initialize": {"P": 0, "O": 0, "U": 0},
          "ordered_loader_added_after_an_Initialize_that_consulted_an_unordered_one": 0,
          "equal_class_and_Order_overlap_across_two_Initializes": 0, "SetLoaders_after_an_Initialize": 0,
          "profiles": {}}
    for c in cases:
        if not is_hist(c):
            continue
        h = vlib.stable_hash([c["start"], c["osargs"], c["steps"], c["prefix"]])
        distinct[h] = c["id"]
        st = hist_stats(c)
        hs["histories"] += 1
        hs["start"][c["start"]] = hs["start"].get(c["start"], 0) + 1
        if any(o["app"] for o in c["steps"]):
            hs["via_App.Run(own Configure)" if c["start"] == "appdefault" else "via_App.Run(SetConfigure)"] += 1
        hs["initializes_per_history"][st["inits"]] = hs["initializes_per_history"].get(st["inits"], 0) + 1
        hs["with_two_or_more_Initializes"] += 1 if st["inits"] >= 2 else 0
        for k in "POU":
            hs["loaders_added_after_an_Initialize"][k] += st["added_after_init"][k]
        hs["ordered_loader_added_after_an_Initialize_that_consulted_an_unordered_one"] += \
            1 if st["ordered_after_unordered_init"] else 0
        hs["equal_class_and_Order_overlap_across_two_Initializes"] += 1 if st["tie_across_inits"] else 0
        hs["SetLoaders_after_an_Initialize"] += 1 if st["set_after_init"] else 0
        hs["profiles"][c.get("profile", "corpus")] = hs["profiles"].get(c.get("profile", "corpus"), 0) + 1
        forms = tie_stats([L for o in c["steps"] for L in o["loaders"]])
        for f in forms:
            hties[f] += 1
        hties["any"] += 1 if forms else 0
        for o in c["steps"]:
            for L in o["loaders"]:
                kk = L["kind"] if L["kind"] != "user" else \
                    {"P": "user(priority)", "O": "user(ordered)", "U": "user(unordered)"}[L["cls"]]
                kinds[kk] += 1
    rs = {"cases": 0, "round_targets": {}, "objects_per_case": {}, "a_SetConfigLoader_value_used_twice": 0,
          "of_these_with_an_ordered_loader_listed_before_an_unordered_one": 0,
          "a_loader_slice_with_spare_capacity_used_twice": 0}
    for c in cases:
        if not is_reuse(c):
            continue
        distinct[vlib.stable_hash([c["osargs"], c["pool"], c["rounds"]])] = c["id"]
        st = reuse_stats(c)
        rs["cases"] += 1
        for t, k in st["targets"].items():
            rs["round_targets"][t] = rs["round_targets"].get(t, 0) + k
        rs["objects_per_case"][st["objects"]] = rs["objects_per_case"].get(st["objects"], 0) + 1
        for k in ("a_SetConfigLoader_value_used_twice", "of_these_with_an_ordered_loader_listed_before_an_unordered_one",
                  "a_loader_slice_with_spare_capacity_used_twice"):
            rs[k] += 1 if st[k] else 0
        for o in c["pool"]:
            for L in o["loaders"]:
                kinds[L["kind"] if L["kind"] != "user" else
                      {"P": "user(priority)", "O": "user(ordered)", "U": "user(unordered)"}[L["cls"]]] += 1
    for c in cases:
        if not is_plain(c):
            continue
        forms = tie_stats(final_loaders(c))
        for f in forms:
            ties[f] += 1
        ties["any"] += 1 if forms else 0
        h = vlib.stable_hash([c["osargs"], c["ops"], c["prefix"]])
        distinct[h] = c["id"]
        k = 0
        for o in c["ops"]:
            opkinds[o["op"]] = opkinds.get(o["op"], 0) + 1
            for L in o["loaders"]:
                kinds[L["kind"] if L["kind"] != "user" else
                      {"P": "user(priority)", "O": "user(ordered)", "U": "user(unordered)"}[L["cls"]]] += 1
                k += 1
        nload[k] = nload.get(k, 0) + 1
        profiles[c.get("profile", "corpus")] = profiles.get(c.get("profile", "corpus"), 0) + 1
    rep = {"cases_with_the_same_payload_bytes_twice": 0,
           "of_these_with_an_overriding_loader_in_between(A,B,A)": 0,
           "same_file_loaded_twice": 0, "raw_bytes_equal_to_a_file's_content": 0,
           "same_arguments_in_two_ArgsLoaders": 0, "os.Args_repeated_in_an_explicit_ArgsLoader": 0}
    for c in cases:
        if not is_plain(c):
            continue
        st = repeat_stats(c)
        for k, f in zip(rep, ("same", "aba", "samefile", "rawfile", "args", "osargs")):
            rep[k] += 1 if st[f] else 0
    argtexts = {"typed_by_the_generator(int/float/bool/word)": 0, "text_with_equals_sign": 0, "other_text_or_number": 0,
                "quoted": 0, "bracketed": 0}
    for c in cases:
        everyone = reuse_loaders(c) if is_reuse(c) else hist_loaders(c) if is_hist(c) else \
            [L for o in c["ops"] for L in o["loaders"]] + [{"kind": "args", "args": c["osargs"]}]
        for L in everyone:
            if L["kind"] == "args":
                for _p, a in L["args"]:
                    argtexts[arg_value_class(a[1]) if a[0] == "t" else "typed_by_the_generator(int/float/bool/word)"] += 1
    ids = sorted(by_id)
    plain_ids = [i for i in ids if is_plain(by_id[i]["case"])]
    samples = [by_id[i] for i in plain_ids[:1] + plain_ids[-1:] + [i for i in ids if is_hist(by_id[i]["case"])][-1:] +
               [i for i in ids if is_reuse(by_id[i]["case"])][-1:]]
    cov = {
        "evaluations": len(cases),
        "distinct_nontrivial": min(nt, len(distinct)),
        "rule": "real App.Run starts over generated option sequences (SetConfig / AddConfigLoader / SetConfigLoader) with 1-8 "
                "loaders (raw, temp files, args, user-written loaders of the three ordering classes; plus ArgsLoader(os.Args)); "
                "observed: outcome class, App.Get(p) for every path of every document, the read order of the user-written "
                "loaders, a prefix-bound map field; non-trivial = at least two loaded documents, some leaf path supplied by "
                "two or more of them and some leaf path supplied by exactly one. Histories on one Configure (SetLoaders / "
                "AddLoaders / Initialize / Get steps, last Initialize optionally inside App.Run): observed per Initialize the "
                "outcome and the read order, per read Get(p) for every path; non-trivial = an Initialize, then a change of "
                "the loader list, then another Initialize. Re-used option values: option values / []Loader slices built once and "
                "applied in 2-3 rounds to new Apps, the same App again, a new App on the same Configure, Configures driven "
                "directly; observed per round the outcome, the read order and Get(p) for every path; non-trivial = at least two "
                "Initializes from the same values. distinct = distinct (start, osargs, ops/steps/pool+rounds with documents, prefix)",
        "samples": samples,
        "traces_validated_against_impl": len(cases),
        "input_distribution": {"loader_kinds": kinds, "loaders_per_case": nload, "options": opkinds, "profiles": profiles,
                               "child_process_cases(real os.Args)": sum(1 for c in cases if c.get("child")),
                               "cases_with_process_wide_options(app.Settings)": sum(1 for c in cases if c.get("global")),
                               "prefix_bound_cases": sum(1 for c in cases if c.get("prefix")),
                               "repeated_payloads": rep,
                               "command_line_values(--app.config=K=V)": argtexts,
                               "cases_with_loaders_of_equal_class_and_Order_giving_one_leaf_different_values": ties,
                               "histories_on_one_Configure": hs,
                               "re-used_option_values_and_loader_slices": rs,
                               "histories_with_loaders_of_equal_class_and_Order_giving_one_leaf_different_values": hties},
        "nontrivial_cases": nt,
        "nontrivial_histories": res.get("NTH", 0),
        "nontrivial_reuse_cases": res.get("NTR", 0),
        "distinct_cases": len(distinct),
        "known_finding_class_sizes": {"KF-C15b": len(KB), "KF-C15c": len(KC)},
    }
    return vlib.decide(ctx, static_ok, by_id, M, V, cov, classify_known=classify, widen=widen, shrink=shrink,
                       assumptions=["documents have unique keys per map (wf_doc, re-checked on every generated case)",
                                    "keys are lower-case identifiers without dots (viper folds case and splits on '.')",
                                    "command-line values are printable ASCII; the typing of a value text is the model's (Model/Strconv.v "
                                    "parse_any through ConfigMerge.parse_arg): quoted texts lose the quotes, number-like texts become numbers "
                                    "(007 = 7), [..] / {json} / map[..] become lists / maps; a value that is one lone quote character is not "
                                    "generated (strconv2.ParseAny panics on it: KF-C16e's fault in go-kid/strconv2)",
                                    "loaders of equal class and Order are consulted in the order they were added (sort.Slice on at most 12 "
                                    "elements is a stable insertion sort; no case has more than 12 loaders of one ordered class)",
                                    "a later Initialize of the same Configure merges on top of what earlier ones left (nothing "
                                    "resets the binder); user-written loaders deliver fixed bytes and never fail",
                                    "viper.Get cannot distinguish a null value from an absent key; both are compared as absent",
                                    "an option value / a []Loader slice denotes the list of loaders it was built from, however often "
                                    "and wherever it is used (re-use stream: every object configured from it is compared with that list)"])
