"""C11 — tag scanning sees through embedded structs and touches nothing else.

Generates struct shapes (embedded / named / pointer / tagged structs at any depth, exported and unexported fields
and types, every tag kind plus foreign tags - about half of them look-alikes of a recognised tag: keys that end in / start
with / contain / differ in case from its name, values whose text contains `<tag>:`), builds them as real Go types (reflect.StructOf in volume, generated
static source for what reflect cannot build: embedded structs of unexported type, embedded types with methods),
registers them in a REAL App together with a recording user tag processor, snapshots every field before and after
Run, and evaluates model and oracle in Coq (Corr/Check_C11.v)."""
import copy
import glob
import json
import os
import shutil

import vlib

MANIFEST = {
    "level": "proof",
    "text": "Rocq theorems over Model/Scan.v for all struct shapes (nested inductive, hand-written induction principle) and all "
            "tag processors: scanning a shape and its flattening yields the same fields and the same properties "
            "(c11_flatten, c11_flatten_properties), Meta.Fields and each processor's properties are characterised exactly "
            "(c11_scan_exact, c11_processor_gets_exactly), and the write footprint is exactly the reachable exported "
            "recognised fields — unexported, untagged, foreign-tagged fields and everything inside a struct that is not "
            "entered stay outside (c11_frame, c11_frame_untouched). Tied to the code on every run by vm_compute against real "
            "App.Run starts with before/after snapshots of every field and a recording user tag processor; the logger every logger point receives (c11_logger_flatten); custom-tag arguments with bracketed values, names with separators, values with blanks around them",
    "design_ref": "DESIGN.md 5 C11",
    "note": "trusted: Coq kernel + vm_compute; hand-written model of scanFields, reflect's CanSet flags and the tag-scan "
            "processor; Go harness (reflect.StructOf + generated static types, unsafe read access to unexported fields) and "
            "Python generators; values/arguments of RECOGNISED tags are generated in the comma/space grammar without quoting (the full "
            "grammar is C19's), foreign tags also carry keys built around recognised tag names and values with (escaped) quotes "
            "and `<tag>:` text; the registered processors' Tag/Required/ExtractHandler are read back from the running App",
    "technique": "Rocq proof (structural induction over a nested inductive with a hand-written induction principle) + vm_compute "
                 "correspondence against the Go implementation + metamorphic check (shape vs flattening) on the implementation",
}

HEADER = ("From Coq Require Import List String Bool.\n"
          "From IocVerif Require Import Model.Scan Corr.Check_C11.\n"
          "Import ListNotations.\nLocal Open Scope list_scope.\n")

SCALARS = ["int", "string", "bool", "float"]
KIND_COQ = {"int": "KInt", "string": "KString", "bool": "KBool", "float": "KFloat", "dep": "KPtr", "depi": "KIface",
            "depis": "KSlice", "logger": "KLogger", "cfgplain": "KStruct", "cfgp": "KStruct", "map": "KMap"}
GO_TYPE = {"int": "int", "string": "string", "bool": "bool", "float": "float64", "dep": "*Dep", "depi": "DepI",
           "depis": "[]DepI", "logger": "syslog.Logger", "cfgplain": "CfgPlain", "cfgp": "CfgA", "map": "map[string]any"}
CONST = {"int": ["42", "7"], "string": ["hello", "w1"], "bool": ["true"], "float": ["1.5"]}
PROPKEY = {"int": "c11.i", "string": "c11.s", "bool": "c11.b", "float": "c11.f"}
FOREIGN = [("json", "x"), ("yaml", "y"), ("inject", "z"), ("mapstructure", "q"), ("wired", ""), ("values", "42"),
           ("Wire", "")]
CFGA_PREFIX = "c11.cfga"
LOGGER_PREFIXES = ["pfx", "my-prefix", "c11.log"]
# every tag some registered processor scans for: the built-in ones and the two user-registered scanners of the driver
RECOGNISED = ("wire", "func", "value", "prop", "prefix", "logger", "rec", "aux")
# what people put around a tag name: other libraries' keys such as nowire / default_value / table_prefix / audit_logger / bookmark
KEY_HEADS = ["no", "x", "my", "un", "default_", "table_", "audit_", "old-", "db.", "_", "re", "auto"]
KEY_TAILS = ["d", "s", "2", "_x", "r", "-old", ".v", "_", "Of", "ing"]


# ------------------------------------------------------------------------------------------------
# tags

def upper_first(s):
    return s[:1].upper() + s[1:]


def mk_tag(key, val, args=None):
    """args: [(name_as_written, [values])]; the parsed name is formatArgType(name)"""
    return {"key": key, "val": val, "args": [[n, list(v)] for n, v in (args or [])]}


def raw_tag(t):
    """key:"value" in the conventional struct tag format: the value is a Go string literal (quotes and backslashes escaped)"""
    s = t["val"]
    for n, vs in t["args"]:
        if vs == [""]:
            s += "," + n
        else:
            s += "," + n + "=" + " ".join(vs)
    return '%s:"%s"' % (t["key"], s.replace("\\", "\\\\").replace('"', '\\"'))


def raw_tags(tags):
    return " ".join(raw_tag(t) for t in tags)


def parsed_args(t):
    return [[upper_first(n), vs] for n, vs in t["args"]]


def gen_extra_args(rng):
    r = rng.random()
    if r < 0.6:
        return []
    if r < 0.8:
        return [("required", ["false"])]
    if r < 0.9:
        return [("note", [rng.choice(["a", "b1"]), rng.choice(["c", "d2"])])]
    return [("flag", [""])]


def recognised_tags(rng, kind):
    """one satisfiable recognised tag set for a field of this kind (every one of them makes the container write)"""
    if kind in SCALARS:
        r = rng.random()
        if r < 0.35:
            return [mk_tag("value", rng.choice(CONST[kind]), gen_extra_args(rng))]
        if r < 0.60:
            return [mk_tag("prop", PROPKEY[kind], gen_extra_args(rng))]
        if r < 0.68:   # both: value is looked up first, prop is ignored
            return [mk_tag("prop", PROPKEY[kind]), mk_tag("value", rng.choice(CONST[kind]))]
        if kind in ("int", "string"):
            tag = "rec" if r < 0.86 else "aux"
            # arguments of a user-supplied tag processor reach it as written: several values, a bare flag, an explicit empty
            # value, and bracketed values that contain blanks (one item each: the grammar is C19's, the delivery is C11's)
            pool = [[("a", ["1", "2"]), ("flag", [""])][:rng.choice([1, 2])],
                    [("bounds", ["[1 10]"]), ("labels", ["(a b)", "c"])][:rng.choice([1, 2])],
                    [("unit", [""]), ("set", ["{x y z}"])],
                    [("Opts", ["[p q]", "r", "(s t)"])],
                    # names with word separators keep every later letter as written (only the first is upper-cased)
                    [("per-second", ["2"]), ("burst.max", ["10"]), ("x:y", ["1"])][:rng.choice([1, 2, 3])]]
            args = [] if rng.random() < 0.4 else rng.choice(pool)
            # a value with blanks around it, or of blanks only, is the value
            return [mk_tag(tag, rng.choice(["x", "x.y", "k9", "", "x", "k9", " - ", "   ", " | "]), args)]
        return [mk_tag("value", rng.choice(CONST[kind]))]
    if kind in ("dep", "depi", "depis"):
        if rng.random() < 0.7:
            return [mk_tag("wire", "", [("required", ["false"])] if rng.random() < 0.2 else [])]
        return [mk_tag("func", "Ping")]
    if kind == "logger":
        # the prefix comes from the tag, else from the component (or, with `embed`, from the declaring struct's position)
        val = "" if rng.random() < 0.65 else rng.choice(LOGGER_PREFIXES)
        r = rng.random()
        args = [("embed", [""])] if r < 0.22 else [("note", ["a"])] if r < 0.30 else []
        return [mk_tag("logger", val, args)]
    if kind == "cfgplain":
        return [mk_tag("prefix", "c11.cfg")]
    if kind == "map":
        return [mk_tag("prefix", "c11.m")]
    if kind == "cfgp":
        return [mk_tag("prefix", "c11.cfg")] if rng.random() < 0.3 else []
    raise ValueError(kind)


def mixed_case(rng, t):
    """the tag name in another spelling of the same letters: Wire, WIRE, wIRE, wirE ..."""
    while True:
        c = rng.choice([t.upper(), t.capitalize(), t[0] + t[1:].upper(), t[:-1] + t[-1].upper(),
                        "".join(ch.upper() if rng.random() < 0.5 else ch for ch in t)])
        if c != t:
            return c


def lookalike_key(rng):
    """a FOREIGN tag key built around the name of a recognised tag: ends in it (nowire, default_value, table_prefix), starts
    with it (wired, values), contains it (myprops), or differs from it only in case (Wire, VALUE)"""
    t = rng.choice(RECOGNISED)
    form = rng.choice(["ends", "ends", "ends", "starts", "contains", "case", "case_ends"])
    if form == "ends":
        k = rng.choice(KEY_HEADS) + t
    elif form == "starts":
        k = t + rng.choice(KEY_TAILS)
    elif form == "contains":
        k = rng.choice(KEY_HEADS) + t + rng.choice(KEY_TAILS)
    elif form == "case":
        k = mixed_case(rng, t)
    else:
        k = rng.choice(KEY_HEADS) + mixed_case(rng, t)
    assert k not in RECOGNISED
    return k


def lookalike_value(rng):
    """a tag VALUE whose text reads like a recognised tag: `doc:"see wire:\"x\""`, `json:"value:"`, `note:"prefix:c11.cfg"`"""
    t = rng.choice(RECOGNISED)
    inner = rng.choice(["", "x", "c11.cfg", "42", "Ping"])
    return rng.choice(["%s:" % t,                                  # the raw text continues with the closing quote: wire:"
                       "a %s:" % t,
                       '%s:"%s"' % (t, inner),                     # a whole quoted pair inside the value (escaped quotes)
                       'see %s:"%s" there' % (t, inner),
                       '%s:"%s' % (t, inner),                      # an unbalanced quote
                       "%s:%s" % (t, inner or "x"),                # no quotes at all
                       '"%s:"' % t,
                       "%s" % t])


def foreign_tags(rng):
    """1-2 tags no registered processor scans for.  About half of them are look-alikes of a recognised tag: in the key, in
    the value, or both"""
    out = []
    for a, b in rng.sample(FOREIGN, rng.choice([1, 1, 2])):
        r = rng.random()
        if r < 0.30:
            a = lookalike_key(rng)
        elif r < 0.45:
            b = lookalike_value(rng)
        elif r < 0.52:
            a, b = lookalike_key(rng), lookalike_value(rng)
        out.append(mk_tag(a, b))
    if len(out) == 2 and out[0]["key"] == out[1]["key"]:
        out.pop()
    return out


def foreign_classes(t):
    """which look-alike classes a foreign tag falls in (decided on its text, per recognised tag name)"""
    key, raw = t["key"], raw_tag(t)
    val = raw[len(key) + 1:]
    out = set()
    for r in RECOGNISED:
        if key.endswith(r):
            out.add("key_ends_in_tag_name")
        elif key.startswith(r):
            out.add("key_starts_with_tag_name")
        elif r in key:
            out.add("key_contains_tag_name")
        elif key.lower() == r:
            out.add("key_differs_in_case_only")
        elif r in key.lower():
            out.add("key_contains_tag_name_in_other_case")
        if r + ':"' in val:
            out.add("value_text_contains_tag_colon_quote")
        elif r + ':\\"' in val:
            out.add("value_text_contains_tag_colon_escaped_quote")
        elif r + ":" in val:
            out.add("value_text_contains_tag_colon")
        elif r in val:
            out.add("value_text_contains_tag_name")
    return sorted(out) or ["plain"]


# ------------------------------------------------------------------------------------------------
# shapes

class Gen:
    def __init__(self, rng, cid, static):
        self.rng = rng
        self.cid = cid
        self.static = static
        self.k = 0
        self.prefix_cfg = {}      # "pN" -> {key: value}
        self.cfgp_embeds = 0
        self.pool = []            # completed struct nodes whose TYPE may occur again at another position
        self.reused = 0

    def nxt(self):
        self.k += 1
        return self.k

    def leaf(self):
        rng = self.rng
        kind = rng.choice(SCALARS * 3 + ["dep", "depi", "depis", "logger", "cfgplain", "map", "cfgp"])
        exported = rng.random() < 0.82
        k = self.nxt()
        r = rng.random()
        if r < 0.58:
            tags = recognised_tags(rng, kind)
        elif r < 0.70:
            tags = foreign_tags(rng) + recognised_tags(rng, kind)
            rng.shuffle(tags)
        elif r < 0.85:
            tags = foreign_tags(rng)
        else:
            tags = []
        return {"n": ("F%d" if exported else "f%d") % k, "e": exported, "k": kind, "tags": tags, "anon": False, "ptr": False,
                "pre": False, "fs": [], "imp": CFGA_PREFIX if kind == "cfgp" else None}

    def plain_int(self):
        k = self.nxt()
        return {"n": "X%d" % k, "e": True, "k": "int", "tags": [], "anon": False, "ptr": False, "pre": False, "fs": [],
                "imp": None}

    def reuse(self, src, sibnames):
        """a further occurrence of an already declared struct type (same gotype, same fields) at another position: as
        an entered embedded struct most of the time (the scan must expand EVERY occurrence), otherwise as a pointer /
        tagged embedded or a named field of that type"""
        rng = self.rng
        k = self.nxt()
        tname = src["gotype"]
        node = {"k": "struct", "tags": [], "anon": True, "ptr": False, "pre": False, "imp": None, "gotype": tname,
                "n": tname, "e": tname[:1].isupper(), "fs": copy.deepcopy(src["fs"])}
        base = rng.choice(["entered"] * 7 + ["ptr_embed", "tag_embed", "named", "named_ptr"])
        if base in ("named", "named_ptr"):
            node["anon"] = False
            node["e"] = rng.random() < 0.8
            node["n"] = ("N%d" if node["e"] else "n%d") % k
            if base == "named_ptr":
                node["ptr"], node["pre"] = True, rng.random() < 0.6
            r = rng.random()
            if r < 0.25:
                node["tags"] = foreign_tags(rng)
            elif r < 0.50:
                node["tags"] = self.prefix_tag(k)
        else:
            if tname in sibnames:      # Go rejects two embedded fields of one type in one struct
                return None
            if base == "ptr_embed":
                node["ptr"], node["pre"] = True, rng.random() < 0.6
                r = rng.random()
                if r < 0.25:
                    node["tags"] = foreign_tags(rng)
                elif r < 0.45:
                    node["tags"] = self.prefix_tag(k)
            elif base == "tag_embed":
                node["tags"] = foreign_tags(rng) if rng.random() < 0.5 else self.prefix_tag(k)
        self.note_prefix(node, k)
        self.reused += 1
        return node

    def note_prefix(self, node, k):
        if any(t["key"] == "prefix" for t in node["tags"]):
            sect = {}
            for f in node["fs"]:
                if f["k"] == "int" and f["e"] and not any(t["key"] in ("yaml",) for t in f["tags"]):
                    sect[f["n"].lower()] = 100 + len(sect)
            self.prefix_cfg["p%d" % k] = sect

    def poolable(self, node):
        # structs that embed CfgA get Prefix() promoted and must stay on the entered chain: never repeated elsewhere
        return node.get("gotype") != "CfgA" and not contains_cfga(node["fs"]) and count_nodes(node["fs"]) <= 14

    def sub(self, depth, chain, sibnames=()):
        """chain: every enclosing struct up to the component is entered by the scan"""
        rng = self.rng
        if self.pool and rng.random() < 0.30:
            node = self.reuse(rng.choice(self.pool), sibnames)
            if node is not None:
                return node
        k = self.nxt()
        variants = ["entered"] * 5 + ["ptr_embed", "ptr_embed", "tag_embed", "tag_embed", "named", "named", "named_ptr"]
        if self.static:
            variants += ["entered_unexp"] * 4 + ["ptr_embed_unexp", "tag_embed_unexp", "cfgp_embed"]
        v = rng.choice(variants)
        if v == "cfgp_embed":
            # embedding CfgA promotes Prefix() to every struct that embeds it; keep such structs on the entered chain so
            # that no FIELD gets a ConfigurationProperties type by accident (see the note on nil pointers in the report)
            if self.cfgp_embeds or not chain:
                v = "entered_unexp"
            else:
                self.cfgp_embeds += 1
                return {"n": "CfgA", "e": True, "k": "struct", "tags": [], "anon": True, "ptr": False, "pre": False,
                        "imp": CFGA_PREFIX, "gotype": "CfgA",
                        "fs": [{"n": "Host", "e": True, "k": "string", "tags": [], "anon": False, "ptr": False, "pre": False,
                                "fs": [], "imp": None},
                               {"n": "Port", "e": True, "k": "int", "tags": [], "anon": False, "ptr": False, "pre": False,
                                "fs": [], "imp": None}]}
        node = {"k": "struct", "tags": [], "anon": True, "ptr": False, "pre": False, "imp": None, "e": True}
        unexp_type = v.endswith("_unexp")
        base = v.replace("_unexp", "")
        tname = ("s%dt%d" if unexp_type else "S%dT%d") % (self.cid, k) if self.static else "E%d" % k
        node["gotype"] = tname
        if base == "entered":
            node["n"], node["e"] = tname, not unexp_type
        elif base == "ptr_embed":
            node["n"], node["e"], node["ptr"], node["pre"] = tname, not unexp_type, True, rng.random() < 0.6
            r = rng.random()
            if r < 0.25:
                node["tags"] = foreign_tags(rng)
            elif r < 0.45:
                node["tags"] = self.prefix_tag(k)
        elif base == "tag_embed":
            node["n"], node["e"] = tname, not unexp_type
            node["tags"] = foreign_tags(rng) if rng.random() < 0.5 else self.prefix_tag(k)
        else:   # named / named_ptr
            node["anon"] = False
            node["e"] = rng.random() < 0.8
            node["n"] = ("N%d" if node["e"] else "n%d") % k
            if self.static:
                node["gotype"] = "S%dT%d" % (self.cid, k)
            if base == "named_ptr":
                node["ptr"], node["pre"] = True, rng.random() < 0.6
            r = rng.random()
            if r < 0.25:
                node["tags"] = foreign_tags(rng)
            elif r < 0.50:
                node["tags"] = self.prefix_tag(k)
        node["fs"] = [self.plain_int()] + self.fields(depth + 1, rng.choice([0, 1, 2, 3]), chain and base == "entered")
        self.note_prefix(node, k)
        if self.poolable(node):
            self.pool.append(node)
        return node

    def entered(self, fs, unexp=False):
        """a fresh anonymous, untagged, by-value embedded struct type with the given fields"""
        k = self.nxt()
        unexp = unexp and self.static
        tname = (("s%dt%d" if unexp else "S%dT%d") % (self.cid, k)) if self.static else "E%d" % k
        return {"n": tname, "e": not unexp, "k": "struct", "tags": [], "anon": True, "ptr": False, "pre": False,
                "imp": None, "gotype": tname, "fs": fs}

    def diamond(self):
        """Common reached more than once: Reader{Common}, Writer{Common}, ... (and sometimes Common itself next to them,
        or a wrapper inside a wrapper, so that the occurrences lie at different depths); returns the root-level nodes"""
        rng = self.rng
        common_fs = [self.tagged_leaf() for _ in range(rng.choice([1, 2, 2, 3]))]
        if rng.random() < 0.3:
            common_fs.insert(rng.randrange(len(common_fs) + 1), self.leaf())
        if rng.random() < 0.25:
            common_fs.append(self.sub(2, False, [f["n"] for f in common_fs]))
        common = self.entered(common_fs, rng.random() < 0.4)
        wrappers = []
        for _ in range(rng.choice([2, 2, 2, 3])):
            fs = [self.leaf() for _ in range(rng.choice([0, 1, 1, 2]))]
            c2 = copy.deepcopy(common)
            fs.insert(rng.randrange(len(fs) + 1), c2)
            wrappers.append(self.entered(fs, rng.random() < 0.4))
        r = rng.random()
        if r < 0.25:      # Common directly on the component as well (depth 1 and depth 2)
            c2 = copy.deepcopy(common)
            wrappers.insert(rng.randrange(len(wrappers) + 1), c2)
        elif r < 0.50:    # one wrapper inside another wrapper: Outer{Inner{Common}; Common}? no: Outer{W1} next to W2
            inner = wrappers.pop(0)
            wrappers.append(self.entered([self.leaf(), inner], rng.random() < 0.4))
        self.reused += len(wrappers)
        return wrappers

    def tagged_leaf(self):
        """an exported leaf with a recognised tag (what the scan must find in every occurrence)"""
        rng = self.rng
        kind = rng.choice(SCALARS * 3 + ["dep", "depi", "depis", "logger", "cfgplain", "map"])
        k = self.nxt()
        tags = recognised_tags(rng, kind)
        return {"n": "F%d" % k, "e": True, "k": kind, "tags": tags, "anon": False, "ptr": False, "pre": False, "fs": [],
                "imp": None}

    def prefix_tag(self, k):
        return [mk_tag("prefix", "c11.p%d" % k)]

    def fields(self, depth, n, chain=True):
        out = []
        for _ in range(n):
            if depth < 3 and self.rng.random() < (0.45 if depth == 0 else 0.35):
                out.append(self.sub(depth, chain, [f["n"] for f in out]))
            else:
                out.append(self.leaf())
        return out


def contains_cfga(shape):
    return any(s["k"] == "struct" and (s.get("gotype") == "CfgA" or contains_cfga(s["fs"])) for s in shape)


def gen_case(rng, cid, static):
    g = Gen(rng, cid, static)
    shape = g.fields(0, rng.choice([2, 3, 4, 5, 6]))
    if not any(is_entered(s) for s in shape) and rng.random() < 0.8:
        shape.insert(rng.randrange(len(shape) + 1), force_entered(g))
    if rng.random() < 0.22:
        names = {s["n"] for s in shape}
        for w in g.diamond():
            if w["n"] not in names:
                names.add(w["n"])
                shape.insert(rng.randrange(len(shape) + 1), w)
    case = {"id": cid, "static": static, "shape": shape, "prefix_cfg": g.prefix_cfg}
    check_types(case)
    return case


def check_types(case):
    """generator invariant: one gotype = one field list (a Go type is declared once), siblings have distinct names"""
    seen = {}

    def walk(shape):
        names = [s["n"] for s in shape]
        assert len(names) == len(set(names)), ("duplicate sibling", names)
        for s in shape:
            if s["k"] == "struct":
                sig = json.dumps(s["fs"], sort_keys=True)
                assert seen.setdefault(s["gotype"], sig) == sig, ("type declared twice differently", s["gotype"])
                walk(s["fs"])
    walk(case["shape"])


def force_entered(g):
    k = g.nxt()
    unexp = g.static and g.rng.random() < 0.6
    tname = (("s%dt%d" if unexp else "S%dT%d") % (g.cid, k)) if g.static else "E%d" % k
    return {"n": tname, "e": not unexp, "k": "struct", "tags": [], "anon": True, "ptr": False, "pre": False, "imp": None,
            "gotype": tname, "fs": g.fields(1, g.rng.choice([1, 2, 3]))}


def is_entered(s):
    return s["k"] == "struct" and s["anon"] and not s["ptr"] and not s["tags"]


def flatten(shape):
    out = []
    for s in shape:
        if is_entered(s):
            out += flatten(s["fs"])
        else:
            out.append(s)
    return out


def flat_buildable(case):
    """the flattened twin declares every reached field directly on one struct: impossible (duplicate field names) when a
    struct type is entered more than once"""
    names = [s["n"] for s in flatten(case["shape"])]
    return len(names) == len(set(names))


def config_text(case):
    lines = ["c11:", "  i: 42", "  s: hello", "  b: true", "  f: 1.5", "  cfg: {host: h1, port: 8080}",
             "  cfga: {host: ha, port: 1}", "  m: {k1: v1, k2: 2}"]
    for k, sect in sorted(case["prefix_cfg"].items()):
        lines.append("  %s: {%s}" % (k, ", ".join("%s: %d" % kv for kv in sorted(sect.items()))))
    return "\n".join(lines) + "\n"


# ------------------------------------------------------------------------------------------------
# to Go

def go_nodes(shape):
    return [{"n": s["n"], "e": s["e"], "k": s["k"], "tags": raw_tags(s["tags"]), "anon": s["anon"], "ptr": s["ptr"],
             "pre": s["pre"], "fs": go_nodes(s["fs"])} for s in shape]


def go_case(case):
    flat = flatten(case["shape"])
    has_flat = any(is_entered(s) for s in case["shape"]) and flat_buildable(case)
    return {"id": case["id"], "config": config_text(case), "static": ("S%d" % case["id"]) if case["static"] else "",
            "shape": go_nodes(case["shape"]), "flat": go_nodes(flat) if has_flat else None}


def static_source(cases):
    """Go source declaring the static types of every static case and registering their constructors"""
    out = ["// Code generated by tools/props/c11.py. DO NOT EDIT.", "package main", "",
           'import "github.com/go-kid/ioc/syslog"', "", "var _ syslog.Logger", ""]
    reg = []
    for c in cases:
        if not c["static"]:
            continue
        declared = set()

        def field_line(s):
            tag = raw_tags(s["tags"])
            tag = (" `" + tag + "`") if tag else ""
            if s["k"] == "struct":
                t = ("*" if s["ptr"] else "") + s["gotype"]
                return ("\t%s%s" % (t, tag)) if s["anon"] else ("\t%s %s%s" % (s["n"], t, tag))
            return "\t%s %s%s" % (s["n"], GO_TYPE[s["k"]], tag)

        def declare(tname, fields):
            if tname in declared or tname == "CfgA":
                return
            declared.add(tname)
            out.append("type %s struct {" % tname)
            for f in fields:
                out.append(field_line(f))
            out.append("}")
            out.append("")
            for f in fields:
                if f["k"] == "struct":
                    declare(f["gotype"], f["fs"])

        root = "S%dRoot" % c["id"]
        declare(root, c["shape"])
        reg.append('\tstaticShapes["S%d"] = func() any { return &%s{} }' % (c["id"], root))
        if flat_buildable(c):
            flat = flatten(c["shape"])
            declare(root + "F", flat)
            reg.append('\tstaticShapes["S%dF"] = func() any { return &%sF{} }' % (c["id"], root))
    out.append("func init() {")
    out += reg
    out.append("}")
    return "\n".join(out) + "\n"


def build_driver(ctx, cases, tag):
    """copy the driver next to the generated static types (under the harness module, git-ignored) and build it"""
    rel = os.path.join("work", "c11_%s_%s%s" % (ctx.tier, tag, getattr(ctx, "worktag", "")))
    d = os.path.join(vlib.HARNESS, rel)
    shutil.rmtree(d, ignore_errors=True)
    os.makedirs(d)
    shutil.copy(os.path.join(vlib.HARNESS, "cmd", "c11", "main.go"), os.path.join(d, "main.go"))
    open(os.path.join(d, "gen_static.go"), "w").write(static_source(cases))
    return vlib.go_build(ctx, "./" + rel, out=ctx.wpath("bin_c11_" + tag))


# ------------------------------------------------------------------------------------------------
# to Coq

def cs(s):
    if all(32 <= ord(ch) < 127 for ch in s):
        return vlib.coq_string(s)
    return vlib.coq_string("?unprintable")


def coq_args(args):
    return vlib.coq_list("(%s, %s)" % (cs(n), vlib.coq_list(cs(v) for v in vs)) for n, vs in args)


def coq_tag(t):
    return "mkTag %s %s %s" % (cs(t["key"]), cs(t["val"]), coq_args(parsed_args(t)))


def coq_opt_str(x):
    return "None" if x is None else "(Some %s)" % cs(x)


def coq_shape(s):
    tags = vlib.coq_list(coq_tag(t) for t in s["tags"])
    if s["k"] == "struct":
        return "Sub %s %s %s %s %s %s %s" % (cs(s["n"]), vlib.coq_bool(s["e"]), vlib.coq_bool(s["anon"]),
                                             vlib.coq_bool(not s["ptr"]), tags, coq_opt_str(s.get("imp")),
                                             vlib.coq_list(coq_shape(f) for f in s["fs"]))
    return "Leaf %s %s %s %s %s" % (cs(s["n"]), vlib.coq_bool(s["e"]), tags, KIND_COQ[s["k"]], coq_opt_str(s.get("imp")))


def coq_procs(procs):
    items = []
    for p in procs:
        h = "HNone"
        if p["handler"]:
            h = {"prefix": "HCfgProps", "value": "HPropAlias"}.get(p["tag"], "HNone")
        items.append("mkTP %s %s %s" % (cs(p["tag"]), h, vlib.coq_bool(p["required"])))
    return vlib.coq_list(items)


def coq_pobs(p):
    args = [[a[0], a[1:]] for a in (p["args"] or [])]
    return "(%s, %s, %s, %s)" % (cs(p["field"]), cs(p["tag"]), cs(p["tagstr"]), coq_args(args))


def coq_path(p):
    return vlib.coq_list(cs(x) for x in p)


def coq_logs(snap):
    """[path, prefix] of every non-nil syslog.Logger field after Run, as the driver's describeLogger renders it"""
    return vlib.coq_list("(%s, %s)" % (coq_path(x[0].split(".")), cs(x[1])) for x in ((snap or {}).get("logs") or []))


def changed_paths(snap):
    snap = snap or {}
    b = dict((x[0], x[1]) for x in snap.get("before") or [])
    a = dict((x[0], x[1]) for x in snap.get("after") or [])
    out = []
    for k in sorted(set(a) | set(b)):
        if a.get(k) != b.get(k):
            out.append(k.split("."))
    return out


def leaf_key(shape, path):
    """the path with the entered structs on the way removed (what survives flattening)"""
    cur = shape
    i = 0
    while i < len(path):
        hit = [s for s in cur if s["n"] == path[i]]
        if hit and is_entered(hit[0]):
            cur = hit[0]["fs"]
            i += 1
        else:
            break
    return ".".join(path[i:])


def coq_case(case, obs):
    ok = obs["out"] == "ok"
    main = obs.get("main") or {"before": [], "after": [], "props": []}
    props = vlib.coq_list(coq_pobs(p) for p in (main.get("props") or []))
    changed = vlib.coq_list(coq_path(p) for p in changed_paths(main))
    meta = "None"
    if obs.get("flat"):
        fl = obs["flat"]
        nv = [(leaf_key(case["shape"], x[0].split(".")), x[1]) for x in main.get("after") or []]
        fv = [(x[0], x[1]) for x in fl.get("after") or []]
        meta = "(Some (mkMeta %s %s %s %s))" % (
            vlib.coq_list("(%s, %s)" % (cs(k), cs(v)) for k, v in nv),
            vlib.coq_list("(%s, %s)" % (cs(k), cs(v)) for k, v in fv),
            vlib.coq_list(coq_pobs(p) for p in (fl.get("props") or [])), coq_logs(fl))
    return "mkCase %d %s %s %s %s %s %s %s %s" % (case["id"], vlib.coq_list(coq_shape(s) for s in case["shape"]),
                                                  coq_procs(obs.get("procs") or []), vlib.coq_bool(ok), props, changed, meta,
                                                  vlib.coq_bool(bool(case["static"])), coq_logs(main))


def evaluate(ctx, cases, tag, verbose=None):
    """verbose: None = the fixed share of the batch runs under the formatting logger; True / False = the whole batch does / does not
    (replay and shrinking keep the mode of the case they start from)"""
    binp = build_driver(ctx, cases, tag)
    rc, res, raw, loud = vlib.run_json_verbose_share(ctx, binp, {"cases": [go_case(c) for c in cases]}, timeout=3000,
                                                     pick=None if verbose is None else (lambda i: verbose))
    loud = set(loud)
    if res is None:
        raise vlib.GoBuildError("./cmd/c11 (run)", raw[-3000:])
    by_id = {}
    terms = []
    for pos, (c, o) in enumerate(zip(cases, res["outs"])):
        main = o.get("main") or {}
        by_id[c["id"]] = {"case": c, "go_struct": go_struct_text(c["shape"]), "config": config_text(c),
                          "verbose": pos in loud,
                          "outcome": o["out"], "detail": o["detail"][-600:], "changed": [".".join(p) for p in changed_paths(main)],
                          "props": main.get("props"), "procs": o.get("procs"),
                          "loggers": main.get("logs"), "flat_loggers": (o.get("flat") or {}).get("logs"),
                          "flat_changed": [".".join(p) for p in changed_paths(o["flat"])] if o.get("flat") else None}
        terms.append(coq_case(c, o))
    out = vlib.coq_eval_sharded(ctx, "cases_c11_" + tag, HEADER, terms,
                                {"M": "mismatches", "V": "violations", "NT": "count_nontrivial"}, shard=150)
    out["NT"] = sum(out["NT"])
    return by_id, out


def go_struct_text(shape, ind=1):
    """readable rendering of a shape as Go source (for replay files and samples)"""
    lines = []
    for s in shape:
        tag = raw_tags(s["tags"])
        tag = (" `" + tag + "`") if tag else ""
        pad = "  " * ind
        if s["k"] == "struct":
            head = ("*" if s["ptr"] else "") + s["n"] if s["anon"] else "%s %sstruct" % (s["n"], "*" if s["ptr"] else "")
            lines.append("%s%s {%s  // %s%s" % (pad, head, tag, "embedded" if s["anon"] else "named",
                                               ", entered by the scan" if is_entered(s) else ", must not be entered"))
            lines += go_struct_text(s["fs"], ind + 1)
            lines.append(pad + "}")
        else:
            lines.append("%s%s %s%s" % (pad, s["n"], GO_TYPE[s["k"]], tag))
    return lines


# ------------------------------------------------------------------------------------------------
# shrinking

def count_nodes(shape):
    return sum(1 + count_nodes(s["fs"]) for s in shape)


def shrink_candidates(case):
    """delete one field / clear one field's tags IN A TYPE: the edit is applied to every occurrence of the struct type
    that declares the field (one gotype = one declaration), so repeated types stay repeated"""
    out = []
    types = {None: case["shape"]}

    def collect(shape):
        for s in shape:
            if s["k"] == "struct" and s.get("gotype") != "CfgA":
                types.setdefault(s["gotype"], s["fs"])
                collect(s["fs"])
    collect(case["shape"])

    def each_decl(d, tname):
        if tname is None:
            yield d["shape"]
            return

        def walk(shape):
            for s in shape:
                if s["k"] == "struct":
                    if s.get("gotype") == tname:
                        yield s["fs"]
                    yield from walk(s["fs"])
        yield from walk(d["shape"])

    for tname, fs in types.items():
        for i, f in enumerate(fs):
            if len(fs) > 1 or tname is None:
                d = copy.deepcopy(case)
                for lst in list(each_decl(d, tname)):
                    if i < len(lst):
                        del lst[i]
                if d["shape"]:
                    out.append(d)
            if f["tags"] and not (f["k"] == "struct" and f["anon"]):
                d2 = copy.deepcopy(case)
                for lst in list(each_decl(d2, tname)):
                    if i < len(lst):
                        lst[i]["tags"] = []
                out.append(d2)
    good = []
    for d in out:
        try:
            check_types(d)
            good.append(d)
        except AssertionError:
            pass
    return good[:80]


# ------------------------------------------------------------------------------------------------

def load_corpus():
    d = os.path.join(vlib.VERIF, "corpus", "C11")
    out = []
    for f in sorted(glob.glob(os.path.join(d, "*.json"))):
        c = json.load(open(f))
        c["corpus_file"] = os.path.basename(f)
        out.append(c)
    return out


def renumber(case, cid):
    """static type names embed the case id; corpus/replayed cases are renamed to their new id"""
    old = case["id"]
    c = copy.deepcopy(case)
    c["id"] = cid
    if c["static"] and old != cid:
        def ren(shape):
            for s in shape:
                if s["k"] == "struct" and s.get("gotype") not in (None, "CfgA"):
                    for a, b in (("S%dT" % old, "S%dT" % cid), ("s%dt" % old, "s%dt" % cid)):
                        if s["gotype"].startswith(a):
                            s["gotype"] = b + s["gotype"][len(a):]
                        if s["anon"] and s["n"].startswith(a):
                            s["n"] = b + s["n"][len(a):]
                ren(s["fs"])
        ren(c["shape"])
    return c


def stats(cases):
    variants = {}
    depth_hist = {}
    kinds = {}

    foreign = {"tags_by_class": {}, "lookalike_tags_by_field_kind": {}, "lookalike_tags_by_embedding_depth": {},
               "lookalike_tags_next_to_a_recognised_tag": 0, "lookalike_tags_by_recognised_name": {},
               "cases_with_a_lookalike": 0, "cases_with_a_lookalike_key_ending_in_a_tag_name": 0,
               "cases_with_a_value_containing_tag_colon_quote": 0}
    flags = set()

    def note_foreign(s, depth):
        for t in s["tags"]:
            if t["key"] in RECOGNISED:
                continue
            cl = foreign_classes(t)
            for c in cl:
                foreign["tags_by_class"][c] = foreign["tags_by_class"].get(c, 0) + 1
            if cl == ["plain"]:
                continue
            flags.add("any")
            if "key_ends_in_tag_name" in cl:
                flags.add("ends")
            if "value_text_contains_tag_colon_quote" in cl:
                flags.add("vq")
            kind = s["k"] if s["k"] != "struct" else (
                "struct:" + ("ptr-embedded" if s["anon"] and s["ptr"] else "tagged-embedded" if s["anon"] else
                             "named-ptr" if s["ptr"] else "named"))
            if not s["e"]:
                kind += "(unexported)"
            for d, k in ((foreign["lookalike_tags_by_field_kind"], kind), (foreign["lookalike_tags_by_embedding_depth"], depth)):
                d[k] = d.get(k, 0) + 1
            raw = raw_tag(t).lower()
            for r in RECOGNISED:
                if r in raw:
                    d = foreign["lookalike_tags_by_recognised_name"]
                    d[r] = d.get(r, 0) + 1
            if any(x["key"] in RECOGNISED for x in s["tags"]):
                foreign["lookalike_tags_next_to_a_recognised_tag"] += 1

    def walk(shape, depth):
        dmax = depth
        for s in shape:
            note_foreign(s, depth)
            if s["k"] == "struct":
                v = ("entered" if is_entered(s) else
                     "ptr-embedded" if s["anon"] and s["ptr"] else
                     "tagged-embedded" if s["anon"] else
                     "named-ptr" if s["ptr"] else "named")
                if s["anon"] and not s["e"]:
                    v += "(unexported type)"
                variants[v] = variants.get(v, 0) + 1
                dmax = max(dmax, walk(s["fs"], depth + 1))
            else:
                for t in s["tags"] or [{"key": "(untagged)"}]:
                    k = t["key"] if t["key"] in RECOGNISED + ("(untagged)",) else "(foreign)"
                    kinds[k] = kinds.get(k, 0) + 1
                if not s["e"]:
                    kinds["(unexported field)"] = kinds.get("(unexported field)", 0) + 1
                if s.get("imp"):
                    kinds["(ConfigurationProperties type)"] = kinds.get("(ConfigurationProperties type)", 0) + 1
        return dmax

    rep = {"cases_with_a_struct_type_at_several_positions": 0,
           "cases_with_a_type_entered_more_than_once": 0,
           "cases_with_recognised_tags_in_a_later_entered_occurrence": 0,
           "of_these_static_types": 0, "of_these_structof": 0,
           "cases_with_occurrences_at_different_depths": 0,
           "max_entered_occurrences_of_one_type": 0}
    for c in cases:
        flags.clear()
        d = walk(c["shape"], 0)
        depth_hist[d] = depth_hist.get(d, 0) + 1
        foreign["cases_with_a_lookalike"] += "any" in flags
        foreign["cases_with_a_lookalike_key_ending_in_a_tag_name"] += "ends" in flags
        foreign["cases_with_a_value_containing_tag_colon_quote"] += "vq" in flags
        r = repeated_types(c)
        if r["any"]:
            rep["cases_with_a_struct_type_at_several_positions"] += 1
        if r["entered"]:
            rep["cases_with_a_type_entered_more_than_once"] += 1
        if r["tagged"]:
            rep["cases_with_recognised_tags_in_a_later_entered_occurrence"] += 1
            rep["of_these_static_types" if c["static"] else "of_these_structof"] += 1
        if r["depths"]:
            rep["cases_with_occurrences_at_different_depths"] += 1
        rep["max_entered_occurrences_of_one_type"] = max(rep["max_entered_occurrences_of_one_type"], r["max"])
    return {"struct_variants": variants, "embedding_depth": depth_hist, "leaf_tags": kinds,
            "repeated_embedded_types": rep,
            "foreign_tags_that_look_like_recognised_ones": foreign,
            "logger_points": logger_stats(cases),
            "static_types_cases": sum(1 for c in cases if c["static"]),
            "structof_cases": sum(1 for c in cases if not c["static"])}


def logger_form(t):
    embed = any(n == "embed" for n, _ in t["args"])
    if t["val"]:
        return "own_prefix+embed_argument" if embed else "own_prefix"
    return "position_of_the_declaring_struct(embed)" if embed else "component_name"


def logger_stats(cases):
    """the logger points the scan must reach (exported syslog.Logger fields with a logger tag, through entered structs
    only), by the form of the tag and the number of embedded structs above them"""
    out = {"points_by_form_and_embedding_depth": {}, "points": 0, "points_inside_embedded_structs": 0,
           "cases_with_a_component_named_point_inside_an_embedded_struct": 0,
           "cases_with_component_named_points_both_direct_and_embedded": 0,
           "of_these_with_a_flattened_twin": 0}

    def walk(shape, depth, acc):
        for s in shape:
            if is_entered(s):
                walk(s["fs"], depth + 1, acc)
            elif s["k"] == "logger" and s["e"]:
                t = next((t for t in s["tags"] if t["key"] == "logger"), None)
                if t:
                    acc.append((logger_form(t), depth))
    for c in cases:
        acc = []
        walk(c["shape"], 0, acc)
        for form, depth in acc:
            k = "%s@depth%d" % (form, depth)
            out["points_by_form_and_embedding_depth"][k] = out["points_by_form_and_embedding_depth"].get(k, 0) + 1
            out["points"] += 1
            out["points_inside_embedded_structs"] += depth > 0
        deep = any(f == "component_name" and d > 0 for f, d in acc)
        out["cases_with_a_component_named_point_inside_an_embedded_struct"] += deep
        out["cases_with_component_named_points_both_direct_and_embedded"] += deep and any(
            f == "component_name" and d == 0 for f, d in acc)
        out["of_these_with_a_flattened_twin"] += deep and flat_buildable(c)
    return out


def repeated_types(case):
    """occurrences of each struct type: anywhere, and on the entered chain (where the scan must expand it)"""
    anyocc, ent = {}, {}

    def has_tag(shape):
        for s in shape:
            if is_entered(s):
                if has_tag(s["fs"]):
                    return True
            elif s["e"] and (any(t["key"] in RECOGNISED for t in s["tags"]) or s.get("imp")):
                return True
        return False

    def walk(shape, depth, chain):
        for s in shape:
            if s["k"] != "struct" or s.get("gotype") == "CfgA":
                continue
            anyocc.setdefault(s["gotype"], []).append(depth)
            if chain and is_entered(s):
                ent.setdefault(s["gotype"], []).append((depth, has_tag(s["fs"])))
            walk(s["fs"], depth + 1, chain and is_entered(s))
    walk(case["shape"], 1, True)
    multi = [v for v in ent.values() if len(v) > 1]
    return {"any": any(len(v) > 1 for v in anyocc.values()), "entered": bool(multi),
            "tagged": any(v[0][1] for v in multi),
            "depths": any(len({d for d, _ in v}) > 1 for v in multi),
            "max": max([len(v) for v in ent.values()] or [0])}


def run(ctx):
    static_ok = vlib.static_obligations(ctx)
    ns, nd = (120, 2000) if ctx.quick() else (400, 30000)
    cases = [renumber(c, i) for i, c in enumerate(load_corpus())]
    mode = None
    if ctx.replay:
        r = json.load(open(ctx.replay))
        rc = r.get("case", {}).get("case")
        if rc:
            cases = [renumber(rc, 0)]
            mode = bool(r["case"].get("verbose"))
    else:
        n0 = len(cases)
        for i in range(ns):
            cases.append(gen_case(ctx.rng, n0 + i, True))
        for i in range(nd):
            cases.append(gen_case(ctx.rng, n0 + ns + i, False))
    by_id, res = evaluate(ctx, cases, "main", mode)
    M, V, nt = res["M"], res["V"], res["NT"]
    outcomes = {}
    for e in by_id.values():
        outcomes[e["outcome"]] = outcomes.get(e["outcome"], 0) + 1
    ctx.log("cases=%d nontrivial=%d mismatches=%d violations=%d outcomes=%s" % (len(cases), nt, len(M), len(V), outcomes))
    V.sort(key=lambda i: count_nodes(by_id[i]["case"]["shape"]))

    def shrink(entry):
        cur = entry
        for _round in range(12):
            cands = shrink_candidates(cur["case"])
            if not cands:
                break
            cands = [renumber(c, i) for i, c in enumerate(cands)]
            b2, r2 = evaluate(ctx, cands, "shrink", bool(cur.get("verbose")))
            if not r2["V"]:
                break
            best = min(r2["V"], key=lambda i: count_nodes(b2[i]["case"]["shape"]))
            cur = b2[best]
        cur["how_to_read"] = ("go_struct is the component type; 'changed' lists the fields whose value differs after App.Run; "
                              "'props' is what the recording tag processor was handed; the oracle demands that every changed "
                              "field is exported, reached through entered embedded structs only and carries a tag of a "
                              "registered processor (or lies inside such a field), that the processors got exactly those "
                              "fields, that the flattened twin ends with the same values, and that every logger point "
                              "('loggers': path, prefix of the logger it holds, '@' = the component's name) holds the logger "
                              "the same tag yields on a directly declared field (its own prefix, else '@'; only "
                              "`logger:\",embed\"` inside an embedded struct names its position)")
        return cur

    def widen():
        ctx.rng.seed(ctx.seed + 777)
        more = [gen_case(ctx.rng, i, i < 100) for i in range(4000)]
        b2, r2 = evaluate(ctx, more, "widen")
        return [b2[i] for i in r2["V"][:3]]

    distinct = len({vlib.stable_hash([c["shape"], c["static"]]) for c in cases})
    ids = sorted(by_id)
    samples = [dict(by_id[i], case=None) for i in ids[:1] + ids[-1:]]
    procs = next((e["procs"] for e in by_id.values() if e.get("procs")), None)
    ctx.oblige("facts: registered tag processors read back from the running App (tag, Required, ExtractHandler)",
               bool(procs) and {p["tag"] for p in procs} >= {"wire", "func", "value", "prefix", "logger", "rec", "aux"},
               json.dumps(procs))
    cov = {
        "evaluations": len(cases),
        "distinct_nontrivial": min(nt, distinct),
        "rule": "real App.Run starts with one generated struct shape (plus its flattened twin, a *Dep, a recording user tag "
                "processor for tag rec and a scanning one for tag aux) per case; observed: outcome, every property handed to the "
                "recorder, before/after value of every field at every depth (unexported via unsafe read access), the prefix "
                "of the logger every syslog.Logger field holds (the driver installs a prefix-recording logger through "
                "syslog.SetLogger) and whether it is the shared logger of that prefix, values, loggers and "
                "properties of the twin; non-trivial = some property lies below an entered embedded struct AND some field "
                "with a recognised tag must stay untouched (unexported, or inside a struct that is not entered); distinct = "
                "distinct shapes",
        "repeated_embedded_type_cases": sum(1 for c in cases if repeated_types(c)["tagged"]),
        "cases_under_formatting_logger": sum(1 for e in by_id.values() if e.get("verbose")),
        "samples": samples,
        "traces_validated_against_impl": len(cases),
        "input_distribution": stats(cases),
        "nontrivial_cases": nt,
        "distinct_cases": distinct,
        "outcomes": outcomes,
        "registered_tag_processors": procs,
    }
    return vlib.decide(ctx, static_ok and all(o[1] for o in ctx.obligations), by_id, M, V, cov, widen=widen, shrink=shrink,
                       assumptions=["sibling fields have distinct names (wf_comp; Go rejects other structs), re-checked per case",
                                    "values and arguments of recognised tags are generated without quotes/brackets; the tag grammar is C19's",
                                    "every generated recognised tag is satisfiable and writes a non-zero value, so the set of "
                                    "changed fields must equal the model's footprint exactly"])
