"""C02 — circular dependencies resolve and start-up terminates (wiring family: generated Go types run through the real container vs Model/Factory.v)."""
import wiring
from wiring import Profile

MANIFEST = {
    "level": "proof",
    "text": 'termination of the fuelled recursion for every graph (fuel = components + 2 suffices) and success of satisfiable graphs; correspondence on cyclic graphs of every rotation; crashes/hangs are outcomes of single scenarios; the EXTENDED model (Model/FactoryX.v: Init methods that look components up, post-processors that short-circuit instantiation) carries every run-level invariant family as well (Proofs/FactoryX*.v, theorems *_extended) and is what the correspondence evaluates; scenarios end with Factory.GetComponents(), are restarted on the same App value, have another App started before or in the middle, and include crowds of 24..36 instances of one type; some ordinary components are also (do-nothing) factory or definition-registry post-processors that look at the registry, and named and unnamed instances of one type stand side by side, callbacks fail with the component in hand, func points name methods that take parameters, two instantiations of one generic type are registered under their default names',
    "design_ref": "DESIGN.md 5 C02, 4.3, Appendix A/D",
    "note": "trusted: Coq kernel + vm_compute; hand-written model (Model/Resolve.v, Factory.v, App.v) tied to the code by exact "
            "comparison of event log, wiring and lookups on generated scenarios; Python generator/Go code generator/wx runtime; "
            "Go reflect and runtime; user callbacks are total functions of the scenario (re-entrant Init lookups and short-circuits are the extras of Model/FactoryX.v)",
    "technique": "Rocq proof over the Factory/Resolve model + vm_compute correspondence on generated wiring scenarios",
}

PROFILES = [(Profile(p_wrap=0.0, n_procs=(0, 1), p_cycle_bias=0.9, fields=(1, 4), p_lazy=0.1, p_crowd=0.005), 380, 4400), (Profile(p_wrap=0.2, p_cycle_bias=0.9, p_crowd=0.005), 120, 1600),
            (Profile(p_wrap=0.1, n_procs=(1, 2), p_cycle_bias=0.9, p_init=0.9, p_lazy=0.3, p_initget=0.6, p_short=0.3, p_crowd=0.0), 100, 1000)]

RULE = 'cycle-biased graphs (single pointer, interface, slice, by-name edges), names drawn so cycles sit at every position of the alphabetical creation order; non-trivial = the static provider graph has a cycle'


def run(ctx):
    def post(ctx, by_id, cov, out):
        n = sum(out["LH"])
        cov["cyclic_scenarios_satisfying_c02_cycles_succeed_hypotheses"] = n
        ctx.oblige("non-vacuity: some cyclic scenarios of this run satisfy the hypotheses of c02_cycles_succeed", n > 0,
                   "%d scenarios" % n)
    return wiring.run_family(ctx, "Corr.Check_C02", wiring.std_scenarios(PROFILES), RULE, post=post,
                             extra_defs={"LH": "count_live_hyp"})
