"""C07 — injection by name selects exactly the named component (wiring family: generated Go types run through the real container vs Model/Factory.v)."""
import wiring
from wiring import Profile

MANIFEST = {
    "level": "proof",
    "text": 'theorems: a named point receives exactly the registered component of that name or fails/stays untouched, never panics; names are unique; correspondence over name x type x kind products',
    "design_ref": "DESIGN.md 5 C07, 4.3, Appendix A/D",
    "note": "trusted: Coq kernel + vm_compute; hand-written model (Model/Resolve.v, Factory.v, App.v) tied to the code by exact "
            "comparison of event log, wiring and lookups on generated scenarios; Python generator/Go code generator/wx runtime; "
            "Go reflect and runtime; user callbacks do not re-enter the factory",
    "technique": "Rocq proof over the Factory/Resolve model + vm_compute correspondence on generated wiring scenarios",
}

PROFILES = [(Profile(p_wrap=0.0, n_procs=(0, 0), p_naming=0.6, p_extra_instance=0.5, p_absent_name=0.2, p_wrongtype_name=0.25, p_valid=0.5, p_name_placeholder=0.3, p_embed_points=0.25, kind_weights={"name": 8, "ptr": 1, "iface": 1, "siface": 1, "sptr": 0.5, "any": 0.2, "func": 0.2, "other": 0}), 600, 6000)]

RULE = 'custom/default/empty custom names; requested name present, absent, present with incompatible type; fields *T, interface, any; required/optional; non-trivial = scenario has a by-name point'


import vlib

REG_HEADER = ("From Coq Require Import List Arith Bool.\nFrom IocVerif Require Import Model.SingletonRegistry Corr.Check_C07reg.\n"
              "Import ListNotations.\nNotation case := rcase.\n")


def registration_stream(ctx, by_id_out, cov):
    """registration sequences against the real singleton registry (names unique; duplicates rejected)"""
    rng = ctx.rng
    n = 400 if ctx.quick() else 8000
    cases = []
    for cid in range(n):
        reqs = []
        ninst = rng.randint(1, 6)
        for i in range(ninst):
            t = rng.choice(["N0", "N1", "N2", "P0", "P1", "P2"])
            name = rng.choice(["", "a", "b", "c"]) if t.startswith("N") else ""
            reqs.append({"inst": i, "type": t, "name": name})
        seq = [dict(rng.choice(reqs)) for _ in range(rng.randint(1, 8))]
        cases.append({"id": cid, "reqs": seq})
    binp = vlib.go_build(ctx, "./cmd/c07reg")
    rc, res, raw = vlib.run_json(binp, {"cases": cases})
    if res is None:
        raise vlib.GoBuildError("./cmd/c07reg (run)", raw[-2000:])
    ids = {}

    def nid(sname):
        return ids.setdefault(sname, len(ids))
    terms = []
    for c, o in zip(cases, res["outs"]):
        reqs = []
        for r, regname in zip(c["reqs"], o["names"] or []):
            default = nid("main/" + r["type"])
            custom = "(Some %d)" % nid(r["name"]) if (r["type"].startswith("N") and r["name"] != "") else "None"
            # the model's registered name must be the implementation's GetComponentName
            want = r["name"] if (r["type"].startswith("N") and r["name"] != "") else "main/" + r["type"]
            if regname != want:
                custom = "(Some %d)" % nid("??" + regname)   # forces a mismatch
            reqs.append("(mkReq %d %s %d)" % (r["inst"], custom, default))
        reqs = reqs[:len(o["outs"] or [])]
        outs = [{"ok": 0, "same": 1, "panic": 2}[x] for x in (o["outs"] or [])]
        final = ["(%d, %d)" % (nid(nm), inst) for nm, inst in zip(o["final"] or [], o["finalin"] or [])]
        terms.append("(mkRC %d %s %s %s)" % (c["id"], vlib.coq_list(reqs), vlib.coq_list(map(str, outs)) + "%nat",
                                            vlib.coq_list(final)))
    out = vlib.coq_eval_sharded(ctx, "cases_c07reg", REG_HEADER, terms,
                                {"RM": "rmismatches", "RV": "rviolations", "RNT": "rnontrivial"})
    ctx.oblige("registration correspondence mismatches = []", not out["RM"], "%d disagreeing" % len(out["RM"]))
    ctx.oblige("registration oracle (one instance per name, first registrant keeps it)", not out["RV"],
               "%d failing" % len(out["RV"]))
    cov["registration_sequences"] = len(cases)
    cov["registration_nontrivial"] = sum(out["RNT"])
    cov["registration_failures"] = {"mismatch": out["RM"][:10], "oracle": out["RV"][:10]}
    ctx.reg_bad = [cases[i] for i in (out["RM"] + out["RV"])[:3]]


def run(ctx):
    def post(ctx, by_id, cov):
        registration_stream(ctx, by_id, cov)
    rc = wiring.run_family(ctx, "Corr.Check_C07", wiring.std_scenarios(PROFILES), RULE, post=post)
    if rc == 0 and getattr(ctx, "reg_bad", None):
        rp = vlib.write_replay(ctx, "viol", {"property": "C07", "kind": "registration sequence", "case": ctx.reg_bad[0]})
        vlib.violation(ctx, rp)
        return 1
    return rc
