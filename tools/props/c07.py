"""C07 — injection by name selects exactly the named component (wiring family: generated Go types run through the real container vs Model/Factory.v)."""
import wiring
from wiring import Profile

MANIFEST = {
    "level": "proof",
    "text": 'theorems: a named point receives exactly the registered component of that name or fails/stays untouched, never panics; names are unique; correspondence over name x type x kind products',
    "design_ref": "DESIGN.md 5 C07, 4.3, Appendix A/D",
    "note": "trusted: Coq kernel + vm_compute; hand-written model (Model/Resolve.v, Factory.v, App.v) tied to the code by exact "
            "comparison of event log, wiring and lookups on generated scenarios; Python generator/Go code generator/wx runtime; "
            "Go reflect and runtime; user callbacks do not re-enter the factory",
    "technique": "Rocq proof over the Factory/Resolve model + vm_compute correspondence on generated wiring scenarios",
}

PROFILES = [(Profile(p_wrap=0.0, n_procs=(0, 0), p_naming=0.6, p_extra_instance=0.5, p_absent_name=0.2, p_wrongtype_name=0.25, p_valid=0.5, kind_weights={"name": 8, "ptr": 1, "iface": 1, "siface": 1, "sptr": 0.5, "any": 0.2, "func": 0.2, "other": 0}), 600, 6000)]

RULE = 'custom/default/empty custom names; requested name present, absent, present with incompatible type; fields *T, interface, any; required/optional; non-trivial = scenario has a by-name point'


def run(ctx):
    return wiring.run_family(ctx, "Corr.Check_C07", wiring.std_scenarios(PROFILES), RULE)
