"""C07 — injection by name selects exactly the named component (wiring family: generated Go types run through the real container vs Model/Factory.v)."""
import wiring
from wiring import Profile

MANIFEST = {
    "level": "proof",
    "text": 'theorems: a named point receives exactly the registered component of that name or fails/stays untouched, never panics; names are unique; correspondence over name x type x kind products, and registration sequences against the real singleton registry (incl. components of distinct zero-size types and struct/first-field pairs that share an address and a name); the EXTENDED model (Model/FactoryX.v: Init methods that look components up, post-processors that short-circuit instantiation) carries every run-level invariant family as well (Proofs/FactoryX*.v, theorems *_extended) and is what the correspondence evaluates; scenarios end with Factory.GetComponents(), are restarted on the same App value, have another App started before or in the middle, and include crowds of 24..36 instances of one type; some ordinary components are also (do-nothing) factory or definition-registry post-processors that look at the registry, and named and unnamed instances of one type stand side by side, callbacks fail with the component in hand, func points name methods that take parameters, two instantiations of one generic type are registered under their default names; registration also at the quietest log level, where a duplicate is dropped instead of refused (register_all_q, c07_unique_names_quiet)',
    "design_ref": "DESIGN.md 5 C07, 4.3, Appendix A/D",
    "note": "trusted: Coq kernel + vm_compute; hand-written model (Model/Resolve.v, Factory.v, App.v) tied to the code by exact "
            "comparison of event log, wiring and lookups on generated scenarios; Python generator/Go code generator/wx runtime; "
            "Go reflect and runtime; user callbacks are total functions of the scenario (re-entrant Init lookups and short-circuits are the extras of Model/FactoryX.v)",
    "technique": "Rocq proof over the Factory/Resolve model + vm_compute correspondence on generated wiring scenarios",
}

PROFILES = [(Profile(p_wrap=0.0, n_procs=(0, 2), p_naming=0.6, p_extra_instance=0.5, p_absent_name=0.2, p_wrongtype_name=0.25, p_valid=0.5, p_name_placeholder=0.3, p_embed_points=0.25, p_foreign_twins=0.25, p_local_twins=0.15, kind_weights={"name": 8, "ptr": 1, "iface": 1, "siface": 1, "sptr": 0.5, "any": 0.2, "func": 0.2, "other": 0}), 600, 6000)]

RULE = 'custom/default/empty custom names; requested name present, absent, present with incompatible type; fields *T, interface, any; required/optional; non-trivial = scenario has a by-name point'


import vlib

REG_HEADER = ("From Coq Require Import List Arith Bool.\nFrom IocVerif Require Import Model.SingletonRegistry Corr.Check_C07reg.\n"
              "Import ListNotations.\nNotation case := rcase.\n")


# zero-size types of harness/cmd/c07reg/zero.go: type -> constant Naming() result (None = no Naming method).  Pointers to
# values of all of them are ONE address; they are different components all the same.
ZERO_TYPES = {"Za0": "a", "Za1": "a", "Za2": "a", "Zb0": "b", "Zb1": "b", "Zc0": "c", "Ze0": "", "Ze1": "",
              "Zn0": None, "Zn1": None, "Zn2": None}
GO_TYPE = {"F": "named"}


def custom_name(r):
    """the name the component announces through Naming(), "" = none (default name applies)"""
    t = r["type"]
    if t in ZERO_TYPES:
        return ZERO_TYPES[t] or ""
    if t[0] in "NWF":
        return r["name"]
    return ""


def gen_reg_case(rng):
    """instances of one registration sequence.  Profiles: `plain` (the sized types only), `zero` (zero-size types mixed
    in), `zdup` (at least two zero-size types that announce the SAME name, often next to a sized component of that name),
    `first` (a struct and a pointer to its first embedded field, which inherits the name)"""
    prof = rng.choice(["plain", "plain", "plain", "zero", "zdup", "zdup", "first"])
    insts = []

    def add(t, name="", of=None):
        if t in ZERO_TYPES and any(x["type"] == t for x in insts):
            return     # two values of one zero-size type are the same component (same type, same address)
        r = {"inst": len(insts), "type": t, "name": name}
        if of is not None:
            r["of"] = of
        insts.append(r)

    def sized():
        t = rng.choice(["N0", "N1", "N2", "P0", "P1", "P2"])
        add(t, rng.choice(["", "a", "b", "c"]) if t.startswith("N") else "")

    if prof == "plain":
        for _ in range(rng.randint(1, 6)):
            sized()
    elif prof == "zero":
        for _ in range(rng.randint(1, 6)):
            if rng.random() < 0.6:
                add(rng.choice(sorted(ZERO_TYPES)))
            else:
                sized()
    elif prof == "zdup":
        nm = rng.choice(["a", "a", "b", "e"])
        group = {"a": ["Za0", "Za1", "Za2"], "b": ["Zb0", "Zb1"], "e": ["Ze0", "Ze1"]}[nm]
        for t in rng.sample(group, rng.randint(2, len(group))):
            add(t)
        if nm != "e" and rng.random() < 0.4:
            add(rng.choice(["N0", "N1", "W0"]), nm)          # a sized component announcing the same name
        for _ in range(rng.randint(0, 3)):
            if rng.random() < 0.5:
                add(rng.choice(sorted(ZERO_TYPES)))
            else:
                sized()
    else:
        for _ in range(rng.randint(1, 2)):
            w = len(insts)
            add(rng.choice(["W0", "W1"]), rng.choice(["", "a", "b", "c"]))
            add("F", insts[w]["name"], of=w)
        for _ in range(rng.randint(0, 3)):
            if rng.random() < 0.4:
                add(rng.choice(sorted(ZERO_TYPES)))
            else:
                sized()
    if rng.random() < 0.5:
        # every instance once, in a random order, then some registered again
        seq = [dict(r) for r in insts]
        rng.shuffle(seq)
        seq += [dict(rng.choice(insts)) for _ in range(rng.randint(0, 3))]
    else:
        seq = [dict(rng.choice(insts)) for _ in range(rng.randint(1, 8))]
    return prof, seq


def reg_classes(seq):
    """input classes of one sequence (counted in the evidence)"""
    firsts = {}
    for r in seq:
        firsts.setdefault(r["inst"], r)
    rs = list(firsts.values())
    by_name = {}
    for r in rs:
        nm = custom_name(r) or "main/" + GO_TYPE.get(r["type"], r["type"])
        by_name.setdefault(nm, []).append(r)
    out = set()
    for nm, g in by_name.items():
        z = [r for r in g if r["type"] in ZERO_TYPES]
        if len(z) >= 2:
            out.add("two_zero_size_types_one_name")
        if z and len(z) < len(g):
            out.add("zero_size_and_sized_one_name")
        if len(g) >= 2 and not z and not any(r["type"] == "F" for r in g):
            out.add("two_sized_instances_one_name")
        if any(r["type"] == "F" and any(o["inst"] == r["of"] for o in g) for r in g):
            out.add("struct_and_first_field_one_name")
    if sum(1 for r in rs if r["type"] in ZERO_TYPES) >= 2:
        out.add("two_or_more_zero_size_components")
    if any(r["type"] == "F" and r["of"] in firsts for r in rs):
        out.add("struct_and_first_field_both_registered")
    if len(seq) > len(rs):
        out.add("same_instance_again")
    return out


def registration_stream(ctx, by_id_out, cov):
    """registration sequences against the real singleton registry (names unique; duplicates rejected)"""
    rng = ctx.rng
    n = 600 if ctx.quick() else 8000
    cases, classes, profs = [], {}, {}
    while len(cases) < n:
        prof, seq = gen_reg_case(rng)
        todo = [seq]
        if prof in ("zdup", "first"):
            todo.append([dict(r) for r in reversed(seq)])      # the same registrations in the opposite order
        for sq in todo:
            cases.append({"id": len(cases), "reqs": sq})
            if len(cases) % 3 == 0:        # the same registrations at the quietest log level: duplicates are dropped, not refused
                cases.append({"id": len(cases), "reqs": [dict(r) for r in sq], "quiet": True})
            profs[prof] = profs.get(prof, 0) + 1
            for k in reg_classes(sq):
                classes[k] = classes.get(k, 0) + 1
    binp = vlib.go_build(ctx, "./cmd/c07reg")
    # the log level is fixed per process (cached prefix loggers): one driver run per level, merged by id
    res = {"outs": [None] * len(cases)}
    for quiet in (False, True):
        part = [c for c in cases if bool(c.get("quiet")) == quiet]
        rc, r1, raw = vlib.run_json(binp, {"cases": part, "quiet": quiet})
        if r1 is None or len(r1.get("outs") or []) != len(part):
            raise vlib.GoBuildError("./cmd/c07reg (run)", raw[-2000:])
        for c, o in zip(part, r1["outs"]):
            res["outs"][c["id"]] = o
    ids = {}

    def nid(sname):
        return ids.setdefault(sname, len(ids))
    terms = []
    for c, o in zip(cases, res["outs"]):
        reqs = []
        for r, regname in zip(c["reqs"], o["names"] or []):
            dflt = "main/" + GO_TYPE.get(r["type"], r["type"])
            default = nid(dflt)
            cn = custom_name(r)
            custom = "(Some %d)" % nid(cn) if cn != "" else "None"
            # the model's registered name must be the implementation's GetComponentName
            want = cn if cn != "" else dflt
            if regname != want:
                custom = "(Some %d)" % nid("??" + regname)   # forces a mismatch
            reqs.append("(mkReq %d %s %d)" % (r["inst"], custom, default))
        reqs = reqs[:len(o["outs"] or [])]
        outs = [{"ok": 0, "same": 1, "panic": 2, "dropped": 2}[x] for x in (o["outs"] or [])]
        if c.get("quiet") and "panic" in (o["outs"] or []) or (not c.get("quiet")) and "dropped" in (o["outs"] or []):
            outs = outs + [9]              # a panic at the quiet level / a silent drop at the loud one: forces a mismatch
        final = ["(%d, %d)" % (nid(nm), inst) for nm, inst in zip(o["final"] or [], o["finalin"] or [])]
        terms.append("(mkRC %d %s %s %s %s)" % (c["id"], vlib.coq_list(reqs), vlib.coq_list(map(str, outs)) + "%nat",
                                               vlib.coq_list(final), "true" if c.get("quiet") else "false"))
    out = vlib.coq_eval_sharded(ctx, "cases_c07reg", REG_HEADER, terms,
                                {"RM": "rmismatches", "RV": "rviolations", "RNT": "rnontrivial"})
    ctx.oblige("registration correspondence mismatches = []", not out["RM"], "%d disagreeing" % len(out["RM"]))
    ctx.oblige("registration oracle (one instance per name, first registrant keeps it)", not out["RV"],
               "%d failing" % len(out["RV"]))
    cov["registration_sequences"] = len(cases)
    cov["registration_nontrivial"] = out["RNT"][0::2] and sum(out["RNT"][0::2])
    cov["registration_quiet_level_with_dropped_duplicate"] = sum(out["RNT"][1::2])
    outs = {}
    for o in res["outs"]:
        for x in o["outs"] or []:
            outs[x] = outs.get(x, 0) + 1
    cov.setdefault("input_distribution", {})["registration_sequences"] = {
        "profiles": profs, "classes": classes, "registrations_by_result": outs}
    cov["registration_failures"] = {"mismatch": out["RM"][:10], "oracle": out["RV"][:10]}
    bad = sorted(set(out["RV"] + out["RM"]), key=lambda i: (i not in out["RV"], len(cases[i]["reqs"]), i))
    ctx.reg_bad = [dict(cases[i], observation=res["outs"][i],
                        kind="oracle" if i in out["RV"] else "model disagrees") for i in bad[:3]]


def run(ctx):
    def post(ctx, by_id, cov):
        registration_stream(ctx, by_id, cov)
    rc = wiring.run_family(ctx, "Corr.Check_C07", wiring.std_scenarios(PROFILES), RULE, post=post)
    if rc == 0 and getattr(ctx, "reg_bad", None):
        rp = vlib.write_replay(ctx, "viol", {"property": "C07", "kind": "registration sequence", "case": ctx.reg_bad[0]})
        vlib.violation(ctx, rp)
        return 1
    return rc
