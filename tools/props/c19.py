"""C19 — tag argument grammar is total and faithful.

Direct calls of component_definition.NewProperty on structured tags and on arbitrary byte strings, scans of
runtime-built structs through the real tag-scan processors (prop shorthand, Required default) and real app.Run
starts of structs carrying generated tags, all compared in Coq with Model/TagGrammar.v (the functions the C19
theorems are about) and judged by the property oracle of Corr/Check_C19.v.

INDEPENDENCE of parses (case field "again" = 1 | 2, a share of every kind): the text is parsed, the observation kept, the
driver scribbles over everything reachable from the result (items of every value slice overwritten in place, slices
reordered / appended to, Property.SetArg / AddArg with junk on existing and new names, Required=false among them), and the
SAME text is parsed again into a fresh Property - in the same or in another field / holder / registry / App context.  Both
observations must equal the model's (pure) parse of the text, and the second must equal the first.

THE EXPORTED ARGUMENT API (case fields "ops" / "oprobes", a share of the direct and scan cases): after the parse was observed
the driver calls Property.SetArg / AddArg (or Args().Set / Add) with names in the spelling tags use ("qualifier"), in the
canonical one ("Qualifier"), of arguments the tag declares and of ones it does not, unknown / empty / non-ASCII names, 0-3
values each, and observes the table again: ForEach, IsRequired, Find / Has under both spellings of every name written, and the
library's own rendering Args().String().  Model: TagGrammar.apply_ops on the parsed table (Set replaces, Add appends, one table
keyed by the canonical name); oracle: the same recomputed from the OBSERVED parse.

PROP SHORTHAND END TO END (kinds e2e_prop_missing / e2e_prop_present): prop:"key,arg,arg,..." on a string field through a real
app.Run with the key absent from / present in the configuration; like the other app.Run kinds the tags carry 1-5 arguments in
every order (required=<spelling> first, in the middle, last; benign validate= / mapper= arguments; custom ones): the start
fails exactly when the key is absent and no required=false is among the arguments."""
import glob
import json
import os

import vlib

MANIFEST = {
    "level": "proof",
    "text": "Rocq theorems over Model/TagGrammar.v, a byte-level line-by-line model of strings2.Index/SplitWithConfig and "
            "TagArg.Parse/Set/Add/formatArgType/Find/Has/IsRequired and the prop shorthand with every Go slice expression as a "
            "checked slice: totality for ALL byte strings (no Panic result is reachable), faithfulness on structured tags "
            "including bracketed groups and duplicate arguments, first-letter case-insensitive lookup - also for what the "
            "exported argument API (SetArg / AddArg) writes: one table keyed by the canonical name, Set replaces, Add appends, "
            "other names untouched -, and required=false as the only way to make a point optional; the model is tied to the "
            "code on every run by evaluating it (vm_compute) against the real NewProperty on structured tags and arbitrary "
            "byte strings (followed by sequences of argument API calls), against the real tag-scan processors and against "
            "real app.Run starts (wire / value / prop shorthand with several arguments in every order); the exported argument API of a parsed Property (SetArg / AddArg in both spellings) as op sequences against TagGrammar.apply_ops (seven theorems c19_api_*, c19_set_replaces, c19_add_*), independence of repeated parses, the prop shorthand end to end with several arguments in every order",
    "design_ref": "DESIGN.md 5 C19",
    "note": "trusted: Coq kernel + vm_compute; hand-written model of go-kid/strings2 v0.0.1 (module cache) and arg.go; "
            "strings.ToUpper of a one-byte string modelled (ASCII upper-casing, U+FFFD for a byte >= 0x80); Go harness and "
            "generators; separators are the one-byte literals the container passes",
    "technique": "Rocq proof (induction over byte lists, loop invariant of the block-aware index) + vm_compute correspondence "
                 "against the Go implementation",
}

HEADER = ("From Coq Require Import List ZArith NArith Uint63.\n"
          "From IocVerif Require Import Model.TagGrammar Corr.Check_C19.\nImport ListNotations.\n")

OPEN = b"{[("
CLOSE = b"}])"
PLAIN = b"abcdefghijklmnopqrstuvwxyzABCDEFGHIJKLMNOPQRSTUVWXYZ0123456789._-:$#/*+!?'\"|<>@%&;~^"
REQ_SPELLINGS = [b"false", b"false", b"false", b"False", b"FALSE", b"0", b"f", b"no", b"true", b"", b"{false}", b"(false)",
                 b"falsee", b"fals"]
NAME_POOL = [b"required", b"Required", b"qualifier", b"Qualifier", b"mapper", b"timeLayout", b"validate", b"x", b"y",
             b"name", b"k1", b"embed", b"returns", b"a.b", b"x-y", b"n m", b" required", b"required ", b"reQuired",
             b"a\xc3\xa9", b"z\xe4\xb8\xad", b"Zed", b"R"]
# names and values the argument API is driven with
API_NAMES = [b"qualifier", b"qualifier", b"Qualifier", b"required", b"Required", b"mapper", b"Mapper", b"validate", b"x", b"X",
             b"zzNew", b"returns", b"timeLayout", b"TimeLayout"]
API_VALS = [b"prod", b"dev", b"false", b"true", b"", b"v2", b"a b", b"{x,y}", b"json", b"False", b"\xe4\xb8\xad"]
API_HOSTILE = [b"", b"", b"\xc3\xa9x", b"\xff", b"\x80q", b" qualifier", b"=", b",", b"1", b"_q"]
# arguments the container's own processors read and that are harmless on a string field, absent or bound
BENIGN_ARGS = [(b"validate", [b"omitempty"]), (b"validate", [b"omitempty", b"min=1"]), (b"validate", [b"omitempty", b"max=64"]),
               (b"mapper", [b"json"]), (b"mapper", [b"yaml"]), (b"Validate", [b"omitempty", b"min=1"])]
VALUE_POOL = [b"", b"", b"", b"comp", b"a.b.c", b"${a.b}", b"${a.b:{x,y}}", b"#{f(a, b) + g[1,2]}", b"[a,(b,c)]",
              b"hello world", b"${x:[1,2,3]}", b"{\"k\":\"v\",\"l\":[1,2]}", b"a=b", b"\xe4\xb8\xad\xe6\x96\x87", b"${a}${b}",
              b"()", b"x{}y"]


def flip_first(b):
    if not b:
        return b
    c = b[0]
    if 65 <= c <= 90:
        c += 32
    elif 97 <= c <= 122:
        c -= 32
    return bytes([c]) + b[1:]


def gen_balanced(rng, forbid, depth=0, maxlen=10, inner=False):
    """bracket-closed text; bytes of `forbid` never occur outside brackets (inside brackets anything goes)"""
    out = bytearray()
    n = rng.choice([0, 1, 1, 2, 3, 4, 6, maxlen])
    for _ in range(n):
        r = rng.random()
        if r < 0.22 and depth < 3:
            k = rng.randrange(3)
            out.append(OPEN[k])
            out += gen_balanced(rng, forbid, depth + 1, 5, True)
            # the real counter does not tell the bracket kinds apart: a few groups close with another kind
            out.append(CLOSE[k] if rng.random() < 0.93 else CLOSE[rng.randrange(3)])
        elif inner and r < 0.5:
            out.append(rng.choice(b", =,  "))
        else:
            c = rng.choice(PLAIN + b"= ,")
            if not inner and c in forbid:
                c = rng.choice(PLAIN)
            out.append(c)
    return bytes(out)


def gen_name(rng):
    r = rng.random()
    if r < 0.6:
        n = rng.choice(NAME_POOL)
    else:
        n = bytes(rng.choice(PLAIN + b" ") for _ in range(rng.randint(1, 8)))
    if rng.random() < 0.3:
        n = flip_first(n)
    return n


def gen_structured(rng, req_focus=False, e2e=None):
    """-> dict(value, args=[(name, vals)], bare=[bool], tag)"""
    if e2e == "wire":
        value = b"" if rng.random() < 0.65 else b"zz" + bytes(rng.choice(b"abcxyz09") for _ in range(rng.randint(1, 5)))
    elif e2e == "wire_type":
        value = b""
    elif e2e == "value":
        value = b"" if rng.random() < 0.5 else b"w" + bytes(rng.choice(b"abcxyzABC") for _ in range(rng.randint(1, 6)))
    elif e2e == "prop":      # the shorthand's configuration key
        value = b"pk" + bytes(rng.choice(b"abcxyz019") for _ in range(rng.randint(1, 5)))
    else:
        value = rng.choice(VALUE_POOL) if rng.random() < 0.6 else gen_balanced(rng, b",")
    nargs = rng.choice([0, 1, 1, 2, 2, 3, 4, 5])
    if (req_focus or e2e) and nargs == 0:
        nargs = 1
    args = []
    bare = []
    for j in range(nargs):
        if (req_focus or e2e) and (j == 0 or rng.random() < 0.3):
            name = rng.choice([b"required", b"required", b"Required", b"required", b" required", b"required ",
                               b"reQuired", b"REQUIRED", b"require", b"requiredd"])
            k = rng.choice([1, 1, 1, 2, 3])
            vals = [rng.choice(REQ_SPELLINGS) for _ in range(k)]
        else:
            name = gen_name(rng)
            if e2e:
                while name.strip().lower() in (b"qualifier", b"mapper", b"timelayout", b"validate", b"embed", b"returns"):
                    name = b"x" + name
            k = rng.choice([1, 1, 1, 2, 2, 3, 4])
            vals = []
            for _ in range(k):
                r = rng.random()
                if r < 0.25:
                    vals.append(rng.choice(REQ_SPELLINGS))
                elif r < 0.35:
                    vals.append(b"")
                else:
                    vals.append(gen_balanced(rng, b", ", maxlen=8))
        if e2e in ("value", "prop") and j > 0 and rng.random() < 0.3:
            name, vals = rng.choice(BENIGN_ARGS)
            vals = list(vals)
        args.append((name, vals))
        bare.append(vals == [b""] and rng.random() < 0.5)
    if e2e and len(args) > 1 and rng.random() < 0.6:
        # the Required argument anywhere: first, in the middle, last
        order = list(range(len(args)))
        rng.shuffle(order)
        args = [args[j] for j in order]
        bare = [bare[j] for j in order]
    # duplicates (exact or with the first letter's case flipped): later ones must override
    dupable = [j for j in range(len(args)) if not (e2e and args[j][0].lower() in (b"validate", b"mapper"))]
    if dupable and rng.random() < 0.3:
        j = rng.choice(dupable)
        nm = args[j][0] if rng.random() < 0.5 else flip_first(args[j][0])
        vals = [rng.choice(REQ_SPELLINGS + [b"v2"]) for _ in range(rng.choice([1, 2]))]
        pos = rng.randint(j + 1, len(args))
        args.insert(pos, (nm, vals))
        bare.insert(pos, False)
    return {"value": value, "args": args, "bare": bare, "tag": render(value, args, bare)}


def render(value, args, bare=None):
    out = bytearray(value)
    for j, (name, vals) in enumerate(args):
        out += b","
        out += name
        if not (bare and bare[j]):
            out += b"=" + b" ".join(vals)
    return bytes(out)


HOT = b",,,,===  {}[]()(){}"


def gen_arbitrary(rng, flavour):
    if flavour == "uniform":
        return bytes(rng.randrange(256) for _ in range(rng.choice([0, 1, 2, 3, 5, 8, 13, 21, 40])))
    if flavour == "hot":
        n = rng.choice([0, 1, 2, 3, 4, 5, 6, 8, 10, 14, 20, 30, 60]) if rng.random() < 0.97 else rng.randint(60, 300)
        alpha = HOT + b"abxyR" + bytes([0, 0x80, 0xc3, 0xa9, 0xff, 0xe4])
        return bytes(rng.choice(alpha) for _ in range(n))
    if flavour == "tiny":   # exhaustive-ish small alphabet, short strings: every loop path of Index
        alpha = b",()a= "
        return bytes(rng.choice(alpha) for _ in range(rng.randint(0, 7)))
    if flavour == "mutated":
        s = bytearray(gen_structured(rng, rng.random() < 0.3)["tag"])
        for _ in range(rng.choice([1, 1, 2, 3])):
            r = rng.random()
            if s and r < 0.4:
                del s[rng.randrange(len(s))]
            elif r < 0.8:
                s.insert(rng.randint(0, len(s)), rng.choice(HOT + bytes([0x80, 0xff, 0xc3])))
            elif s:
                s[rng.randrange(len(s))] = rng.randrange(256)
        return bytes(s)
    if flavour == "hostile_names":   # structured shape, names that start with a non-ASCII / invalid byte or are empty
        value = rng.choice(VALUE_POOL)
        segs = []
        for _ in range(rng.randint(1, 4)):
            first = rng.choice([b"", b"\xc3\xa9", b"\xc5\xa9", b"\xff", b"\x80", b"\xe4\xb8\xad", b"\xc3", b"\x00", b"\x7f", b"{", b")"])
            name = first + bytes(rng.choice(b"abR") for _ in range(rng.randint(0, 3)))
            if rng.random() < 0.25:
                segs.append(name)
            else:
                segs.append(name + b"=" + b" ".join(rng.choice(REQ_SPELLINGS + [b"\xff", b"{a b}"]) for _ in range(rng.randint(1, 3))))
        return value + b"," + b",".join(segs)
    raise ValueError(flavour)


def gen_probes(rng, tag, struct):
    probes = []
    names = []
    if struct:
        names = [a[0] for a in struct["args"]]
    else:
        for seg in tag.split(b",")[1:]:
            names.append(seg.split(b"=")[0])
    rng.shuffle(names)
    for n in names[:3]:
        if not n:
            continue
        wants = [rng.choice(REQ_SPELLINGS + [b"v2"])]
        probes.append({"name": flip_first(n), "wants": wants})
        if rng.random() < 0.3:
            probes.append({"name": n, "wants": wants + [b"false"]})
    if rng.random() < 0.5:
        probes.append({"name": rng.choice([b"required", b"Required", b"absent", b"qualifier", b"\xc3\xa9", b"\xff"]),
                       "wants": [b"false"] if rng.random() < 0.7 else []})
    if rng.random() < 0.03:
        probes.append({"name": b"", "wants": []})   # API misuse: Find("") / Has("") panic in formatArgType
    return probes


def tag_names(tag, struct):
    if struct:
        return [a[0] for a in struct["args"]]
    return [seg.split(b"=")[0] for seg in tag.split(b",")[1:]]


def gen_ops(rng, tag, struct):
    """1-4 calls of the exported argument API on the parsed Property, and the lookups to make afterwards"""
    declared = [n for n in tag_names(tag, struct) if n]
    ops = []
    for _ in range(rng.choice([1, 1, 2, 2, 3, 4])):
        r = rng.random()
        if declared and r < 0.35:
            name = rng.choice(declared)
            if rng.random() < 0.5:
                name = flip_first(name)
        elif r < 0.80:
            name = rng.choice(API_NAMES)
        elif r < 0.92:
            name = gen_name(rng)
        else:
            name = rng.choice(API_HOSTILE)
        vals = [rng.choice(API_VALS) for _ in range(rng.choice([0, 1, 1, 1, 2, 3]))]
        ops.append({"k": rng.choice(["set", "add", "add"]), "via": rng.choice([0, 0, 1]), "name": name, "vals": vals})
    return ops, ops_probes(rng, ops, declared)


def ops_probes(rng, ops, declared=()):
    probes, seen = [], set()
    names = [o["name"] for o in ops] + [rng.choice([b"Required", b"required"]), rng.choice([b"Qualifier", b"qualifier"])]
    if declared:
        names.append(rng.choice(list(declared)))
    for n in names:
        for nm in (n, flip_first(n)):
            if nm in seen:
                continue
            seen.add(nm)
            wants = [rng.choice([v for o in ops for v in o["vals"]] + [b"false"])]
            probes.append({"name": nm, "wants": wants})
    return probes[:12]


KIND_NO = {"parse": 0, "scan": 1, "scan_prop": 2, "e2e_wire_missing": 3, "e2e_wire_present": 4, "e2e_value": 5,
           "e2e_prop_missing": 6, "e2e_prop_present": 7}
E2E_FLAVOUR = {"e2e_wire_missing": "wire", "e2e_wire_present": "wire_type", "e2e_value": "value", "e2e_prop_missing": "prop",
               "e2e_prop_present": "prop"}


def hex_probes(probes):
    return [{"name": p["name"].hex(), "wants": [w.hex() for w in p["wants"]]} for p in (probes or [])]


def mk_case(kind, tag, struct=None, probes=None, stream="", again=0, ops=None, oprobes=None, cfgval=None):
    c = {"kind": kind, "tag": tag.hex(), "stream": stream, "probes": hex_probes(probes)}
    if again:
        c["again"] = again
    if ops:
        c["ops"] = [{"k": o["k"], "via": o["via"], "name": o["name"].hex(), "vals": [v.hex() for v in o["vals"]]} for o in ops]
        c["oprobes"] = hex_probes(oprobes)
    if cfgval is not None:
        c["cfgval"] = cfgval.hex()
    if struct:
        c["intent"] = {"value": struct["value"].hex(), "args": [[n.hex(), [v.hex() for v in vs]] for n, vs in struct["args"]]}
    return c


def gen_cases(ctx, n_direct, n_scan, n_e2e):
    rng = ctx.rng
    cases = []
    for i in range(n_direct + n_scan):
        r = rng.random()
        struct = None
        if r < 0.50:
            struct = gen_structured(rng, rng.random() < 0.35)
            tag, stream = struct["tag"], "structured"
        else:
            stream = rng.choices(["hot", "tiny", "mutated", "hostile_names", "uniform"], [30, 15, 25, 15, 15])[0]
            tag = gen_arbitrary(rng, stream)
        if i < n_direct:
            kind = "parse"
        else:
            kind = rng.choice(["scan", "scan_prop", "scan_prop"])
        again = gen_again(rng, 0.2)
        ops, oprobes = gen_ops(rng, tag, struct) if (not again and rng.random() < 0.3) else (None, None)
        c = mk_case(kind, tag, struct, gen_probes(rng, tag, struct), stream, again, ops, oprobes)
        if kind == "scan":
            c["key"] = rng.choice(["value", "wire"])
        cases.append(c)
    for i in range(n_e2e):
        kind = rng.choice(["e2e_wire_missing", "e2e_wire_missing", "e2e_wire_present", "e2e_value", "e2e_value",
                           "e2e_prop_missing", "e2e_prop_missing", "e2e_prop_present"])
        struct = gen_structured(rng, True, e2e=E2E_FLAVOUR[kind])
        cases.append(mk_case(kind, struct["tag"], struct, [], "e2e", gen_again(rng, 0.4), cfgval=gen_cfgval(rng, kind)))
    return cases


def gen_cfgval(rng, kind):
    """kind e2e_prop_present: the plain string configured under the shorthand's key"""
    if kind != "e2e_prop_present":
        return None
    return b"cv" + bytes(rng.choice(b"abcxyzABC") for _ in range(rng.randint(1, 6)))


def config_of(c):
    """the YAML document of an e2e_prop_present case: the intended key bound to the configured string"""
    if c["kind"] != "e2e_prop_present":
        return ""
    return "%s: %s\n" % (bytes.fromhex(c["intent"]["value"]).decode(), bytes.fromhex(c["cfgval"]).decode())


def gen_again(rng, share):
    """0 = one parse; 1 = parse, scribble over the result, parse again; 2 = the same across contexts"""
    return rng.choice([1, 2]) if rng.random() < share else 0


def to_driver(c, i):
    k = c["kind"]
    d = {"id": i, "tag": c["tag"], "probes": c["probes"], "again": c.get("again", 0), "ops": c.get("ops", []),
         "oprobes": c.get("oprobes", [])}
    if k == "parse":
        d["kind"] = "parse"
    elif k in ("scan", "scan_prop"):
        d["kind"] = "scan"
        d["key"] = "prop" if k == "scan_prop" else c.get("key", "value")
    else:
        d["kind"] = "e2e"
        d["key"] = {"e2e_value": "value", "e2e_prop_missing": "prop", "e2e_prop_present": "prop"}.get(k, "wire")
        d["provider"] = k == "e2e_wire_present"
        d["config"] = config_of(c)
    return d


def s_num(n):
    if n < 255:
        return bytes([n])
    if n >= 65536:
        raise ValueError("number too large for the case format: %d" % n)
    return bytes([255, n >> 8, n & 255])


def s_bytes(hx):
    bs = bytes.fromhex(hx)
    return s_num(len(bs)) + bs


def s_list(items, f):
    return s_num(len(items)) + b"".join(f(x) for x in items)


def s_kv(kv):
    return s_bytes(kv[0]) + s_list(kv[1], s_bytes)


def s_probes(probes, outs):
    pr = list(zip(probes, outs))
    out = bytearray(s_num(len(pr)))
    for p, po in pr:
        out += s_bytes(p["name"]) + s_list(p["wants"], s_bytes) + s_num(int(po["fpanic"])) + s_num(int(po["found"]))
        out += s_list(po["vals"], s_bytes) + s_num(int(po["hpanic"])) + s_num(int(po["has"])) + s_num(int(po["hasw"]))
    return bytes(out)


def s_parse_obs(c, o):
    """what one parse reported (Check_C19.p_pobs without the leading nprops)"""
    out = bytearray()
    out += s_bytes(o["tagval"]) + s_num(1 if o["tagstr"] == o["tagval"] else 0)
    out += s_list([(a["k"], a["v"]) for a in o["args"]], s_kv) + s_num(1 if o["required"] else 0)
    out += s_probes(c["probes"], o["probes"])
    return bytes(out)


def s_op(op):
    return s_num(0 if op["k"] == "set" else 1) + s_bytes(op["name"]) + s_list(op["vals"], s_bytes)


def serialise(c, o):
    """one case + the implementation's observation as the byte stream Check_C19.p_case decodes"""
    if len(o["probes"]) != len(c["probes"]) and not o["panic"]:
        raise RuntimeError("driver returned %d probes for %d" % (len(o["probes"]), len(c["probes"])))
    out = bytearray()
    out += s_num(KIND_NO[c["kind"]]) + s_bytes(c["tag"]) + s_num(1 if o["panic"] else 0) + s_num(o["nprops"])
    out += s_parse_obs(c, o)
    out += s_num(int(o["failed"])) + s_num(int(o["fieldnil"])) + s_bytes(o["fieldstr"])
    if "intent" in c:
        out += s_num(1) + s_bytes(c["intent"]["value"]) + s_list(c["intent"]["args"], s_kv)
    else:
        out += s_num(0)
    # independence of parses: how the case was run and what the parse BEFORE the scribbling reported
    out += s_num(c.get("again", 0))
    f = o.get("first")
    if f:
        if len(f["probes"]) != len(c["probes"]):
            raise RuntimeError("driver returned %d probes for %d (first parse)" % (len(f["probes"]), len(c["probes"])))
        out += s_num(1) + s_num(f["nprops"]) + s_parse_obs(c, f)
    else:
        out += s_num(0)
    # the exported argument API: the calls, and the table the driver saw afterwards (Check_C19.p_op / p_after)
    out += s_list(c.get("ops", []), s_op)
    a = o.get("after")
    if a:
        if len(a["probes"]) != len(c.get("oprobes", [])):
            raise RuntimeError("driver returned %d probes for %d (after the API calls)" % (len(a["probes"]), len(c.get("oprobes", []))))
        out += s_num(1) + s_list([(x["k"], x["v"]) for x in a["args"]], s_kv) + s_num(1 if a["required"] else 0)
        out += s_probes(c["oprobes"], a["probes"]) + s_bytes(a["str"])
    else:
        out += s_num(0)
    out += s_bytes(c.get("cfgval", ""))
    return bytes(out)


def pack(bs):
    """byte stream -> Coq list of primitive ints, seven bytes per int under a leading 1 marker (Check_C19.B)"""
    words = []
    for i in range(0, len(bs), 7):
        v = 1
        for b in bs[i:i + 7]:
            v = v * 256 + b
        words.append(str(v))
    return "[" + ";".join(words) + "]"


def evaluate(ctx, binp, cases, tag, shard=None):
    """implementation + Coq. returns (by_id, M, V, NT ids)"""
    # the whole batch takes a few seconds; a driver that hangs (only possible on a changed tree) is reported after
    # this generous limit as "correspondence could not run"
    rc, res, raw, _loud = vlib.run_json_verbose_share(ctx, binp, {"cases": [to_driver(c, i) for i, c in enumerate(cases)]},
                                                      timeout=max(120, len(cases) // 50))
    if res is None:
        raise vlib.GoBuildError("./cmd/c19 (run)", raw[-3000:])
    outs = res["outs"]
    terms = []
    by_id = {}
    for i, (c, o) in enumerate(zip(cases, outs)):
        assert o["id"] == i
        obs = {k: o[k] for k in ("panic", "nprops", "tagval", "tagstr", "args", "required", "probes", "failed", "fieldnil",
                                 "fieldstr")}
        if o.get("first"):
            obs["first_parse_before_scribbling"] = {k: o["first"][k] for k in ("nprops", "tagval", "tagstr", "args", "required",
                                                                              "probes")}
        if o.get("after"):
            obs["after_the_api_calls"] = {k: o["after"][k] for k in ("args", "required", "probes", "str")}
        by_id[i] = {"case": c, "tag_text": bytes.fromhex(c["tag"]).decode("latin1"), "observed": obs}
        terms.append(pack(serialise(c, o)))
    # canary: a deliberately falsified observation (value part of ",x=1" reported as "!") must come back as a
    # mismatch AND a violation; otherwise the evaluation pipeline itself (serialiser, decoder, summary) is broken
    canary_c = mk_case("parse", b",x=1", {"value": b"", "args": [(b"x", [b"1"])]}, [], "canary")
    canary_o = {"panic": "", "nprops": 1, "tagval": b"!".hex(), "tagstr": b"!".hex(), "args": [{"k": b"X".hex(), "v": [b"1".hex()]}],
                "required": True, "probes": [], "failed": False, "fieldnil": False, "fieldstr": ""}
    cid = len(terms)
    terms.append(pack(serialise(canary_c, canary_o)))
    # second canary: a repeated parse whose SECOND observation is right while the first one showed another item: must be
    # reported both ways (the first observation is compared with the model, and the two with each other)
    canary2_c = mk_case("parse", b",x=1", {"value": b"", "args": [(b"x", [b"1"])]}, [], "canary", again=1)
    good = {"nprops": 1, "tagval": "", "tagstr": "", "args": [{"k": b"X".hex(), "v": [b"1".hex()]}], "required": True, "probes": []}
    canary2_o = dict(good, panic="", failed=False, fieldnil=False, fieldstr="",
                     first=dict(good, args=[{"k": b"X".hex(), "v": [b"2".hex()]}]))
    cid2 = len(terms)
    terms.append(pack(serialise(canary2_c, canary2_o)))
    # third canary: AddArg("qualifier", "prod") on a tag without arguments, the table afterwards reported with the RAW key
    # "qualifier" (so that lookups of Qualifier miss): must be reported both ways
    c3_ops = [{"k": "add", "via": 0, "name": b"qualifier", "vals": [b"prod"]}]
    canary3_c = mk_case("parse", b"nm", {"value": b"nm", "args": []}, [], "canary", 0, c3_ops,
                        [{"name": b"Qualifier", "wants": [b"prod"]}])
    miss = {"fpanic": False, "found": False, "vals": [], "hpanic": False, "has": False, "hasw": False}
    canary3_o = {"panic": "", "nprops": 1, "tagval": b"nm".hex(), "tagstr": b"nm".hex(), "args": [], "required": True, "probes": [],
                 "failed": False, "fieldnil": False, "fieldstr": "",
                 "after": {"args": [{"k": b"qualifier".hex(), "v": [b"prod".hex()]}], "required": True, "probes": [miss],
                           "str": b".qualifier(prod)".hex()}}
    cid3 = len(terms)
    terms.append(pack(serialise(canary3_c, canary3_o)))
    M, V, NT = coq_eval_local(ctx, "cases_c19_" + tag, terms, shard)
    canaries = (cid, cid2, cid3)
    for x in canaries:
        if x not in M or x not in V:
            raise vlib.CoqEvalError("cases_c19_" + tag, "canary case %d was not reported (M=%s V=%s)" % (x - cid, x in M, x in V))
    return (by_id, [i for i in M if i not in canaries], [i for i in V if i not in canaries],
            [i for i in NT if i not in canaries])


def coq_eval_local(ctx, basename, blobs, shard=None):
    """Evaluate Check_C19.summary_blobs over shards of serialised cases (ids = positions, one vm_compute pass per shard,
    no .glob files). Returns [mismatch ids, violation ids, non-trivial ids] as global positions."""
    import re
    from concurrent.futures import ThreadPoolExecutor
    ncpu = os.cpu_count() or 4
    if shard is None:
        shard = max(100, min(4000, (len(blobs) + ncpu - 1) // ncpu))
    shards = [(lo, blobs[lo:lo + shard]) for lo in range(0, len(blobs), shard)] or [(0, [])]

    def one(ix):
        lo, ts = shards[ix]
        name = "%s_%d" % (basename, ix)
        f = ctx.wpath(name + ".v")
        open(f, "w").write(HEADER + "Definition blobs : list (list int) := [\n" + ";\n".join(ts) + "\n]%uint63.\n"
                           "Definition R := Eval vm_compute in summary_blobs blobs.\nPrint R.\n")
        rc, out = vlib.sh(["coqc", "-noglob", "-Q", vlib.COQ, "IocVerif", f], cwd=ctx.work, timeout=3000)
        if rc != 0:
            raise vlib.CoqEvalError(name, out)
        flat = " ".join(out.split())
        m = re.search(r"R = \((.*)\) : ", flat)
        if not m:
            raise vlib.CoqEvalError(name, "no output for R\n" + out[-2000:])
        lists = re.findall(r"\[([^\]]*)\]", m.group(1))
        if len(lists) != 3:
            raise vlib.CoqEvalError(name, "unexpected shape of R\n" + out[-2000:])
        return [[lo + int(x) for x in re.findall(r"\d+", l)] for l in lists]

    with ThreadPoolExecutor(max_workers=min(ncpu, 16)) as ex:
        parts = list(ex.map(one, range(len(shards))))
    res = [[], [], []]
    for p in parts:
        for k in range(3):
            res[k].extend(p[k])
    return res


def h(b):
    return b.hex()


def corpus_cases():
    """canonical inputs: odd-but-agreed behaviours, every Index loop path, required spellings, the prop shorthand"""
    cs = []

    def parse(tag, probes=(), struct=None, kind="parse", key=None):
        c = mk_case(kind, tag, struct, [{"name": n, "wants": list(w)} for n, w in probes], "corpus")
        if key:
            c["key"] = key
        cs.append(c)

    parse(b")x,(y", [(b"y", [])])                                   # value ")x," ; argument Y
    parse(b")x,(y,z")
    parse(b"a,\xc3\xa9b=1 2,required=false", [(b"\xc3\xa9b", [b"2"]), (b"\xc5\xa9b", []), (b"Required", [b"false"])])
    parse(b"", [(b"", [])])                                          # Find("") panics (API misuse), parse does not
    parse(b",")
    parse(b",,=,= ,==")
    parse(b"a), b")
    parse(b"a(b,c")
    parse(b"}{,}{")
    parse(b"x,\xff=\xff \xfe")
    parse(b"name, required=false", [(b"required", [b"false"]), (b" required", [b"false"])])   # space kept in the name
    for sp in REQ_SPELLINGS:
        s = {"value": b"", "args": [(b"required", [sp])], "bare": [False]}
        s["tag"] = render(s["value"], s["args"])
        parse(s["tag"], [(b"Required", [b"false"])], s)
    s = {"value": b"${a.b:{x,y}}", "args": [(b"required", [b"true", b"false"]), (b"q", [b"{a b, c}", b"[1,2]"]),
                                           (b"Q", [b"z"])], "bare": [False] * 3}
    s["tag"] = render(s["value"], s["args"])
    parse(s["tag"], [(b"Q", [b"z"]), (b"q", [])], s)
    s = {"value": b"a.b:{x,y}", "args": [(b"required", [b"false"])], "bare": [False]}
    s["tag"] = render(s["value"], s["args"])
    parse(s["tag"], [], s, kind="scan_prop")
    parse(b"a.b:[1,2", kind="scan_prop")
    parse(b"k", kind="scan_prop")
    s = {"value": b"nm", "args": [(b"qualifier", [b"a", b"b"])], "bare": [False]}
    s["tag"] = render(s["value"], s["args"])
    parse(s["tag"], [], s, kind="scan", key="wire")
    for kind, val, name, vals in [("e2e_wire_missing", b"", b"required", [b"false"]),
                                  ("e2e_wire_missing", b"", b"required", [b"False"]),
                                  ("e2e_wire_missing", b"", b"Required", [b"true", b"false"]),
                                  ("e2e_wire_missing", b"zzname", b"required", [b"false"]),
                                  ("e2e_wire_missing", b"zzname", b"required", [b"0"]),
                                  ("e2e_wire_present", b"", b"required", [b"False"]),
                                  ("e2e_value", b"", b"required", [b"false"]),
                                  ("e2e_value", b"", b"required", [b"FALSE"]),
                                  ("e2e_value", b"wabc", b"x", [b"{1,2}"])]:
        s = {"value": val, "args": [(name, vals)], "bare": [False]}
        s["tag"] = render(val, s["args"])
        cs.append(mk_case(kind, s["tag"], s, [], "corpus"))
    # independence of parses: the same text parsed again after the first result was scribbled over, in every kind
    for again in (1, 2):
        for val, args in [(b"", [(b"qualifier", [b"Blue"])]), (b"x", [(b"a", [b"C", b"A", b"B"])]),
                          (b"", [(b"required", [b"false"])]), (b"nm", [(b"required", [b"true"]), (b"q", [b"{a b}", b"z"])])]:
            s = {"value": val, "args": args, "bare": [False] * len(args)}
            s["tag"] = render(val, args)
            pr = [{"name": flip_first(args[0][0]), "wants": [args[0][1][0]]}]
            cs.append(mk_case("parse", s["tag"], s, pr, "corpus", again))
            c = mk_case("scan", s["tag"], s, pr, "corpus", again)
            c["key"] = "wire"
            cs.append(c)
            cs.append(mk_case("scan_prop", s["tag"], s, pr, "corpus", again))
        cs.append(mk_case("parse", b"plain", None, [], "corpus", again))
        for kind, val, name, vals in [("e2e_wire_missing", b"", b"required", [b"false"]),
                                      ("e2e_wire_missing", b"", b"required", [b"true"]),
                                      ("e2e_wire_missing", b"zzname", b"x", [b"1"]),
                                      ("e2e_wire_present", b"", b"required", [b"true"]),
                                      ("e2e_value", b"", b"required", [b"false"]),
                                      ("e2e_value", b"", b"required", [b"true"]),
                                      ("e2e_value", b"wabc", b"x", [b"{1,2}"])]:
            s = {"value": val, "args": [(name, vals)], "bare": [False]}
            s["tag"] = render(val, s["args"])
            cs.append(mk_case(kind, s["tag"], s, [], "corpus", again))
    # the exported argument API on a parsed Property: Set / Add under the tag spelling and the canonical one, on tags that do
    # and do not declare the argument, observed under both spellings
    import random
    r0 = random.Random(19)
    api_tags = [(b"", []), (b"nm", []), (b"nm", [(b"required", [b"false"])]), (b"", [(b"qualifier", [b"dev"])]),
                (b"nm", [(b"Qualifier", [b"a", b"b"]), (b"x", [b"1"])]), (b"${a.b:{x,y}}", [(b"mapper", [b"json"])])]
    for val, args in api_tags:
        st = {"value": val, "args": args, "bare": [False] * len(args)}
        st["tag"] = render(val, args)
        for name in (b"qualifier", b"Qualifier", b"required", b"x", b"mapper"):
            for k in ("add", "set"):
                ops = [{"k": k, "via": 0, "name": name, "vals": [b"prod"] if name != b"required" else [b"false"]}]
                for kind, key in (("parse", None), ("scan", "wire"), ("scan_prop", None)):
                    if kind != "parse" and (k, name) not in (("add", b"qualifier"), ("set", b"required"), ("add", b"x")):
                        continue
                    c = mk_case(kind, st["tag"], st, [], "corpus", 0, ops, ops_probes(r0, ops, [a[0] for a in args]))
                    if key:
                        c["key"] = key
                    cs.append(c)
        ops = [{"k": "add", "via": 1, "name": b"qualifier", "vals": [b"prod"]}, {"k": "add", "via": 0, "name": b"Qualifier", "vals": [b"dev", b"qa"]},
               {"k": "set", "via": 1, "name": b"x", "vals": []}, {"k": "add", "via": 0, "name": b"", "vals": [b"lost"]}]
        cs.append(mk_case("parse", st["tag"], st, [], "corpus", 0, ops, ops_probes(r0, ops)))
    # the prop shorthand end to end with two or more arguments in every order, key absent / present
    extra = [(b"validate", [b"omitempty", b"min=1"]), (b"mapper", [b"json"]), (b"x", [b"1", b"2"])]
    for reqv in (b"false", b"true"):
        orders = [[(b"required", [reqv])] + extra[:1], extra[:1] + [(b"required", [reqv])],
                  extra[:1] + [(b"required", [reqv])] + extra[1:2], extra + [(b"required", [reqv])],
                  [(b"required", [reqv])] + extra, extra[2:] + [(b"Required", [reqv])] + extra[:2]]
        for args in orders:
            for kind in ("e2e_prop_missing", "e2e_prop_present", "e2e_value"):
                st = {"value": b"" if kind == "e2e_value" else b"pk.tmo" if args[0][0] == b"x" else b"pktmo", "args": args,
                      "bare": [False] * len(args)}
                st["tag"] = render(st["value"], args)
                if kind == "e2e_prop_present" and b"." in st["value"]:
                    continue
                cs.append(mk_case(kind, st["tag"], st, [], "corpus", 0, cfgval=b"cvalue" if kind == "e2e_prop_present" else None))
                if kind == "e2e_prop_missing":
                    cs.append(mk_case("scan_prop", st["tag"], st, [], "corpus"))
    d = os.path.join(vlib.VERIF, "corpus", "C19")
    for f in sorted(glob.glob(os.path.join(d, "*.json"))):
        j = json.load(open(f))
        for c in (j if isinstance(j, list) else [j]):
            c = c.get("case", c)
            if "kind" in c and "tag" in c:
                c.setdefault("probes", [])
                c.setdefault("stream", "corpus")
                cs.append(c)
    return cs


def bucket(n, steps=(0, 1, 2, 4, 8, 16, 32, 64, 128)):
    b = 0
    for s in steps:
        if n >= s:
            b = s
    return b


def distribution(cases, by_id, d=None):
    """measured input distribution; pass the previous result as `d` to accumulate over batches"""
    if d is None:
        d = {"kinds": {}, "streams": {}, "tag_len_buckets": {}, "observed_args": {}, "intended_args": {},
             "with_brackets": 0, "unbalanced_brackets": 0, "non_ascii_bytes": 0, "invalid_utf8": 0,
             "with_duplicate_names": 0, "bracketed_value_with_separator_inside": 0, "required_false_observed": 0,
             "probes": 0, "probes_first_letter_flipped_found": 0, "empty_name_segments": 0, "implementation_panics": 0,
             "argument_api_after_the_parse": {"cases": 0, "calls": {"set": 0, "add": 0}, "via": {"Property.SetArg/AddArg": 0, "Args().Set/Add": 0},
                                              "calls_on_a_name_the_tag_declares": 0, "calls_on_a_name_the_tag_does_not_declare": 0,
                                              "calls_in_tag_spelling(lower-case first letter)": 0, "calls_with_empty_or_non_ascii_name": 0,
                                              "add_of_qualifier_on_a_tag_without_one": 0, "lookups_after_the_calls": 0,
                                              "lookups_found": 0},
             "app_run_tags": {"with_two_or_more_arguments": 0, "required_argument_not_first": 0, "prop_shorthand": 0,
                              "prop_shorthand_two_or_more_arguments_key_absent_optional": 0, "with_validate_or_mapper": 0},
             "parsed_again_after_scribbling": {"cases": 0, "by_kind_and_mode(1 same context, 2 other context)": {},
                                               "with_at_least_one_argument_to_overwrite": 0,
                                               "first_observations_compared": 0}}

    def inc(m, k):
        m[str(k)] = m.get(str(k), 0) + 1

    for i, c in enumerate(cases):
        t = bytes.fromhex(c["tag"])
        o = by_id[i]["observed"]
        inc(d["kinds"], c["kind"] + ("/" + c["key"] if "key" in c else ""))
        inc(d["streams"], c["stream"])
        inc(d["tag_len_buckets"], bucket(len(t)))
        inc(d["observed_args"], min(len(o["args"]), 6))
        if any(x in t for x in OPEN + CLOSE):
            d["with_brackets"] += 1
            depth, bad = 0, False
            for x in t:
                if x in OPEN:
                    depth += 1
                elif x in CLOSE:
                    depth -= 1
                    bad = bad or depth < 0
            if bad or depth != 0:
                d["unbalanced_brackets"] += 1
        if any(x >= 0x80 for x in t):
            d["non_ascii_bytes"] += 1
            try:
                t.decode("utf-8")
            except UnicodeDecodeError:
                d["invalid_utf8"] += 1
        if b",," in t or b",=" in t or t.endswith(b","):
            d["empty_name_segments"] += 1
        if "intent" in c:
            names = [bytes.fromhex(n) for n, _ in c["intent"]["args"]]
            inc(d["intended_args"], len(names))
            up = [flip_first(n) if n[:1].islower() else n for n in names]
            if len(set(up)) < len(up):
                d["with_duplicate_names"] += 1
            vals = [bytes.fromhex(v) for _, vs in c["intent"]["args"] for v in vs] + [bytes.fromhex(c["intent"]["value"])]
            if any((b"," in v or b" " in v) and any(x in v for x in OPEN) for v in vals):
                d["bracketed_value_with_separator_inside"] += 1
        if not o["required"] and c["kind"] in ("parse", "scan", "scan_prop"):
            d["required_false_observed"] += 1
        d["probes"] += len(o["probes"])
        d["probes_first_letter_flipped_found"] += sum(1 for p in o["probes"] if p["found"])
        if o["panic"]:
            d["implementation_panics"] += 1
        if c.get("ops"):
            ap = d["argument_api_after_the_parse"]
            ap["cases"] += 1
            declared = set()
            for a in o["args"]:
                declared.add(bytes.fromhex(a["k"]))
            for op in c["ops"]:
                nm = bytes.fromhex(op["name"])
                ap["calls"][op["k"]] += 1
                ap["via"]["Args().Set/Add" if op["via"] else "Property.SetArg/AddArg"] += 1
                canon = flip_first(nm) if nm[:1].islower() else nm
                ap["calls_on_a_name_the_tag_declares" if canon in declared else "calls_on_a_name_the_tag_does_not_declare"] += 1
                if nm[:1].islower():
                    ap["calls_in_tag_spelling(lower-case first letter)"] += 1
                if not nm or nm[0] >= 0x80:
                    ap["calls_with_empty_or_non_ascii_name"] += 1
                if op["k"] == "add" and nm == b"qualifier" and b"Qualifier" not in declared:
                    ap["add_of_qualifier_on_a_tag_without_one"] += 1
            aft = o.get("after_the_api_calls")
            if aft:
                ap["lookups_after_the_calls"] += len(aft["probes"])
                ap["lookups_found"] += sum(1 for p in aft["probes"] if p["found"])
        if c["kind"].startswith("e2e") and "intent" in c:
            ar = d["app_run_tags"]
            names = [bytes.fromhex(n) for n, _ in c["intent"]["args"]]
            req_at = [j for j, n in enumerate(names) if n.strip().lower() == b"required"]
            if len(names) >= 2:
                ar["with_two_or_more_arguments"] += 1
            if req_at and req_at[0] > 0:
                ar["required_argument_not_first"] += 1
            if any(n.lower() in (b"validate", b"mapper") for n in names):
                ar["with_validate_or_mapper"] += 1
            if c["kind"].startswith("e2e_prop"):
                ar["prop_shorthand"] += 1
                if c["kind"] == "e2e_prop_missing" and len(names) >= 2 and not o["failed"]:
                    ar["prop_shorthand_two_or_more_arguments_key_absent_optional"] += 1
        if c.get("again"):
            pa = d["parsed_again_after_scribbling"]
            pa["cases"] += 1
            inc(pa["by_kind_and_mode(1 same context, 2 other context)"], "%s/%d" % (c["kind"], c["again"]))
            first = o.get("first_parse_before_scribbling")
            if first:
                pa["first_observations_compared"] += 1
            if (first and first["args"]) or ("intent" in c and c["intent"]["args"]):
                pa["with_at_least_one_argument_to_overwrite"] += 1
    return d


def shrink_candidates(c):
    """smaller variants of a failing case (structured: drop arguments / values; otherwise: drop bytes)"""
    out = []
    if "intent" in c:
        v = bytes.fromhex(c["intent"]["value"])
        args = [(bytes.fromhex(n), [bytes.fromhex(x) for x in vs]) for n, vs in c["intent"]["args"]]
        variants = []
        for j in range(len(args)):
            variants.append((v, args[:j] + args[j + 1:]))
            if len(args[j][1]) > 1:
                variants.append((v, args[:j] + [(args[j][0], args[j][1][1:])] + args[j + 1:]))
                variants.append((v, args[:j] + [(args[j][0], args[j][1][:-1])] + args[j + 1:]))
        if len(v) > 1 and not c["kind"].startswith("e2e"):
            variants.append((b"", args))
        for vv, aa in variants:
            s = {"value": vv, "args": aa, "bare": [False] * len(aa)}
            s["tag"] = render(vv, aa)
            n = mk_case(c["kind"], s["tag"], s, [], c.get("stream", ""), c.get("again", 0))
            n["probes"] = c["probes"]
            for k in ("key", "ops", "oprobes", "cfgval"):
                if k in c:
                    n[k] = c[k]
            out.append(n)
    else:
        t = bytes.fromhex(c["tag"])
        cuts = [t[:len(t) // 2], t[len(t) // 2:]] if len(t) > 3 else []
        cuts += [t[:j] + t[j + 1:] for j in range(min(len(t), 40))]
        for tt in cuts:
            n = dict(c, tag=tt.hex())
            out.append(n)
        if c["probes"]:
            out.append(dict(c, probes=[]))
    if c.get("again") == 2:
        out.append(dict(c, again=1))
    ops = c.get("ops", [])
    if len(ops) > 1:
        for j in range(len(ops)):
            out.append(dict(c, ops=ops[:j] + ops[j + 1:]))
    if ops and len(c.get("oprobes", [])) > 2:
        out.append(dict(c, oprobes=c["oprobes"][:2]))
        out.append(dict(c, oprobes=c["oprobes"][2:]))
    return out


def case_key(c):
    return hash((c["kind"], c.get("key", ""), c["tag"], c.get("again", 0), json.dumps(c.get("ops", []), sort_keys=True),
                 c.get("cfgval", "")))


def case_weight(c):
    return len(c.get("ops", [])) * 100 + len(c.get("oprobes", []))


BATCH = 60000   # cases per driver process / Coq evaluation round (bounds memory in the thorough tier)


def run(ctx):
    static_ok = vlib.static_obligations(ctx)
    binp = vlib.go_build(ctx, "./cmd/c19")
    nd, ns, ne = (20000, 1800, 200) if ctx.quick() else (400000, 30000, 3000)
    corpus = corpus_cases()
    ncorpus = len(corpus)
    if ctx.replay:
        r = json.load(open(ctx.replay))
        rc_ = r.get("case", {}).get("case")
        plan = [("replay", [rc_] if rc_ else corpus, (0, 0, 0))]
    else:
        nb = max(1, (nd + ns + ne + BATCH - 1) // BATCH)
        plan = []
        for k in range(nb):
            share = tuple(x // nb + (1 if k < x % nb else 0) for x in (nd, ns, ne))
            plan.append(("b%d" % k, corpus if k == 0 else [], share))
        if not ctx.quick():
            # model validation on a small space, exhaustively: every string over , ( ) a = and space up to length 7
            # (every path through the Index loop, balanced or not); the theorems do not depend on it
            import itertools

            def small_chunk(lo, hi):
                def make():
                    it = itertools.chain.from_iterable(itertools.product(b",()a= ", repeat=n) for n in range(8))
                    return [mk_case("parse", bytes(t), None, [{"name": b"A", "wants": [b"a"]}], "exhaustive_small")
                            for t in itertools.islice(it, lo, hi)]
                return make
            nsmall = sum(6 ** n for n in range(8))
            for lo in range(0, nsmall, BATCH):
                plan.append(("exh%d" % (lo // BATCH), small_chunk(lo, min(nsmall, lo + BATCH)), (0, 0, 0)))
    keep = {}            # global case id -> description; only failing cases and samples are kept
    M, V = [], []
    total = nt_total = e2e_total = 0
    seen, seen_nt = set(), set()
    dist = None
    samples = []
    for bi, (tag, cases, share) in enumerate(plan):
        cases = list(cases() if callable(cases) else cases) + (gen_cases(ctx, *share) if any(share) else [])
        by_id, m, v, nt = evaluate(ctx, binp, cases, tag)
        dist = distribution(cases, by_id, dist)
        for i, c in enumerate(cases):
            seen.add(case_key(c))
        for i in nt:
            seen_nt.add(case_key(cases[i]))
        for i in set(m) | set(v):
            keep[total + i] = by_id[i]
        M += [total + i for i in m]
        V += [total + i for i in v]
        ids = sorted(by_id)
        if bi == 0:
            samples += [by_id[i] for i in ids[:2]] + [by_id[i] for i in ids[ncorpus:ncorpus + 2]]
        if bi == len(plan) - 1:
            samples += [by_id[i] for i in ids[-2:]]
        nt_total += len(nt)
        e2e_total += sum(1 for c in cases if c["kind"].startswith("e2e"))
        total += len(cases)
        ctx.log("batch %d/%d: cases=%d nontrivial=%d mismatches=%d violations=%d" % (
            bi + 1, len(plan), len(cases), len(nt), len(m), len(v)))
    ctx.log("cases=%d (corpus %d) nontrivial=%d mismatches=%d violations=%d" % (total, ncorpus, nt_total, len(M), len(V)))
    by_id = keep
    V.sort(key=lambda i: (len(keep[i]["case"]["tag"]), i))
    M.sort(key=lambda i: (len(keep[i]["case"]["tag"]), i))

    def shrink(cur):
        for _round in range(15):
            cands = shrink_candidates(cur["case"])
            if not cands:
                return cur
            b2, _, V2, _ = evaluate(ctx, binp, cands, "shrink")
            if not V2:
                return cur
            V2.sort(key=lambda i: (len(cands[i]["tag"]), case_weight(cands[i]), i))
            if (len(cands[V2[0]]["tag"]) >= len(cur["case"]["tag"]) and cands[V2[0]]["probes"] == cur["case"]["probes"]
                    and case_weight(cands[V2[0]]) >= case_weight(cur["case"])):
                return cur
            cur = b2[V2[0]]
        return cur

    def widen():
        ctx.rng.seed(ctx.seed + 99)
        more = gen_cases(ctx, 60000, 4000, 300)
        b2, _, V2, _ = evaluate(ctx, binp, more, "widen")
        V2.sort(key=lambda i: (len(more[i]["tag"]), i))
        return [b2[i] for i in V2[:3]]

    cov = {
        "evaluations": total,
        "distinct_nontrivial": len(seen_nt),
        "rule": "tag byte strings fed to the real code: NewProperty directly (TagVal/TagStr, Args().ForEach, IsRequired, Find/Has "
                "probes with the first letter's case flipped), the real tag-scan processors on reflect.StructOf structs "
                "(prop shorthand rewrite, Required default) and real app.Run starts; streams: structured (value x 0-5 arguments x "
                "values x bracket groups x duplicates x case flips, with the generator's intended structure as oracle), and "
                "arbitrary bytes (bracket/separator-heavy, tiny alphabet, mutated structured tags, hostile names with non-ASCII / "
                "invalid UTF-8 / empty first bytes, uniform bytes); a share of every kind is run as a REPEATED parse (again = 1 | 2): "
                "parse, record, scribble over everything reachable from the result (value slices in place, SetArg / AddArg), "
                "parse the same text again in the same / another context - both observations against the model, the second "
                "against the first; a share of the direct / scan cases goes on to drive the EXPORTED ARGUMENT API on the parsed Property "
                "(Property.SetArg / AddArg, Args().Set / Add: 1-4 calls, names in tag spelling and canonical spelling, declared by the "
                "tag or not, unknown / empty / non-ASCII, 0-3 values) and observes the table again (ForEach, IsRequired, Find / Has "
                "under both spellings, Args().String()); the app.Run kinds cover wire / value / the prop shorthand (key absent and "
                "present) with 1-5 arguments in every order incl. benign validate= / mapper=; non-trivial = the tag contains a ',' or "
                "the argument API was driven; distinct = distinct (kind, key, tag bytes, again, API calls, configured value)",
        "samples": samples,
        "traces_validated_against_impl": e2e_total,
        "input_distribution": dist,
        "distinct_cases": len(seen),
        "nontrivial_cases": nt_total,
    }
    return vlib.decide(ctx, static_ok, by_id, M, V, cov, widen=widen, shrink=shrink,
                       assumptions=["strings.ToUpper on a one-byte string: ASCII upper-casing, U+FFFD for a byte >= 0x80 "
                                    "(modelled, compared on every run)",
                                    "separators are the one-byte literals \",\" \" \" \"=\" the container passes to strings2",
                                    "argument lookups with an empty name (API misuse: Find(\"\") panics in formatArgType) are "
                                    "compared with the model but not judged by the oracle",
                                    "the argument API is driven through Property.SetArg / AddArg and through the map Property.Args() hands "
                                    "out (TagArg.Set / Add); values are fresh slices per call (aliasing of caller-owned slices is not "
                                    "part of the class)",
                                    "app.Run cases of the prop shorthand configure plain lower-case keys and plain letter strings (what a "
                                    "configured value becomes on its way into the field is C17's subject)",
                                    "independence of parses is exercised within one driver process (direct parses, scans on "
                                    "fresh registries, Apps started one after the other); the scribbling uses only what a caller "
                                    "can reach through the exported API: the slices handed out by Args().ForEach / Find and "
                                    "Property.SetArg / AddArg",
                                    "the app.Run stream includes optional by-name points without a target "
                                    "(wire:\"zzname,required=false\"): on snapshot fc3b059 app.Run panicked there (nil *Meta "
                                    "left in prop.Injects), repaired in /repo by 22935a9; corpus/C19/byname_optional_missing.json "
                                    "keeps the witness"])
