"""C10 — start-up outcome independent of registration / iteration order (wiring family)."""
import copy
import json

import vlib
import wiring
from wiring import Profile

MANIFEST = {
    "level": "proof",
    "text": "the model of the repaired tree takes no enumeration-order argument at all (definition and singleton registries enumerate "
            "in name order; theorem: the outcome is a function of the component set), and every scenario is started under several "
            "registration permutations and repetitions (Go randomises map iteration natively): each run must equal the model and "
            "the runs must agree with each other; registration phase: c10_refusal_order_irrelevant (whether a component set is refused "
            "does not depend on the registration order), checked on sets with several components under one name (distinct zero-size "
            "types among them) started in every relative registration order; the EXTENDED model (Model/FactoryX.v: Init methods that look components up, post-processors that short-circuit instantiation) carries every run-level invariant family as well (Proofs/FactoryX*.v, theorems *_extended) and is what the correspondence evaluates; scenarios end with Factory.GetComponents(), are restarted on the same App value, have another App started before or in the middle, and include crowds of 24..36 instances of one type (one scenario of a run: 55..57, more than 64 singletons); some ordinary components are also (do-nothing) factory or definition-registry post-processors that look at the registry, and named and unnamed instances of one type stand side by side, callbacks fail with the component in hand, func points name methods that take parameters, two instantiations of one generic type are registered under their default names",
    "design_ref": "DESIGN.md 5 C10",
    "note": "trusted: as C01; the parallel scanning phase is covered by C20's interleaving model, here only its result is observed",
    "technique": "Rocq proof (permutation invariance of the model) + vm_compute correspondence under permuted registration orders",
}

PROFILES = [(Profile(p_wrap=0.3, n_procs=(0, 2), p_cycle_bias=0.8, p_primary=0.3, p_extra_instance=0.4, p_crowd=0.05, p_crowd_big=1.0), 130, 1200)]
# component sets in which several components announce ONE name (the start must be refused in every registration order)
SHARED_PROFILE = Profile(p_wrap=0.0, n_procs=(0, 1), n_bare=(2, 4), p_sealed=0.5, p_naming=0.7, p_extra_instance=0.3,
                         p_valid=0.8, min_types=1, max_types=4,
                         kind_weights={"ptr": 2, "iface": 3, "sptr": 1, "siface": 3, "name": 4, "any": 2, "func": 0.3, "other": 0})
REG_HEADER = ("From Coq Require Import List Arith Bool.\nFrom IocVerif Require Import Model.SingletonRegistry Corr.Check_C10reg.\n"
              "Import ListNotations.\nNotation case := dcase.\n")
OUTCOME_CODE = {"ok": 0, "err": 1, "panic": 2, "regpanic": 3}


def share_names(rng, scn):
    """Make several components of a generated scenario announce one name.  Classes:
    zz  two or more bare ZERO-SIZE types with the same constant Naming() (different components at one address)
    zs  a zero-size and a sized bare type with the same constant name
    zr  a bare zero-size type whose constant name is the custom name of an ordinary component
    rr  two ordinary components (with state) given the same custom name
    none  names stay unique (control: such a set must NOT be refused)
    Returns the class that could be built."""
    types, comps = scn["types"], scn["comps"]
    zero = [ci for ci, c in enumerate(comps) if types[c["type"]].get("bare") == "zero"]
    sized = [ci for ci, c in enumerate(comps) if types[c["type"]].get("bare") == "sized"]
    named = [ci for ci, c in enumerate(comps) if not types[c["type"]].get("bare") and types[c["type"]]["naming"]
             and c["name"] and c["proc"] is None]
    want = rng.choice(["zz", "zz", "zz", "zz", "zs", "zs", "zr", "zr", "rr", "none"])
    old = {ci: wiring.regname_of(scn, ci) for ci in range(len(comps))}

    def set_bare(ci, nm):
        t = types[comps[ci]["type"]]
        t["naming"], t["const_name"] = True, nm
        comps[ci]["name"] = nm

    def build(k):
        if k == "zz" and len(zero) >= 2:
            return rng.sample(zero, rng.randint(2, min(3, len(zero))))
        if k == "zs" and zero and sized:
            return [rng.choice(zero), rng.choice(sized)]
        if k == "zr" and zero and named:
            return [rng.choice(named), rng.choice(zero)]
        if k == "rr" and len(named) >= 2:
            return rng.sample(named, 2)
        return []

    group = []
    if want != "none":
        for k in [want, "zz", "zs", "zr", "rr"]:
            group = build(k)
            if group:
                want = k
                break
        else:
            want = "none"
    if group:
        g0 = comps[group[0]]
        nm = g0["name"] or "shared%d" % rng.randint(0, 9)
        for ci in group:
            if types[comps[ci]["type"]].get("bare"):
                set_bare(ci, nm)
            else:
                comps[ci]["name"] = nm
        # by-name points that asked for a member of the group under its former name ask for the shared name now
        renamed = {old[ci] for ci in group}
        for t in types:
            for p in t["fields"]:
                if p["sel"][0] == "name" and p["sel"][1] in renamed:
                    p["sel"] = ("name", nm)
    scn["shared"] = {"class": want, "group": group}
    return want


def registration_orders(rng, ncomps, group, cap=6):
    """registration orders of one scenario: every relative order of the components that share the name (all of them for
    groups of two or three), the bystanders shuffled around them"""
    import itertools
    rel = list(itertools.permutations(group)) if group else [()]
    rng.shuffle(rel)
    if not group:
        rel = rel * 3
    orders = []
    for r in rel[:cap]:
        order = list(range(ncomps))
        rng.shuffle(order)
        slots = [i for i, ci in enumerate(order) if ci in group]
        for sl, ci in zip(slots, r):
            order[sl] = ci
        orders.append(order)
    return orders


def projection(res):
    """order-insensitive projection of a successful start: every point's value (slices as sets), every lookup"""
    if res["outcome"] != "ok":
        return None
    fields = sorted((f["h"], f["k"], sorted((t["o"], t["p"]) for t in f["v"] or [])) for f in res.get("fields") or [])
    lks = [(lo["name"], bool(lo["panic"]), bool(lo["err"]), (lo["tok"]["o"], lo["tok"]["p"])) for lo in res.get("lookups") or []]
    return json.dumps([fields, lks], sort_keys=True)


def shared_name_stream(ctx, cov, replay_case=None):
    """the registration phase: component sets with several components under one name, started through the real App in
    every relative registration order of those components; returns (failing case descriptions, ok flag)"""
    rng = ctx.rng
    n = 100 if ctx.quick() else 800
    scns, classes = [], {}
    for i in range(0 if replay_case else n):
        s = wiring.gen_scenario(rng, i, SHARED_PROFILE)
        k = share_names(rng, s)
        classes[k] = classes.get(k, 0) + 1
        scns.append(s)
    if replay_case:
        scns = [replay_case["scenario"]]
    binp = wiring.build_batch(ctx, scns, "shared")
    facts = wiring.get_facts(ctx, binp)
    cfgs, meta = [], []
    for s in scns:
        base = wiring.runtime_cfg(s, facts, shared_names=True)
        orders = ([r["regorder"] for r in replay_case["runs"]] if replay_case
                  else registration_orders(rng, len(s["comps"]), s["shared"]["group"]))
        for order in orders:
            c = copy.deepcopy(base)
            c["regorder"], c["id"], c["trace"] = order, len(cfgs), False
            cfgs.append(c)
            meta.append(s["id"])
    results = wiring.run_batch(ctx, binp, cfgs, "shared")
    per = {}
    for c, sid in zip(cfgs, meta):
        if results.get(c["id"]) is not None:
            per.setdefault(sid, []).append((c, results[c["id"]]))
    nid, terms, by_id, outcomes, nruns = {}, [], {}, {}, 0
    for s in scns:
        runs = per.get(s["id"], [])
        if not runs:
            continue
        digests, druns = {}, []
        for c, r in runs:
            nruns += 1
            outcomes[r["outcome"]] = outcomes.get(r["outcome"], 0) + 1
            reqs = []
            for ci in c["regorder"]:
                comp = s["comps"][ci]
                cust = "(Some %d)" % nid.setdefault(comp["name"], len(nid)) if comp["name"] else "None"
                dflt = nid.setdefault("%s/%s" % (wiring.PKG, wiring.go_type_name(s["id"], comp["type"])), len(nid))
                # the registered name the model uses must be the one the implementation reports
                if (r.get("regnames") or [None] * len(s["comps"]))[ci] != wiring.regname_of(s, ci):
                    cust = "(Some %d)" % nid.setdefault("??%d" % ci, len(nid))
                reqs.append("(mkReq %d %s %d)" % (ci, cust, dflt))
            pj = projection(r)
            dg = 0 if pj is None else digests.setdefault(pj, len(digests) + 1)
            druns.append("(mkDR %s %d %d)" % (vlib.coq_list(reqs), OUTCOME_CODE.get(r["outcome"], 4), dg))
        terms.append("(mkD %d %s)" % (s["id"], vlib.coq_list(druns)))
        by_id[s["id"]] = {"scenario": s, "stream": "shared names",
                          "runs": [{"regorder": c["regorder"], "observation": r} for c, r in runs]}
    out = vlib.coq_eval_sharded(ctx, "cases_c10reg", REG_HEADER, terms,
                                {"DM": "dmismatches", "DV": "dviolations", "DNT": "dcount_nontrivial"}, shard=100)
    ctx.oblige("registration phase: refused exactly when the model's registration loop panics (every order)", not out["DM"],
               "%d disagreeing" % len(out["DM"]))
    ctx.oblige("registration phase: every registration order ends alike; a set with two components under one name is refused",
               not out["DV"], "%d failing" % len(out["DV"]))
    ctx.log("shared-name sets=%d runs=%d mismatches=%d violations=%d nontrivial=%d classes=%s outcomes=%s" % (
        len(by_id), nruns, len(out["DM"]), len(out["DV"]), sum(out["DNT"]), classes, outcomes))
    cov["shared_name_sets"] = {"scenarios": len(by_id), "runs": nruns, "nontrivial": sum(out["DNT"]), "outcomes": outcomes,
                               "failures": {"mismatch": out["DM"][:10], "oracle": out["DV"][:10]}}
    cov["input_distribution"]["shared_name_sets"] = {
        "classes": classes,
        "class_meaning": "zz: 2-3 zero-size types, one constant name; zs: zero-size + sized bare type; zr: zero-size type + "
                         "ordinary named component; rr: two ordinary components; none: unique names (control)",
        "orders_per_set": "every relative order of the components sharing the name (2 or 6), bystanders shuffled"}
    size = lambda i: (i not in out["DV"], len(by_id[i]["scenario"]["comps"]), i)
    return [by_id[i] for i in sorted(set(out["DV"] + out["DM"]), key=size)[:3]]


RULE = ("each generated scenario is started under K registration permutations x R repetitions (quick 4x2, thorough 8x3); "
        "non-trivial = the scenario has a cycle, a substituting processor or a single-valued point with >= 2 providers; "
        "plus component sets in which several components announce one name (shared_name_sets), started in every relative "
        "registration order of those components")


def run(ctx):
    static_ok = vlib.static_obligations(ctx, extra_targets=["Corr/WiringFacts.vo"])
    K, R = (4, 2) if ctx.quick() else (8, 3)
    defs = {"M": "mismatches", "V": "violations", "NT": "count_nontrivial"}

    def evaluate(scns, tag):
        for i, s in enumerate(scns):
            s["id"] = i
        binp = wiring.build_batch(ctx, scns, tag)
        facts = wiring.get_facts(ctx, binp)
        cfgs, meta = [], []
        for s in scns:
            base = wiring.runtime_cfg(s, facts)
            if base is None:
                continue
            for k in range(K):
                order = list(range(len(s["comps"])))
                if k > 0:
                    ctx.rng.shuffle(order)
                for r in range(R):
                    c = copy.deepcopy(base)
                    c["regorder"] = order
                    c["id"] = len(cfgs)
                    cfgs.append(c)
                    meta.append((s["id"], k, r))
        results = wiring.run_batch(ctx, binp, cfgs, tag)
        per = {}
        for c, (sid, k, r) in zip(cfgs, meta):
            per.setdefault(sid, []).append((c, results.get(c["id"])))
        terms, by_id = [], {}
        for s in scns:
            runs = [x for x in per.get(s["id"], []) if x[1] is not None]
            if not runs:
                continue
            term, rank, srt = wiring.coq_scenario(s, facts)
            app_rank = [rank[f["name"]] for f in facts if f["isapp"]][0]
            lk = vlib.coq_list(str(runs[0][0]["names"][n]) for n in runs[0][0]["lookups"])
            obs = [wiring.coq_obs(r, app_rank) for _, r in runs]
            terms.append("(mkP (mkW %d %s %s %s %s) %s)" % (s["id"], term, lk, obs[0], wiring.coq_extras(s, rank),
                                                               vlib.coq_list(obs[1:])))
            by_id[s["id"]] = {"scenario": s, "runs": [{"regorder": c["regorder"], "observation": r} for c, r in runs],
                              "observation": runs[0][1]}
        out = vlib.coq_eval_sharded(ctx, "cases_c10_" + tag, wiring.HEADER.replace("Notation case := wcase.\n", "") % "Corr.Check_C10",
                                    terms, defs, shard=60)
        return by_id, out, len(cfgs)

    replay_shared = None
    if ctx.replay:
        rcase = json.load(open(ctx.replay))["case"]
        scns = [rcase["scenario"]]
        if rcase.get("stream") == "shared names":
            replay_shared, scns = rcase, []
    else:
        scns = wiring.std_scenarios(PROFILES)(ctx, ctx.tier)
    if scns:
        by_id, out, nruns = evaluate(scns, "main")
    else:
        by_id, out, nruns = {}, {"M": [], "V": [], "NT": []}, 0
    M, V, nt = out["M"], out["V"], sum(out["NT"])
    st = wiring.scenario_stats(scns, by_id)
    ctx.log("scenarios=%d runs=%d mismatches=%d violations=%d nontrivial=%d outcomes=%s" % (len(by_id), nruns, len(M), len(V), nt, st["outcomes"]))
    size = lambda i: len(by_id[i]["scenario"]["comps"])
    M.sort(key=size)
    V.sort(key=size)

    def widen():
        more = wiring.std_scenarios(PROFILES)(ctx, "widen")
        b2, o2, _ = evaluate(more, "widen")
        return [b2[i] for i in sorted(o2["V"], key=lambda i: len(b2[i]["scenario"]["comps"]))[:3]]

    cov = {"evaluations": nruns, "distinct_nontrivial": min(nt, len({wiring.shape_hash(s) for s in scns})), "rule": RULE,
           "samples": [by_id[i] for i in sorted(by_id)[:1]], "traces_validated_against_impl": nruns,
           "input_distribution": st, "permutations": K, "repetitions": R, "scenarios": len(by_id)}
    reg_bad = shared_name_stream(ctx, cov, replay_shared) if (replay_shared or not ctx.replay) else []
    rc = vlib.decide(ctx, static_ok, by_id, M, V, cov, widen=widen)
    if rc == 0 and reg_bad:
        rp = vlib.write_replay(ctx, "viol", {"property": "C10", "kind": "component set under permuted registration orders "
                                                                        "(shared names)", "case": reg_bad[0]})
        vlib.violation(ctx, rp)
        return 1
    return rc
