"""C10 — start-up outcome independent of registration / iteration order (wiring family)."""
import copy
import json

import vlib
import wiring
from wiring import Profile

MANIFEST = {
    "level": "proof",
    "text": "the model of the repaired tree takes no enumeration-order argument at all (definition and singleton registries enumerate "
            "in name order; theorem: the outcome is a function of the component set), and every scenario is started under several "
            "registration permutations and repetitions (Go randomises map iteration natively): each run must equal the model and "
            "the runs must agree with each other",
    "design_ref": "DESIGN.md 5 C10",
    "note": "trusted: as C01; the parallel scanning phase is covered by C20's interleaving model, here only its result is observed",
    "technique": "Rocq proof (permutation invariance of the model) + vm_compute correspondence under permuted registration orders",
}

PROFILES = [(Profile(p_wrap=0.3, n_procs=(0, 2), p_cycle_bias=0.8, p_primary=0.3, p_extra_instance=0.4), 130, 1200)]
RULE = ("each generated scenario is started under K registration permutations x R repetitions (quick 4x2, thorough 8x3); "
        "non-trivial = the scenario has a cycle, a substituting processor or a single-valued point with >= 2 providers")


def run(ctx):
    static_ok = vlib.static_obligations(ctx, extra_targets=["Corr/WiringFacts.vo"])
    K, R = (4, 2) if ctx.quick() else (8, 3)
    defs = {"M": "mismatches", "V": "violations", "NT": "count_nontrivial"}

    def evaluate(scns, tag):
        for i, s in enumerate(scns):
            s["id"] = i
        binp = wiring.build_batch(ctx, scns, tag)
        facts = wiring.get_facts(ctx, binp)
        cfgs, meta = [], []
        for s in scns:
            base = wiring.runtime_cfg(s, facts)
            if base is None:
                continue
            for k in range(K):
                order = list(range(len(s["comps"])))
                if k > 0:
                    ctx.rng.shuffle(order)
                for r in range(R):
                    c = copy.deepcopy(base)
                    c["regorder"] = order
                    c["id"] = len(cfgs)
                    cfgs.append(c)
                    meta.append((s["id"], k, r))
        results = wiring.run_batch(ctx, binp, cfgs, tag)
        per = {}
        for c, (sid, k, r) in zip(cfgs, meta):
            per.setdefault(sid, []).append((c, results.get(c["id"])))
        terms, by_id = [], {}
        for s in scns:
            runs = [x for x in per.get(s["id"], []) if x[1] is not None]
            if not runs:
                continue
            term, rank, srt = wiring.coq_scenario(s, facts)
            app_rank = [rank[f["name"]] for f in facts if f["isapp"]][0]
            lk = vlib.coq_list(str(rank[n]) for n in runs[0][0]["lookups"])
            obs = [wiring.coq_obs(r, app_rank) for _, r in runs]
            terms.append("(mkP (mkW %d %s %s %s %s) %s)" % (s["id"], term, lk, obs[0], wiring.coq_extras(s, rank),
                                                               vlib.coq_list(obs[1:])))
            by_id[s["id"]] = {"scenario": s, "runs": [{"regorder": c["regorder"], "observation": r} for c, r in runs],
                              "observation": runs[0][1]}
        out = vlib.coq_eval_sharded(ctx, "cases_c10_" + tag, wiring.HEADER.replace("Notation case := wcase.\n", "") % "Corr.Check_C10",
                                    terms, defs, shard=60)
        return by_id, out, len(cfgs)

    if ctx.replay:
        scns = [json.load(open(ctx.replay))["case"]["scenario"]]
    else:
        scns = wiring.std_scenarios(PROFILES)(ctx, ctx.tier)
    by_id, out, nruns = evaluate(scns, "main")
    M, V, nt = out["M"], out["V"], sum(out["NT"])
    st = wiring.scenario_stats(scns, by_id)
    ctx.log("scenarios=%d runs=%d mismatches=%d violations=%d nontrivial=%d outcomes=%s" % (len(by_id), nruns, len(M), len(V), nt, st["outcomes"]))
    size = lambda i: len(by_id[i]["scenario"]["comps"])
    M.sort(key=size)
    V.sort(key=size)

    def widen():
        more = wiring.std_scenarios(PROFILES)(ctx, "widen")
        b2, o2, _ = evaluate(more, "widen")
        return [b2[i] for i in sorted(o2["V"], key=lambda i: len(b2[i]["scenario"]["comps"]))[:3]]

    cov = {"evaluations": nruns, "distinct_nontrivial": min(nt, len({wiring.shape_hash(s) for s in scns})), "rule": RULE,
           "samples": [by_id[i] for i in sorted(by_id)[:1]], "traces_validated_against_impl": nruns,
           "input_distribution": st, "permutations": K, "repetitions": R, "scenarios": len(by_id)}
    return vlib.decide(ctx, static_ok, by_id, M, V, cov, widen=widen)
