"""C01 — one shared instance per component (wiring family: generated Go types run through the real container vs Model/Factory.v)."""
import wiring
from wiring import Profile

MANIFEST = {
    "level": "proof",
    "text": 'theorems over the factory model: every version held by any holder is the published version of its component and equals the by-name lookup; correspondence compares event log, every field and every lookup of real starts with the model, and the oracle re-checks the property on the observed wiring; the EXTENDED model (Model/FactoryX.v: Init methods that look components up, post-processors that short-circuit instantiation) carries every run-level invariant family as well (Proofs/FactoryX*.v, theorems *_extended) and is what the correspondence evaluates; scenarios end with Factory.GetComponents(), are restarted on the same App value, have another App started before or in the middle, and include crowds of 24..36 instances of one type; some ordinary components are also (do-nothing) factory or definition-registry post-processors that look at the registry, and named and unnamed instances of one type stand side by side, callbacks fail with the component in hand, func points name methods that take parameters, two instantiations of one generic type are registered under their default names',
    "design_ref": "DESIGN.md 5 C01, 4.3, Appendix A/D",
    "note": "trusted: Coq kernel + vm_compute; hand-written model (Model/Resolve.v, Factory.v, App.v) tied to the code by exact "
            "comparison of event log, wiring and lookups on generated scenarios; Python generator/Go code generator/wx runtime; "
            "Go reflect and runtime; user callbacks are total functions of the scenario (re-entrant Init lookups and short-circuits are the extras of Model/FactoryX.v)",
    "technique": "Rocq proof over the Factory/Resolve model + vm_compute correspondence on generated wiring scenarios",
}

PROFILES = [(Profile(p_wrap=0.25), 270, 3200), (Profile(p_wrap=0.3, n_procs=(1, 2), p_lazy=0.3, p_init=0.8, p_initget=0.4, p_short=0.3), 80, 800), (Profile(p_wrap=0.0, max_types=8, fields=(1, 5), p_cycle_bias=0.8), 250, 3000)]

RULE = 'generated component graphs (by-type, interface, slice, by-name, qualified, func edges; cycles; lazy; optional; wrapping processors); non-trivial = successful start in which some component is held through >= 2 points; distinct = distinct scenario shapes'


def run(ctx):
    return wiring.run_family(ctx, "Corr.Check_C01", wiring.std_scenarios(PROFILES), RULE)
