"""C01 — one shared instance per component (wiring family)."""
import vlib
import wiring


def run(ctx):
    static_ok = vlib.static_obligations(ctx)
    pf = wiring.Profile(p_wrap=0.3, n_procs=(0, 2))
    n = 600 if ctx.quick() else 3000
    scns = [wiring.gen_scenario(ctx.rng, i, pf) for i in range(n)]
    by_id, out, facts = wiring.evaluate(ctx, scns, "main", "Corr.Check_C01",
                                        {"M": "mismatches", "V": "violations", "NT": "count_nontrivial"})
    ctx.log("cases=%d mismatches=%s violations=%s nontrivial=%d" % (len(by_id), out["M"][:20], out["V"][:20], sum(out["NT"])))
    oc = {}
    for c in by_id.values():
        oc[c["observation"]["outcome"]] = oc.get(c["observation"]["outcome"], 0) + 1
    ctx.log("outcomes", oc)
    return 0
