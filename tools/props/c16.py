"""C16 - placeholders resolve to the configured value, else the default, and terminate.

Correspondence streams (all through harness/cmd/c16, every case in a child process with a time limit,
so that a hang is the outcome `hang` of one case):
  direct   el.NewQuote()/NewExpr().ReplaceAllContent on generated texts with a table-driven callback
  e2e      real App.Run, one component with one tagged field (value / prop / prefix / wire), RawLoader config
  strconv  strconv2.ParseAny / FormatAny against Model/Strconv.v
  format   values read back from the real Configure: validates the generator's path -> value table and format_any
  hist     ONE Configure over time: (resolve | Configure.Set | Configure.Get)* - the same placeholders resolved before and
           after a Set on the same key (any letter case), on a parent path, on a child path; through the real ${} processor
           called directly, through a new App.Run per resolution on the shared Configure, or for successive components of
           one App.Run; model = Model/ConfigStore.v (vget / vset, viper's override and config registers)

Facts probe (every run): `value:"${k}"` with `k: 1000000.0` through a real App.Run; the TagVal right after the ${} processor
tells which variant of the callback the tree has - "1e+06" (strconv2.FormatAny, unrepaired) or "1000000" (repair D-C17g,
strconv.FormatFloat(f,'f',-1,64)).  The model (Placeholder.resolve fx) is evaluated for that variant; any third answer
fails the check (no-failing-input-found).
"""
import json
import os
import re

import vlib

MANIFEST = {
    "level": "proof",
    "text": "Rocq theorems over Model/Placeholder.v + Model/Strconv.v for all tag texts / tag ASTs and all configurations: "
            "one step replaces the leftmost innermost placeholder in place (strings.Replace hits the match), by the configured "
            "value when present else the default; the loop computes the denotation of the tag AST; it terminates (budget after "
            "repair D-C16, naturally when values carry no '{' or no '$'); the unrepaired loop diverges (refuted witness). Tied to "
            "the code on every run by vm_compute correspondence against el.ReplaceAllContent, strconv2 and real App.Run starts. "
            "The callback's rendering of a value is a parameter fx of the model (false: strconv2.FormatAny; true: repair D-C17g, "
            "a float64 in plain digits); all theorems hold for both, the variant of the tree is read off the running code each run; histories of resolve / Configure.Set / Get on one configuration store (Model/ConfigStore.v, c16_history_*, c16_set_then_*); braces that belong to no placeholder",
    "design_ref": "DESIGN.md 5 C16",
    "note": "trusted: Coq kernel + vm_compute; hand-written model of el.go, the ${} callback, strconv2.ParseAny/FormatAny "
            "(fragment predicate text_in_fragment); Go driver with child processes; Python generators; the facts probe that "
            "selects the variant of the ${} callback (one real App.Run); Configure.Get is "
            "represented by a path->value table built by the generator and validated against the real Configure each run",
    "technique": "Rocq proof (induction over byte lists / nested tag AST, fuel discharged by the budget) + vm_compute correspondence",
}

KF_DIR = os.path.join(vlib.VERIF, "known_findings.d")


def _load_known(pid):
    """known_findings.json plus the per-property files under known_findings.d/ (merged later by the coordinator)."""
    res = []
    p = os.path.join(vlib.VERIF, "known_findings.json")
    if os.path.exists(p):
        res += json.load(open(p)).get("findings", [])
    if os.path.isdir(KF_DIR):
        for f in sorted(os.listdir(KF_DIR)):
            if f.endswith(".json"):
                res += json.load(open(os.path.join(KF_DIR, f))).get("findings", [])
    seen = set()
    out = []
    for f in res:
        if f["id"] in seen:
            continue
        seen.add(f["id"])
        if pid in f.get("properties", [f.get("property")]):
            out.append(f)
    return out


vlib.load_known = _load_known

# ------------------------------------------------------------------------------------------------
# values (generator side).  None | bool | int | ("dec", m, e) | str | list | dict


def hx(b):
    if isinstance(b, str):
        b = b.encode("utf-8", "surrogateescape")
    return b.hex()


def unhx(h):
    return bytes.fromhex(h or "")


def norm_dec(m, e):
    if m == 0:
        return ("dec", 0, 0)
    while m % 10 == 0:
        m //= 10
        e += 1
    return ("dec", m, e)


def dec_text(m, e):
    """a YAML/JSON float literal for m*10^e that always contains a '.'"""
    s = str(abs(m))
    if e >= 0:
        body = s + "0" * e + ".0"
    else:
        k = -e
        if len(s) <= k:
            s = "0" * (k - len(s) + 1) + s
        body = s[:-k] + "." + s[-k:]
    return ("-" if m < 0 else "") + body


def cfg_json(v):
    if v is None:
        return "null"
    if v is True:
        return "true"
    if v is False:
        return "false"
    if isinstance(v, int):
        return str(v)
    if isinstance(v, tuple):
        return dec_text(v[1], v[2])
    if isinstance(v, str):
        return json.dumps(v)
    if isinstance(v, list):
        return "[" + ",".join(cfg_json(x) for x in v) + "]"
    return "{" + ",".join(json.dumps(k) + ": " + cfg_json(x) for k, x in v.items()) + "}"


def coq_b(b):
    if isinstance(b, str):
        b = b.encode("utf-8", "surrogateescape")
    return "[" + ";".join(str(x) for x in b) + "]%N"


def coq_val(v):
    if v is None:
        return "VNull"
    if v is True:
        return "(VBool true)"
    if v is False:
        return "(VBool false)"
    if isinstance(v, int):
        return "(VInt (%d)%%Z)" % v
    if isinstance(v, tuple):
        return "(VDec (%d)%%Z (%d)%%Z)" % (v[1], v[2])
    if isinstance(v, (str, bytes)):
        return "(VStr %s)" % coq_b(v)
    if isinstance(v, list):
        return "(VList [" + "; ".join(coq_val(x) for x in v) + "])"
    return "(VMap [" + "; ".join("(%s, %s)" % (coq_b(k), coq_val(x)) for k, x in v.items()) + "])"


def obs_val(o):
    """Val JSON from the driver -> generator-side value (strings as bytes)"""
    t = o["t"]
    if t == "null":
        return None
    if t == "bool":
        return bool(o.get("b", False))
    if t == "int":
        return int(o["n"])
    if t == "float":
        mant, ex = o["n"].split("e")
        neg = mant.startswith("-")
        mant = mant.lstrip("+-")
        if "." in mant:
            i, f = mant.split(".")
        else:
            i, f = mant, ""
        m = int(i + f)
        if neg:
            m = -m
        return norm_dec(m, int(ex) - len(f))
    if t == "str":
        return unhx(o.get("s", ""))
    if t == "list":
        return [obs_val(x) for x in o.get("l") or []]
    if t == "map":
        return {unhx(k): obs_val(x) for k, x in o.get("m") or []}
    return ("other", o.get("s"))


def same_val(a, b):
    """generator value (str) vs observed value (bytes)"""
    if isinstance(a, str):
        a = a.encode()
    if isinstance(a, list):
        return isinstance(b, list) and len(a) == len(b) and all(same_val(x, y) for x, y in zip(a, b))
    if isinstance(a, dict):
        return isinstance(b, dict) and len(a) == len(b) and all(
            k.encode() in b and same_val(x, b[k.encode()]) for k, x in a.items())
    if isinstance(a, bool) or isinstance(b, bool) or a is None or b is None:
        return a is b
    return a == b


def prune(v):
    """viper.AllSettings drops nil leaves and maps without leaves (lists are leaves)"""
    if isinstance(v, dict):
        r = {}
        for k, x in v.items():
            if x is None:
                continue
            if isinstance(x, dict):
                x = prune(x)
                if not x:
                    continue
            r[k] = x
        return r
    return v


def flatten(tree):
    """path -> value as Configure.Get sees it (maps by key, lists by index)"""
    tbl = {}

    def go(prefix, v):
        if isinstance(v, dict):
            for k, x in v.items():
                p = prefix + "." + k if prefix else k
                tbl[p] = x
                go(p, x)
        elif isinstance(v, list):
            for i, x in enumerate(v):
                p = prefix + "." + str(i)
                tbl[p] = x
                go(p, x)

    go("", tree)
    tbl[""] = prune(tree)
    return tbl


# ------------------------------------------------------------------------------------------------
# generators

WORDS = ["dev", "local", "prod", "api", "h1", "x", "yz", "node-1", "a_b", "v2", "Q"]
KEYS = ["a", "b", "c", "env", "host", "port", "name", "k1"]
CANON_DEFAULTS = ["d", "local", "8080", "1.5", "true", "false", "http://h:80/p", "-3", "0", "a b", "x:y", "0.25", "999999",
                  "[1,2]", "[]", "[\"a\",\"b\"]", "z.", "$", "a$", "1e5", "#"]
NONCANON = [("007", "a"), ("1.10", "a"), ("+5", "a"), ("1000000", "a"), ("00", "a"), ("0.50", "a"), ("-01", "a"),
            ("12345678", "a"), ("0.00001", "a"),
            ("TRUE", "b"), ("False", "b"), ("tRuE", "b"),
            ("'q'", "c"), ("\"q\"", "c"), ("''", "c"), ("'a b'", "c"),
            ("[a,b]", "d"), ("[1, 2]", "d"), ("map[a:b]", "d"), ("map[]", "d"), ("[ ]", "d"), ("[x]", "d"),
            ("'", "e"), ("\"", "e")]


# float64 values on which %v and FormatFloat(f,'f',-1,64) differ (exponent form from 1e6 on and below 1e-4), with
# the boundaries on both sides; at most 15 significant digits (Model/Strconv.v dec_ok)
BIG_SMALL = [(1, 6), (1, 7), (25, 5), (-1, 6), (1234567, 0), (1234567895, -1), (-1234567895, -1), (1, 15), (123456789012345, 0),
             (123456789012345, 3), (1, 20), (1, 21), (1, 22), (-5, 21), (12, 20), (999999, 0), (9999995, -1), (1, -4), (1, -5),
             (-1, -5), (5, -7), (25, -6), (123, -9), (1, -10), (99999, -9), (123456789012345, -20), (1, 100), (1, -100)]


def gen_float_case(rng, cid):
    """e2e: float64 values of large / small magnitude under known keys, placeholders that use them (plain, with a default,
    as a parsed default, nested in a default, inside longer text)"""
    tree = {}
    keys = ["f%d" % i for i in range(rng.randint(1, 4))]
    for k in keys:
        tree[k] = norm_dec(*rng.choice(BIG_SMALL))
    if rng.random() < 0.4:
        tree["m"] = {"x": norm_dec(*rng.choice(BIG_SMALL)), "l": [norm_dec(*rng.choice(BIG_SMALL)), 1]}
        keys += ["m.x", "m.l.0"]
    if rng.random() < 0.3:
        tree["w"] = rng.choice(WORDS)
        keys.append("w")
    ast = []
    for _ in range(rng.randint(1, 3)):
        r = rng.random()
        k = rng.choice(keys)
        if r < 0.45:
            node = ["ph", [["lit", k]]]
        elif r < 0.6:
            node = ["ph", [["lit", k + ":" + rng.choice(["d", "7", "1000000"])]]]
        elif r < 0.8:
            # an absent key whose default is a number text that ParseAny reads as a float64
            m, e = rng.choice(BIG_SMALL)
            node = ["ph", [["lit", "nope:" + dec_text(m, e)[:-2 if e >= 0 else None]]]]
        else:
            node = ["ph", [["lit", "nope:"], ["ph", [["lit", k]]]]]
        if rng.random() < 0.5:
            ast.append(["lit", rng.choice(["p", "x ", "=", "v:"])])
        ast.append(node)
    if rng.random() < 0.3:
        ast.append(["lit", rng.choice(["q", " y", "."])])
    tagkey = rng.choices(["value", "prop", "prefix"], [6, 2, 1])[0]
    ftype = rng.choice(["string", "string", "any", "int", "strs"])
    if tagkey == "prop":
        ph = [p for p in ast if p[0] == "ph"][0]
        ast = [ph]
        text = render(ph[1])
    else:
        text = render(ast)
    if tagkey == "prefix":
        ftype = rng.choice(["string", "any"])
    args = rng.choice(["", ",required=false", ",required=false"])
    return {"id": cid, "kind": "e2e", "sig": "$", "config": cfg_json(tree), "tree": tree, "tagkey": tagkey,
            "tagtext": hx(text + args), "ftype": ftype, "deps": [], "ast": ast, "stream": "floats", "noncanon": None}


def gen_tree(rng, with_ph=True, circ=False):
    """a configuration tree with lower-case keys"""

    def scalar(depth):
        r = rng.random()
        if r < 0.40:
            w = rng.choice(WORDS)
            if with_ph and rng.random() < 0.35:
                k = rng.choice(KEYS + ["nope"])
                w = rng.choice(["", w]) + "${" + k + rng.choice(["", "", ":" + rng.choice(CANON_DEFAULTS[:8])]) + "}" + rng.choice(["", w])
            return w
        if r < 0.55:
            return rng.choice([0, 1, 7, -3, 8080, 65535, 1000000, 123456789, 2 ** 31, -2 ** 63, 2 ** 63 - 1, 2 ** 53, 99999])
        if r < 0.65:
            return norm_dec(*rng.choice([(15, -1), (25, -2), (-5, -1), (1, -3), (123456, -2), (1, 6), (314159, -5), (1, -5)] + BIG_SMALL))
        if r < 0.72:
            return rng.choice([True, False])
        if r < 0.78:
            return None
        if r < 0.84:
            return rng.choice([{}, []])
        if r < 0.88:
            return ""
        if r < 0.94 or depth >= 2:
            return [rng.choice([1, 2, "a", "b c", True, norm_dec(15, -1)]) for _ in range(rng.randint(1, 3))]
        return {rng.choice(KEYS): scalar(depth + 1) for _ in range(rng.randint(1, 3))}

    tree = {}
    for _ in range(rng.randint(0, 6)):
        k = rng.choice(KEYS)
        if rng.random() < 0.3:
            sub = tree.get(k) if isinstance(tree.get(k), dict) else {}
            sub[rng.choice(KEYS + WORDS[:4])] = scalar(1)
            if rng.random() < 0.3:
                sub[rng.choice(WORDS[:4])] = {rng.choice(KEYS): scalar(2)}
            tree[k] = sub
        else:
            tree[k] = scalar(0)
    if circ:
        kind = rng.choice(["self", "mutual", "three", "grow", "selfdef"])
        if kind == "self":
            tree["a"] = rng.choice(["${a}", "x${a}", "${a}y", "${a:zz}"])
        elif kind == "mutual":
            tree["a"], tree["b"] = "${b}", rng.choice(["${a}", "p${a}q"])
        elif kind == "three":
            tree["a"], tree["b"], tree["c"] = "${b}", "${c}", "${a}"
        elif kind == "grow":
            tree["a"] = "${a}${a}"
        else:
            tree["a"] = "${${a}}"
    return tree


def all_paths(tree):
    return [p for p in flatten(tree) if p]


def gen_lit(rng, allow_colon=True):
    alpha = "abcxyz019._-/ " + ("::" if allow_colon else "") + "$"
    n = rng.choice([0, 1, 1, 2, 3, 5])
    return "".join(rng.choice(alpha) for _ in range(n))


def gen_ph(rng, paths, depth, defaults):
    """a placeholder node: ["ph", [parts]]; parts are ["lit", text] or ph nodes"""
    parts = []
    r = rng.random()
    if depth < 2 and r < 0.25:
        # nested in the key:  prefix ${inner} suffix
        if paths and rng.random() < 0.6:
            # try to build a path out of pieces: a.${env}.host style
            p = rng.choice(paths)
            segs = p.split(".")
            i = rng.randrange(len(segs))
            pre = ".".join(segs[:i]) + ("." if i else "")
            post = ("." if i + 1 < len(segs) else "") + ".".join(segs[i + 1:])
            inner = ["ph", [["lit", rng.choice(["nope", "zz", "env"]) + ":" + segs[i]]]] if rng.random() < 0.6 else gen_ph(rng, paths, depth + 1, defaults)
            parts = [["lit", pre], inner, ["lit", post]]
        else:
            parts = [["lit", gen_lit(rng, False)], gen_ph(rng, paths, depth + 1, defaults), ["lit", gen_lit(rng, False)]]
    else:
        key = rng.choice(paths) if paths and rng.random() < 0.6 else rng.choice(KEYS + ["nope", "zz", "a.nope", "", "a.", "k1.0"])
        parts = [["lit", key]]
    r = rng.random()
    if r < 0.45:
        d = rng.choice(defaults)
        parts.append(["lit", ":" + d])
    elif r < 0.50:
        parts.append(["lit", ":"])
    elif r < 0.58 and depth < 2:
        parts.append(["lit", ":"])
        parts.append(gen_ph(rng, paths, depth + 1, defaults))
    # merge adjacent literals
    merged = []
    for p in parts:
        if p[0] == "lit" and merged and merged[-1][0] == "lit":
            merged[-1] = ["lit", merged[-1][1] + p[1]]
        elif p[0] == "lit" and p[1] == "":
            continue
        else:
            merged.append(p)
    return ["ph", merged]


def gen_ast(rng, paths, defaults, top_lits=True):
    parts = []
    n = rng.choice([1, 1, 1, 2, 2, 3, 4])
    rep = None
    for _ in range(n):
        if top_lits and rng.random() < 0.5:
            parts.append(["lit", gen_lit(rng).replace(",", "")])
        p = gen_ph(rng, paths, 0, defaults)
        if rep is not None and rng.random() < 0.3:
            p = rep                      # repetition of the same placeholder
        rep = p
        parts.append(p)
    if top_lits and rng.random() < 0.5:
        parts.append(["lit", gen_lit(rng).replace(",", "")])
    if top_lits and rng.random() < 0.06:
        # braces that belong to no placeholder, in front of the first one (a URL template, an empty JSON object)
        parts.insert(0, ["lit", rng.choice(["/{id}?e=", "{}:", "}", "{x} ", "a}b"])])
    return [p for p in parts if not (p[0] == "lit" and p[1] == "")]


def render(parts, sig="$"):
    out = ""
    for p in parts:
        if p[0] == "lit":
            out += p[1]
        else:
            out += sig + "{" + render(p[1], sig) + "}"
    return out


def coq_ast(parts):
    return "[" + "; ".join(("Lit " + coq_b(p[1])) if p[0] == "lit" else ("Ph " + coq_ast(p[1])) for p in parts) + "]"


def ast_defaults(parts):
    """default texts written in the AST (text after the first ':' of a flat placeholder body)"""
    res = []
    for p in parts:
        if p[0] == "ph":
            body = p[1]
            if all(q[0] == "lit" for q in body):
                t = "".join(q[1] for q in body)
                if ":" in t:
                    res.append(t.split(":", 1)[1])
            res += ast_defaults(body)
    return res


def gen_direct(rng, cid):
    """raw texts over a small alphabet, both sigils, table callback (values may contain placeholders)"""
    sig = rng.choice(["$", "$", "#"])
    alpha = [sig, "{", "}", "a", "b", ":", sig + "{", sig + "{", "}", "a", "$", "#"]
    n = rng.choice([0, 1, 2, 3, 4, 6, 8, 12, 16, 24])
    s = "".join(rng.choice(alpha) for _ in range(n))
    keys = ["", "a", "b", "aa", "ab", "ba", "a:b", ":", "a:", "b:a", "bb", "a" + sig, "$", "#"]
    table = []
    for k in rng.sample(keys, rng.randint(0, len(keys))):
        r = rng.random()
        if r < 0.12:
            table.append({"k": hx(k), "r": "", "err": True})
        else:
            m = rng.choice([0, 1, 1, 2, 3, 5])
            valpha = ["a", "b", "x", ":", "a", "b"] + ([sig + "{", "}", "{", sig] if rng.random() < 0.45 else [])
            table.append({"k": hx(k), "r": hx("".join(rng.choice(valpha) for _ in range(m))), "err": False})
    return {"id": cid, "kind": "direct", "sig": sig, "s": hx(s), "table": table, "stream": "raw"}


def gen_direct_ast(rng, cid):
    """AST-built texts with a table callback whose replacement texts are brace-free: the denotational oracle applies"""
    sig = rng.choice(["$", "#"])
    ast = gen_ast(rng, ["a", "b", "a.b", "ab"], ["d", "x:y", "1"])
    table = []
    # bodies the denotation will ask for are not known in advance: offer a spread of short keys
    for k in ["a", "b", "a.b", "ab", "nope", "zz", "a:d", "b:d", "a.", "", "env", "k1", "a:x:y", "a:1", "b:1"]:
        if rng.random() < 0.7:
            table.append({"k": hx(k), "r": hx(rng.choice(["", "a", "b", "v", "a.b", "zz", ":", "a:d", "$", "x y"])), "err": rng.random() < 0.08})
    return {"id": cid, "kind": "direct", "sig": sig, "s": hx(render(ast, sig)), "table": table, "ast": ast, "stream": "ast"}


def gen_e2e(rng, cid, stream):
    circ = stream == "circ"
    tree = gen_tree(rng, with_ph=stream in ("values", "circ"), circ=circ)
    paths = all_paths(tree)
    defaults = CANON_DEFAULTS
    noncanon = None
    if stream == "noncanon":
        d, cls = rng.choice(NONCANON)
        noncanon = [d, cls]
        ast = [["ph", [["lit", rng.choice(["nope", "zz", "a.nope"]) + ":" + d]]]]
        if rng.random() < 0.4:
            ast = [["lit", rng.choice(["p", "x "])]] + ast
    elif circ:
        ast = [["ph", [["lit", rng.choice(["a", "a", "b"])]]]]
        if rng.random() < 0.3:
            ast = [["lit", "p"]] + ast + [["lit", "q"]]
    else:
        ast = gen_ast(rng, paths, defaults)
    tagkey = rng.choices(["value", "prop", "prefix", "wire"], [6, 2, 2, 1])[0]
    deps = []
    ftype = rng.choice(["string", "string", "any", "int", "strs"])
    if tagkey == "prop":
        # prop:"body,args" is rewritten to value:"${body}args"
        ph = gen_ph(rng, paths, 0, defaults) if noncanon is None and not circ else [p for p in ast if p[0] == "ph"][0]
        ast = [ph]
        text = render(ph[1])
    else:
        text = render(ast)
    if tagkey == "wire":
        ftype = "dep"
        deps = ["dep1", "dep2"]
    if tagkey == "prefix":
        ftype = rng.choice(["string", "any"])
    args = rng.choice(["", "", ",required=false", ",required=false", ",mapper=${a}"])
    return {"id": cid, "kind": "e2e", "sig": "$", "config": cfg_json(tree), "tree": tree, "tagkey": tagkey,
            "tagtext": hx(text + args), "ftype": ftype, "deps": deps, "ast": ast, "stream": stream, "noncanon": noncanon}


def gen_strconv_text(rng):
    r = rng.random()
    digs = lambda n: "".join(rng.choice("0123456789") for _ in range(n))
    if r < 0.25:
        s = rng.choice(["", "-", "+"]) + digs(rng.randint(1, 7))
        if rng.random() < 0.5:
            s += "." + digs(rng.randint(1, 5))
        return s
    if r < 0.32:
        return "".join(rng.choice([c, c.upper()]) for c in rng.choice(["true", "false", "truee", "nil", "null"]))
    if r < 0.42:
        q = rng.choice("'\"")
        return rng.choice([q, "", q]) + rng.choice(["", "a", "a b", "1", q]) + rng.choice([q, "", q])
    if r < 0.75:
        def item(d):
            x = rng.random()
            if x < 0.3:
                return rng.choice(["a", "b c", "", "x:y", "'q'", "true", "T"])
            if x < 0.55:
                return rng.choice(["1", "2.50", "-7", "007", "1e3", "0"])
            if x < 0.65 and d < 2:
                return "[" + ",".join(item(d + 1) for _ in range(rng.randint(0, 3))) + "]"
            if x < 0.75 and d < 2:
                return "map[" + " ".join(rng.choice("abk") + ":" + item(d + 1) for _ in range(rng.randint(0, 3))) + "]"
            if x < 0.85:
                return rng.choice(['"s"', '"a b"', "null", "true", '{"k":1}', '{"k":[1,"x"],"j":null}', "{a}", "(a,b)", ")a,(b", "[a", "b]"])
            return rng.choice(["<", "a&b", ">", " ", "a,b"])
        kind = rng.random()
        if kind < 0.5:
            return "[" + rng.choice(["", " "]) .join([",".join(item(0) for _ in range(rng.randint(0, 4)))]) + "]"
        if kind < 0.8:
            return "map[" + " ".join(rng.choice(["a", "b", "k1"]) + ":" + item(0) for _ in range(rng.randint(0, 4))) + "]"
        return rng.choice(['{"a":1}', '{"a": "b", "c": [1, 2.5, true, null]}', '{}', '{a:1}', '{"a":1,"a":2}', '[1, 2 ,3]',
                           '[ ]', '["x","y"]', '[1e2,-0.5,1E+2]', '[01]', '[1,]', '{"a":{"b":{"c":[]}}}', '[[],[[]]]', '[-]', '[1.]',
                           '{"k":"<&>"}', '[true,false,null]', '[tru]', 'map[a:b', 'map[]', 'map[a]', 'map[a:]', 'map[:b]'])
    alpha = "ab1.:-+'\"[]{}(), $#<"
    return "".join(rng.choice(alpha) for _ in range(rng.choice([1, 2, 3, 4, 6, 9])))



# ------------------------------------------------------------------------------------------------
# histories on one Configure: (resolve | set | get)*

HKEYS = ["server.port", "server.host", "log.level", "db.dsn", "env", "name", "a.b.c", "feature.x", "host", "port"]


def rand_case(rng, s):
    return "".join(ch.upper() if rng.random() < 0.35 else ch for ch in s)


def to_val(v):
    """generator value -> the driver's Val JSON (what is handed to Configure.Set)"""
    if v is None:
        return {"t": "null"}
    if v is True or v is False:
        return {"t": "bool", "b": v}
    if isinstance(v, int):
        return {"t": "int", "n": str(v)}
    if isinstance(v, tuple):
        return {"t": "float", "n": "%de%d" % (v[1], v[2])}
    if isinstance(v, str):
        return {"t": "str", "s": hx(v)}
    if isinstance(v, list):
        return {"t": "list", "l": [to_val(x) for x in v]}
    return {"t": "map", "m": [[hx(k), to_val(x)] for k, x in v.items()]}


def gen_set_value(rng, depth=0):
    r = rng.random()
    if r < 0.35:
        return rng.choice(WORDS[:-1] + ["gateway", "warn", "debug"])
    if r < 0.55:
        return rng.choice([0, 1, 7, -3, 8080, 9090, 65535])
    if r < 0.62:
        return norm_dec(*rng.choice([(15, -1), (25, -2), (1, 6), (1, -5), (314159, -5)]))
    if r < 0.70:
        return rng.choice([True, False])
    if r < 0.76:
        return None
    if r < 0.82:
        return rng.choice([{}, []])
    if r < 0.86:
        return ""
    if r < 0.90:
        return "${" + rng.choice(KEYS) + rng.choice(["", ":d"]) + "}"
    if r < 0.95 or depth >= 1:
        return [rng.choice([1, 2, "a", "b c", True]) for _ in range(rng.randint(1, 3))]
    return {rand_case(rng, k): gen_set_value(rng, depth + 1) for k in rng.sample(KEYS, rng.randint(1, 3))}


def gen_hist_set(rng, focus):
    f = rng.choice(focus)
    segs = f.split(".")
    r = rng.random()
    if r < 0.40 or (len(segs) == 1 and r < 0.65):
        return {"op": "set", "key": rand_case(rng, f), "val": gen_set_value(rng)}
    if r < 0.65:
        # a PARENT path gets a map that holds the rest of the key (keys in any letter case)
        i = rng.randint(1, len(segs) - 1)
        v = gen_set_value(rng, 1)
        for sg in reversed(segs[i:]):
            m = {rand_case(rng, sg): v}
            if rng.random() < 0.3:
                k2 = rng.choice(KEYS)
                if k2.lower() != sg.lower():
                    m[k2] = gen_set_value(rng, 1)
            v = m
        return {"op": "set", "key": rand_case(rng, ".".join(segs[:i])), "val": v}
    if r < 0.80:
        # a CHILD path below the key
        return {"op": "set", "key": rand_case(rng, f + "." + rng.choice(KEYS)), "val": gen_set_value(rng, 1)}
    return {"op": "set", "key": rand_case(rng, rng.choice(KEYS + HKEYS)), "val": gen_set_value(rng)}


def gen_hist(rng, cid):
    tree = gen_tree(rng, with_ph=rng.random() < 0.3) if rng.random() < 0.8 else {}
    loaders = "none" if (not tree and rng.random() < 0.7) else rng.choice(["keep", "drop", "drop"])
    mode = rng.choice(["proc", "proc", "run", "comp"])
    pool = HKEYS + [p for p in all_paths(tree) if p and all(sg for sg in p.split("."))][:8]
    focus = rng.sample(pool, rng.choice([1, 2, 2, 3]))
    paths = []
    for f in focus:
        segs = f.split(".")
        paths += [f, rand_case(rng, f), f + "." + rng.choice(KEYS)]
        if len(segs) > 1:
            paths.append(".".join(segs[:-1]))
    asts = []

    def new_ast():
        if rng.random() < 0.7:
            body = rng.choice(paths)
            r = rng.random()
            if r < 0.6:
                body += ":" + rng.choice(CANON_DEFAULTS)
            elif r < 0.7:
                body += ":"
            ast = [["ph", [["lit", body]]]]
            if rng.random() < 0.3:
                ast = [["lit", rng.choice(["p", "x ", "http://", "v="])]] + ast
            if rng.random() < 0.2:
                ast.append(["lit", rng.choice(["q", "/api", "."])])
            return ast
        return gen_ast(rng, paths, CANON_DEFAULTS)

    steps = []
    nph = rng.choice([2, 2, 3, 3, 4])
    for ph in range(nph):
        if ph == 0 and rng.random() < 0.25:
            for _ in range(rng.choice([1, 2])):
                steps.append(gen_hist_set(rng, focus))
        for _ in range(rng.choice([1, 1, 2])):
            same = bool(asts) and ph > 0 and rng.random() < 0.7
            if same:
                ast = rng.choice(asts)                      # the SAME placeholder text once more
            else:
                ast = new_ast()
                asts.append(ast)
            steps.append({"op": "resolve", "ast": ast})
            if same and rng.random() < 0.6:
                steps[-1]["again"] = True                   # ... on the same Property object (mode proc)
        if ph < nph - 1:
            for _ in range(rng.choice([1, 1, 2])):
                steps.append(gen_hist_set(rng, focus))
            if rng.random() < 0.4:
                f = rng.choice(focus)
                segs = f.split(".")
                key = rng.choice([f, rand_case(rng, f), ".".join(segs[:max(1, len(segs) - 1)])])
                steps.append({"op": "get", "key": key})
    return {"id": cid, "kind": "hist", "config": cfg_json(tree), "tree": tree, "mode": mode, "loaders": loaders,
            "steps": steps, "stream": "hist:%s/%s" % (mode, loaders)}


def retuple(x):
    """a case read back from a replay file: JSON turned the ("dec", m, e) triples into lists"""
    if isinstance(x, list):
        if len(x) == 3 and x[0] == "dec" and isinstance(x[1], int) and isinstance(x[2], int):
            return ("dec", x[1], x[2])
        return [retuple(y) for y in x]
    if isinstance(x, dict):
        return {k: retuple(v) for k, v in x.items()}
    return x


def hist_send(c):
    steps = []
    last = {}          # tag text -> index of its latest resolve step
    for ix, st in enumerate(c["steps"]):
        if st["op"] == "resolve":
            text = hx(render(st["ast"]) + ",required=false")
            steps.append({"op": "resolve", "tagtext": text,
                          "reuse": last[text] + 1 if st.get("again") and c["mode"] == "proc" and text in last else 0})
            last[text] = ix
        elif st["op"] == "set":
            steps.append({"op": "set", "key": hx(st["key"]), "val": to_val(st["val"])})
        else:
            steps.append({"op": "get", "key": hx(st["key"])})
    return {"id": c["id"], "kind": "hist", "config": c["config"], "mode": c["mode"], "loaders": c["loaders"], "steps": steps}


def hist_term(c, o, fix):
    """Coq hcase from the steps in the order they were PERFORMED; returns (term, harness problem or None)"""
    tree = "(VMap [])" if c["loaders"] == "none" else coq_val(c["tree"])
    first_ast = next((st["ast"] for st in c["steps"] if st["op"] == "resolve"), [])
    if o["outcome"] in ("hang", "crash"):
        obs = "[OResolve %s %s true %s]" % (coq_b(render(first_ast)), coq_ast(first_ast), OUTCOME[o["outcome"]])
        return "mkHCase %d %s %s %s" % (c["id"], tree, obs, "true" if fix else "false"), None
    if o["outcome"] != "done":
        return None, "history could not be set up: %s" % o.get("detail", o["outcome"])
    items = []
    problem = None
    for ix, so in zip(o.get("order") or [], o.get("steps") or []):
        if ix < 0:
            break          # the start ended after the last observed resolution was complete (a later stage failed): nothing more was performed
        st = c["steps"][ix]
        if st["op"] == "resolve":
            if so["outcome"] == "setup":
                problem = "the observer after the ${} processor never saw the field"
                break
            cin = unhx(so["tagstr"]) if so["outcome"] == "done" else render(st["ast"]).encode()
            items.append("OResolve %s %s true %s" % (coq_b(cin), coq_ast(st["ast"]), coq_outcome(so)))
        elif so["outcome"] != "done":
            problem = "Configure.%s panicked: %s" % (st["op"], so.get("detail"))
            break
        elif st["op"] == "set":
            items.append("OSet %s %s" % (coq_b(st["key"]), coq_val(st["val"])))
        else:
            v = obs_val(so["val"])
            if isinstance(v, tuple) and v[0] == "other":
                problem = "Configure.Get returned a value of type %s" % v[1]
                break
            items.append("OGet %s %s" % (coq_b(st["key"]), coq_val(v)))
    return "mkHCase %d %s [%s] %s" % (c["id"], tree, "; ".join(items), "true" if fix else "false"), problem


HHEADER = ("From Coq Require Import List NArith ZArith.\n"
           "From IocVerif Require Import Model.Strconv Model.Placeholder Model.ConfigStore Corr.Check_C16.\nImport ListNotations.\n"
           "Notation case := hcase (only parsing).\n")


def hist_corpus():
    """canonical members of the class: a placeholder resolved, a Set that concerns its key, the placeholder again"""
    lit = lambda s: ["lit", s]
    ph = lambda *p: ["ph", list(p)]
    port = [ph(lit("server.port:8080"))]
    url = [lit("http://"), ph(lit("server.host:localhost")), lit(":"), ph(lit("server.port:8080")), lit("/"), ph(lit("server.path:"))]
    cs = []
    for mode, loaders in (("proc", "none"), ("comp", "keep"), ("run", "drop")):
        tree = {} if loaders == "none" else {"endpoints": {"localhost": "local-endpoint", "gateway": "remote-endpoint"}}
        cs.append({"kind": "hist", "tree": tree, "mode": mode, "loaders": loaders, "name": "parent path set after a lookup (%s)" % mode,
                   "steps": [{"op": "resolve", "ast": port}, {"op": "resolve", "ast": url},
                             {"op": "set", "key": "server", "val": {"Host": "gateway", "port": 9090, "path": "api"}},
                             {"op": "resolve", "ast": port, "again": True}, {"op": "resolve", "ast": url, "again": True},
                             {"op": "resolve", "ast": [ph(lit("endpoints."), ph(lit("server.host:localhost")), lit(":none"))]},
                             {"op": "get", "key": "server.port"}, {"op": "get", "key": "SERVER"}]})
    level = [ph(lit("Log.Level:info"))]
    for mode, loaders in (("run", "drop"), ("proc", "keep")):
        cs.append({"kind": "hist", "tree": {"log": {"level": "warn"}}, "mode": mode, "loaders": loaders,
                   "name": "another spelling of the key (%s)" % mode,
                   "steps": [{"op": "resolve", "ast": level}, {"op": "set", "key": "log.level", "val": "debug"},
                             {"op": "resolve", "ast": level, "again": True}, {"op": "get", "key": "LOG.level"},
                             {"op": "set", "key": "LOG.LEVEL", "val": None}, {"op": "resolve", "ast": level, "again": True}]})
    whole = [ph(lit("server:none"))]
    cs.append({"kind": "hist", "tree": {"server": {"port": 1}}, "mode": "proc", "loaders": "keep", "name": "child path set after the parent was read",
               "steps": [{"op": "resolve", "ast": whole}, {"op": "set", "key": "server.host", "val": "h1"}, {"op": "resolve", "ast": whole},
                         {"op": "set", "key": "server", "val": {}}, {"op": "resolve", "ast": whole},
                         {"op": "set", "key": "server", "val": 5}, {"op": "resolve", "ast": [ph(lit("server.port:d"))]}]})
    for c in cs:
        c["config"] = cfg_json(c["tree"])
        c["stream"] = "hist:%s/%s" % (c["mode"], c["loaders"])
    return cs

# ------------------------------------------------------------------------------------------------
# corpus: canonical witnesses (defect D-C16, budget boundary, known findings), always run first

def chain_table(n, sig="$"):
    t = [{"k": hx("k%d" % i), "r": hx(sig + "{k%d}" % (i + 1)), "err": False} for i in range(n)]
    t.append({"k": hx("k%d" % n), "r": hx("end"), "err": False})
    return t


def corpus():
    cs = []
    lit = lambda s: ["lit", s]
    ph = lambda *p: ["ph", list(p)]
    # D-C16: a: "${a}" with value:"${a}", through Run and through the helper
    cs.append({"kind": "e2e", "sig": "$", "tree": {"a": "${a}"}, "tagkey": "value", "tagtext": hx("${a}"), "ftype": "string",
               "deps": [], "ast": [ph(lit("a"))], "stream": "circ", "noncanon": None, "name": "D-C16 witness"})
    cs.append({"kind": "e2e", "sig": "$", "tree": {"a": "${b}", "b": "x${a}"}, "tagkey": "prop", "tagtext": hx("a"), "ftype": "string",
               "deps": [], "ast": [ph(lit("a"))], "stream": "circ", "noncanon": None, "name": "mutually circular"})
    cs.append({"kind": "direct", "sig": "$", "s": hx("${a}"), "table": [{"k": hx("a"), "r": hx("${a}"), "err": False}], "stream": "raw"})
    cs.append({"kind": "direct", "sig": "#", "s": hx("#{a}"), "table": [{"k": hx("a"), "r": hx("x#{a}"), "err": False}], "stream": "raw"})
    # budget boundary: 1023 / 1024 substitutions succeed, 1025 exhaust the budget (after the repair)
    for n in (1022, 1023, 1024):
        cs.append({"kind": "direct", "sig": "$", "s": hx("${k0}"), "table": chain_table(n), "stream": "raw", "name": "chain %d" % (n + 1)})
    # the fixtures of /repo/unittest/configure/config_quote_test.go
    tree = {"env": "dev", "test": {"dev": {"host": "https://api.dev.go-kid.org"}, "local": {"host": "http://localhost:8080"}}}
    cs.append({"kind": "e2e", "sig": "$", "tree": tree, "tagkey": "prefix", "tagtext": hx("test.${env}.host"), "ftype": "string", "deps": [],
               "ast": [lit("test."), ph(lit("env")), lit(".host")], "stream": "ast", "noncanon": None})
    cs.append({"kind": "e2e", "sig": "$", "tree": tree, "tagkey": "prefix", "tagtext": hx("test.${env2:local}.host"), "ftype": "string", "deps": [],
               "ast": [lit("test."), ph(lit("env2:local")), lit(".host")], "stream": "ast", "noncanon": None})
    cs.append({"kind": "e2e", "sig": "$", "tree": tree, "tagkey": "value", "tagtext": hx("${test.${env}.host:none} ${test.${env3:local}.host}"),
               "ftype": "string", "deps": [], "stream": "ast", "noncanon": None,
               "ast": [ph(lit("test."), ph(lit("env")), lit(".host:none")), lit(" "), ph(lit("test."), ph(lit("env3:local")), lit(".host"))]})
    # present-but-empty map / list: the default wins (strict: the denotational oracle applies)
    cs.append({"kind": "e2e", "sig": "$", "tree": {"m": {}, "l": [], "n": None, "s": ""}, "tagkey": "value",
               "tagtext": hx("${m:dm}|${l:dl}|${n:dn}|${s:ds}|${n}|,required=false"), "ftype": "string", "deps": [], "stream": "ast",
               "noncanon": None,
               "ast": [ph(lit("m:dm")), lit("|"), ph(lit("l:dl")), lit("|"), ph(lit("n:dn")), lit("|"), ph(lit("s:ds")), lit("|"),
                       ph(lit("n")), lit("|")]})
    # ... and without a default the (empty) value itself is rendered
    cs.append({"kind": "e2e", "sig": "$", "tree": {"m": {}, "l": [], "n": None}, "tagkey": "value",
               "tagtext": hx("${m}|${l}|${n}|${m:}|,required=false"), "ftype": "string", "deps": [], "stream": "ast", "noncanon": None,
               "ast": [ph(lit("m")), lit("|"), ph(lit("l")), lit("|"), ph(lit("n")), lit("|"), ph(lit("m:")), lit("|")]})
    # split at the FIRST colon; nested default
    cs.append({"kind": "e2e", "sig": "$", "tree": {"a": {"b": "v"}}, "tagkey": "value",
               "tagtext": hx("${nope:http://h:80/p}|${a.${zz:b}:x:y}|${zz:${a.b}:w},required=false"), "ftype": "string", "deps": [],
               "stream": "ast", "noncanon": None,
               "ast": [ph(lit("nope:http://h:80/p")), lit("|"), ph(lit("a."), ph(lit("zz:b")), lit(":x:y")), lit("|"),
                       ph(lit("zz:"), ph(lit("a.b")), lit(":w"))]})
    # float64 values spliced by the ${} callback (the stage repaired by D-C17g): %v writes 1e+06 / 1e+21 / 1e-05 /
    # 1.234567895e+08, the repaired callback 1000000 / 1000000000000000000000 / 0.00001 / 123456789.5
    ftree = {"a": norm_dec(1, 6), "b": norm_dec(1, 21), "c": norm_dec(1, -5), "d": norm_dec(1234567895, -1), "e": norm_dec(999999, 0)}
    cs.append({"kind": "e2e", "sig": "$", "tree": {"a": norm_dec(1, 6)}, "tagkey": "value", "tagtext": hx("${a}"), "ftype": "string",
               "deps": [], "ast": [ph(lit("a"))], "stream": "floats", "noncanon": None, "name": "D-C17g witness: float64 1000000"})
    cs.append({"kind": "e2e", "sig": "$", "tree": ftree, "tagkey": "value", "tagtext": hx("${a}|${b}|${c}|${d}|${e}|${nope:${a}},required=false"),
               "ftype": "string", "deps": [], "stream": "floats", "noncanon": None,
               "ast": [ph(lit("a")), lit("|"), ph(lit("b")), lit("|"), ph(lit("c")), lit("|"), ph(lit("d")), lit("|"), ph(lit("e")), lit("|"),
                       ph(lit("nope:"), ph(lit("a")))]})
    cs.append({"kind": "e2e", "sig": "$", "tree": ftree, "tagkey": "prop", "tagtext": hx("b,required=false"), "ftype": "any",
               "deps": [], "ast": [ph(lit("b"))], "stream": "floats", "noncanon": None})
    # known-finding witnesses (one per class)
    for d, cls in [("007", "a"), ("1000000", "a"), ("TRUE", "b"), ("'q'", "c"), ("[a,b]", "d"), ("map[a:b]", "d"), ("'", "e")]:
        cs.append({"kind": "e2e", "sig": "$", "tree": {"a": 1}, "tagkey": "value", "tagtext": hx("${nope:%s},required=false" % d), "ftype": "string",
                   "deps": [], "ast": [ph(lit("nope:" + d))], "stream": "noncanon", "noncanon": [d, cls]})
    for c in cs:
        if c["kind"] == "e2e":
            c["config"] = cfg_json(c["tree"])
    return cs + hist_corpus() + corpus_files("C16")


def corpus_files(pid):
    """corpus/<id>/*.json: minimised past disagreements and canonical witnesses, one case per file"""
    d = os.path.join(vlib.VERIF, "corpus", pid)
    res = []
    if os.path.isdir(d):
        for f in sorted(os.listdir(d)):
            if f.endswith(".json"):
                c = json.load(open(os.path.join(d, f)))
                c["corpus_file"] = f
                res.append(c)
    return res


# ------------------------------------------------------------------------------------------------
# known-finding classes (predicates over the default text; see known_findings.d/C16.json)

# ------------------------------------------------------------------------------------------------

HEADER = ("From Coq Require Import List NArith ZArith.\n"
          "From IocVerif Require Import Model.Strconv Model.Placeholder Corr.Check_C16.\nImport ListNotations.\n")

OUTCOME = {"err": "Failed", "panic": "Panicked", "hang": "OutOfFuel", "crash": "Panicked"}


def coq_outcome(o):
    if o["outcome"] == "done":
        return "(Done %s)" % coq_b(unhx(o.get("out", "")))
    return OUTCOME.get(o["outcome"], "Failed")


def coq_table(tbl):
    return "[" + "; ".join("(%s, %s)" % (coq_b(unhx(e["k"])), "Err" if e["err"] else "Ok " + coq_b(unhx(e["r"]))) for e in tbl) + "]"


def coq_cfg(tbl):
    return "[" + "; ".join("(%s, %s)" % (coq_b(k), coq_val(v)) for k, v in tbl.items()) + "]"


def mk_term(cid, kind, sig, table, cfg, cin, ast, strict, obs, vobs, fix=False):
    return "mkCase %d %d %d%%N %s %s %s %s %s %s %s %s" % (
        cid, kind, ord(sig), table, cfg, coq_b(cin), ast, "true" if strict else "false", obs, vobs, "true" if fix else "false")


SPLICE_VARIANTS = {"1e+06": False, "1000000": True}


def probe_float_splice(ctx, binp):
    """facts: which variant of the ${} callback does the tree under test have?  One real App.Run with `k: 1000000.0` and
    a string field tagged value:"${k}"; the TagVal right after the ${} processor is read.  Returns (fix, text)."""
    probe = {"id": 1, "kind": "e2e", "sig": "$", "config": cfg_json({"k": norm_dec(1, 6)}), "tagkey": "value",
             "tagtext": hx("${k}"), "ftype": "string", "deps": []}
    rc, res, raw = vlib.run_json(binp, {"cases": [probe], "timeout_ms": 20000}, timeout=300)
    got = None
    if res is not None and len(res.get("outs") or []) == 1:
        o = res["outs"][0]
        if o.get("outcome") == "done" and o.get("preseen"):
            got = unhx(o.get("out", "")).decode("utf-8", "replace")
        else:
            got = "<outcome %s>" % o.get("outcome")
    if got not in SPLICE_VARIANTS:
        raise vlib.GoBuildError("./cmd/c16 (facts)", "value:\"${k}\" with k: 1000000.0 left TagVal %r after the ${} processor; the model "
                                "knows \"1e+06\" (strconv2.FormatAny, unrepaired callback) and \"1000000\" (repair D-C17g)" % (got,))
    return SPLICE_VARIANTS[got], got


def run_driver(ctx, binp, cases, tag):
    send = [hist_send(c) if c["kind"] == "hist" else
            {k: v for k, v in c.items() if k not in ("tree", "ast", "stream", "noncanon", "name")} for c in cases]
    rc, res, raw, _loud = vlib.run_json_verbose_share(ctx, binp, {"cases": send, "timeout_ms": 10000}, timeout=3000)
    if res is None:
        raise vlib.GoBuildError("./cmd/c16 (run %s)" % tag, raw[-3000:])
    return {o["id"]: o for o in res["outs"]}


def evaluate(ctx, binp, cases, tag):
    """returns by_id, M, V, counters"""
    outs = run_driver(ctx, binp, cases, tag)
    ctx.log("driver ran %d cases (%s)" % (len(cases), tag))
    fix = ctx.float_fix
    terms, hterms, by_id = [], [], {}
    harness_mismatch = []
    nev = 0
    next_sid = [max([c["id"] for c in cases] + [0])]      # ids of the per-key sub-cases of `format` cases
    for c in cases:
        o = outs.get(c["id"])
        if o is None:
            o = {"id": c["id"], "outcome": "crash"}
        desc = {"case": {k: v for k, v in c.items()}, "observed": {k: v for k, v in o.items() if k != "vals"}}
        kind = c["kind"]
        if kind == "direct":
            ast = c.get("ast")
            terms.append(mk_term(c["id"], 0, c["sig"], coq_table(c["table"]), "[]", unhx(c["s"]),
                                 coq_ast(ast) if ast else "[]", bool(ast), coq_outcome(o), "VNull"))
            by_id[c["id"]] = desc
            nev += 1
        elif kind == "e2e":
            tbl = flatten(c["tree"])
            if o["outcome"] == "setup" or (o["outcome"] != "hang" and o["outcome"] != "crash" and not o.get("preseen")):
                harness_mismatch.append(c["id"])
                desc["harness"] = "the observer before the ${} processor never saw the field"
                by_id[c["id"]] = desc
                continue
            if o["outcome"] in ("hang", "crash"):
                cin = render(c["ast"]) if c["tagkey"] != "prop" else "${" + unhx(c["tagtext"]).decode().split(",")[0] + "}"
                cin = cin.encode()
            else:
                cin = unhx(o.get("tagstr", ""))
            terms.append(mk_term(c["id"], 1, "$", "[]", coq_cfg(tbl), cin, coq_ast(c["ast"]), True, coq_outcome(o), "VNull", fix))
            by_id[c["id"]] = desc
            nev += 1
        elif kind == "hist":
            term, problem = hist_term(c, o, fix)
            if problem:
                harness_mismatch.append(c["id"])
                desc["harness"] = problem
            if term:
                hterms.append(term)
            by_id[c["id"]] = desc
            nev += 1
        elif kind == "strconv":
            v = obs_val(o["val"]) if o.get("val") else None
            other = isinstance(v, tuple) and v[0] == "other"
            terms.append(mk_term(c["id"], 2, "$", "[]", "[]", unhx(c["s"]), "[]", False, coq_outcome(o),
                                 "VNull" if other else coq_val(v)))
            by_id[c["id"]] = desc
            nev += 1
        elif kind == "format":
            tbl = flatten(c["tree"])
            for k, vo in zip(c["keys"], o.get("vals") or []):
                key = unhx(k).decode()
                v = obs_val(vo["val"]) if vo.get("val") else None
                want = tbl.get(key)
                next_sid[0] += 1
                sid = next_sid[0]
                d2 = {"case": {"kind": "format", "config": c["config"], "key": key}, "observed": vo, "generator_value": repr(want)}
                by_id[sid] = d2
                if isinstance(v, tuple) and v[0] == "other":
                    continue
                if not same_val(want, v):
                    harness_mismatch.append(sid)
                    d2["harness"] = "generator's path->value table differs from Configure.Get"
                terms.append(mk_term(sid, 3, "$", "[]", "[]", b"", "[]", False, coq_outcome(vo), coq_val(v)))
                nev += 1
    import random
    random.Random(len(terms)).shuffle(terms)         # spread the expensive (budget-exhausting) cases over the shards
    out = vlib.coq_eval_sharded(ctx, "cases_c16_" + tag, HEADER, terms,
                                {"M": "mismatches", "V": "violations", "NT": "count_nontrivial", "ST": "count_strict",
                                 "FR": "count_infrag", "FE": "count_float_eform", "KC": "kf_codes"}, shard=160)
    for i in range(0, len(out["KC"]) - 1, 2):
        by_id[out["KC"][i]].setdefault("used_noncanonical_default_classes", []).append(out["KC"][i + 1])
    hout = {"M": [], "V": [], "NT": [0], "ST": [0], "NR": [0]}
    if hterms:
        hout = vlib.coq_eval_sharded(ctx, "cases_c16h_" + tag, HHEADER, hterms,
                                     {"M": "hmismatches", "V": "hviolations", "NT": "hcount_nontrivial", "ST": "hcount_strict",
                                      "NR": "hcount_resolves"}, shard=60)
    M = sorted(set(out["M"]) | set(hout["M"]) | set(harness_mismatch))
    return by_id, M, out["V"] + hout["V"], {"nt": sum(out["NT"]) + sum(hout["NT"]), "strict": sum(out["ST"]), "infrag": sum(out["FR"]),
                                            "evals": nev, "eform": sum(out["FE"]), "hist_nt": sum(hout["NT"]),
                                            "hist_resolves": sum(hout["NR"]), "hist_strict": sum(hout["ST"])}


def run(ctx):
    static_ok = vlib.static_obligations(ctx)
    binp = vlib.go_build(ctx, "./cmd/c16")
    ctx.float_fix, splice = probe_float_splice(ctx, binp)
    ctx.oblige("facts: the tree's ${} callback is one of the two modelled variants (a float64 spliced as strconv2.FormatAny "
               "writes it = unrepaired, or in plain digits = repair D-C17g)", True,
               "value:\"${k}\" with k: 1000000.0 gives TagVal %r; D-C17g applied: %s" % (splice, ctx.float_fix))
    ctx.log("facts: float64 splice %r -> model variant fx=%s" % (splice, ctx.float_fix))
    rng = ctx.rng
    cases = [dict(c, id=i + 1) for i, c in enumerate(corpus())]
    gen = []
    if ctx.replay:
        r = json.load(open(ctx.replay))
        rc = r.get("case", {}).get("case")
        if rc:
            cases = [dict(retuple(rc), id=1)]
    else:
        n_raw, n_dast, n_e2e, n_sc, n_fmt = (1400, 700, 360, 800, 30) if ctx.quick() else (30000, 20000, 6000, 24000, 600)
        n_flt = 120 if ctx.quick() else 3000
        n_hist = 400 if ctx.quick() else 5000
        cid = len(cases) + 1
        for _ in range(n_raw):
            gen.append(gen_direct(rng, cid)); cid += 1
        for _ in range(n_dast):
            gen.append(gen_direct_ast(rng, cid)); cid += 1
        for i in range(n_e2e):
            stream = ["ast", "ast", "values", "values", "circ", "noncanon", "ast", "ast", "values", "noncanon"][i % 10]
            gen.append(gen_e2e(rng, cid, stream)); cid += 1
        for _ in range(n_flt):
            gen.append(gen_float_case(rng, cid)); cid += 1
        for _ in range(n_hist):
            gen.append(gen_hist(rng, cid)); cid += 1
        for _ in range(n_sc):
            gen.append({"id": cid, "kind": "strconv", "s": hx(gen_strconv_text(rng)), "stream": "strconv"}); cid += 1
        for _ in range(n_fmt):
            tree = gen_tree(rng, with_ph=True)
            keys = list(flatten(tree).keys())
            keys += [rng.choice(KEYS), "nope", "a.nope", "a.0", "k1.0"]
            gen.append({"id": cid, "kind": "format", "config": cfg_json(tree), "tree": tree, "keys": [hx(k) for k in keys],
                        "stream": "format"}); cid += 1
    # the corpus (witnesses of D-C16, budget boundary, fixtures, known findings) decides first: on a tree where a
    # witness hangs, every circular generated case would cost a full time limit
    by_id, M, V, cnt = evaluate(ctx, binp, cases, "corpus")
    hangs = [i for i in V if by_id[i].get("observed", {}).get("outcome") in ("hang", "crash")]
    ctx.log("corpus: cases=%d mismatches=%d violations=%d hangs=%d" % (len(cases), len(M), len(V), len(hangs)))
    if gen and not hangs:
        b2, M2, V2, cnt2 = evaluate(ctx, binp, gen, "main")
        by_id.update(b2)
        M, V = M + M2, V + V2
        cnt = {k: cnt.get(k, 0) + cnt2.get(k, 0) for k in set(cnt) | set(cnt2)}
        cases = cases + gen
    elif gen:
        ctx.notes.append("generated streams skipped: a corpus witness hangs on this tree")
    ctx.log("cases=%d evaluations=%d nontrivial=%d strict=%d infragment=%d float-eform=%d mismatches=%d violations=%d" % (
        len(cases), cnt["evals"], cnt["nt"], cnt["strict"], cnt["infrag"], cnt["eform"], len(M), len(V)))
    cmap = {c["id"]: c for c in cases}

    def size_of(i):
        d = by_id.get(i, {}).get("case", {})
        return len(d.get("s", "")) + len(d.get("tagtext", "")) + len(d.get("config", "")) + 50 * len(d.get("table", [])) + \
            sum(40 + len(json.dumps(st)) for st in d.get("steps", []))

    V.sort(key=size_of)
    M.sort(key=size_of)

    KF = {1: "KF-C16a", 2: "KF-C16b", 3: "KF-C16c", 4: "KF-C16d", 5: "KF-C16e"}

    def classify_known(desc):
        """a violation of the literal reading is a known finding iff the model (which encodes the ParseAny/FormatAny
        renormalisation of defaults) agrees with the observation and the non-canonical default texts that were used
        (computed in Coq along the model's run: Check_C16.kf_codes) all fall in ONE listed class"""
        c = desc.get("case", {})
        if c.get("kind") != "e2e" or c.get("id") in M:
            return None
        obs = desc.get("observed", {})
        if obs.get("outcome") in ("hang", "crash"):
            return None
        classes = set(desc.get("used_noncanonical_default_classes", []))
        if obs.get("outcome") == "panic":
            return "KF-C16e" if 5 in classes else None
        if len(classes) == 1:
            return KF.get(classes.pop())
        return None

    def widen():
        found = []
        for extra in range(1, 4):
            import random
            r2 = random.Random(ctx.seed * 7919 + extra)
            more = []
            cid = 1
            for _ in range(1500):
                more.append(gen_direct(r2, cid)); cid += 1
            for i in range(300):
                more.append(gen_e2e(r2, cid, ["ast", "values", "circ"][i % 3])); cid += 1
            for i in range(300):
                more.append(gen_hist(r2, cid)); cid += 1
            b2, _, V2, _ = evaluate(ctx, binp, more, "widen%d" % extra)
            found = [b2[i] for i in V2 if not classify_known(b2[i])]
            if found:
                break
        return found[:3]

    def shrink(desc):
        cur = desc
        if desc.get("observed", {}).get("outcome") in ("hang", "crash"):
            return desc                  # every still-hanging candidate would cost a full time limit
        for _round in range(12):
            c = cur["case"]
            cands = []
            if c["kind"] == "direct":
                t = c["table"]
                cands += [dict(c, table=t[:i] + t[i + 1:]) for i in range(len(t))]
                s = unhx(c["s"])
                cands += [dict(c, s=hx(s[:i] + s[i + 1:]), ast=None) for i in range(len(s))]
            elif c["kind"] == "e2e":
                tree = c["tree"]
                for k in list(tree):
                    t2 = {a: b for a, b in tree.items() if a != k}
                    cands.append(dict(c, tree=t2, config=cfg_json(t2)))
            elif c["kind"] == "hist":
                st = c["steps"]
                cands += [dict(c, steps=st[:i] + st[i + 1:]) for i in range(len(st))
                          if any(x["op"] == "resolve" for x in st[:i] + st[i + 1:])]
                if c["mode"] != "proc":
                    cands.append(dict(c, mode="proc"))
                tree = c["tree"]
                for k in list(tree):
                    t2 = {a: b for a, b in tree.items() if a != k}
                    cands.append(dict(c, tree=t2, config=cfg_json(t2)))
            cands = [dict(x, id=i + 1) for i, x in enumerate(cands)][:60]
            if not cands:
                return cur
            b2, _, V2, _ = evaluate(ctx, binp, cands, "shrink")
            V2 = [i for i in V2 if not classify_known(b2[i])]
            if not V2:
                return cur
            cur = b2[V2[0]]
        return cur

    streams = {}
    for c in cases:
        k = c["kind"] + ":" + c.get("stream", "") + (":" + c["tagkey"] if c["kind"] == "e2e" else "")
        streams[k] = streams.get(k, 0) + 1
    outcomes = {}
    for i, d in by_id.items():
        oc = d.get("observed", {}).get("outcome")
        outcomes[oc] = outcomes.get(oc, 0) + 1
    nontriv_hashes = set()
    for c in cases:
        if c["kind"] == "direct" and unhx(c["s"]).count(b"{") >= 2:
            nontriv_hashes.add(vlib.stable_hash([c["sig"], c["s"], c["table"]]))
        elif c["kind"] == "hist":
            ops = [st["op"] for st in c["steps"]]
            if "set" in ops and "resolve" in ops[ops.index("set"):] and "resolve" in ops[:len(ops) - ops[::-1].index("set")]:
                nontriv_hashes.add(vlib.stable_hash([c["config"], c["mode"], c["loaders"], c["steps"]]))
        elif c["kind"] == "e2e" and by_id.get(c["id"], {}).get("observed", {}).get("tagstr") is not None and \
                unhx(by_id[c["id"]]["observed"].get("tagstr", "")).count(b"{") >= 2:
            nontriv_hashes.add(vlib.stable_hash([c["config"], c["tagkey"], c["tagtext"]]))
    samples = [by_id[i] for i in sorted(by_id) if by_id[i].get("case", {}).get("kind") == "e2e"][:2]
    samples += [by_id[i] for i in sorted(by_id) if by_id[i].get("case", {}).get("stream") == "raw"][-2:]
    samples += [by_id[i] for i in sorted(by_id) if by_id[i].get("case", {}).get("kind") == "hist"][-1:]
    hstat = {"histories": 0, "steps": {"resolve": 0, "set": 0, "get": 0}, "resolve_mode": {}, "loaders": {},
             "resolutions_on_the_Property_object_of_an_earlier_resolution_of_the_same_text(mode proc)": 0,
             "... with a Set in between": 0,
             "a_placeholder_text_resolved_again_after_a_Set": 0, "Set_on": {"the_key_itself": 0, "a_parent_path(map value)": 0,
                                                                          "a_child_path": 0, "key_spelled_with_upper_case": 0}}
    for c in cases:
        if c["kind"] != "hist":
            continue
        hstat["histories"] += 1
        hstat["resolve_mode"][c["mode"]] = hstat["resolve_mode"].get(c["mode"], 0) + 1
        hstat["loaders"][c["loaders"]] = hstat["loaders"].get(c["loaders"], 0) + 1
        seen_texts, set_since, again = {}, False, False
        keys_looked = set()
        for st in c["steps"]:
            hstat["steps"][st["op"]] += 1
            if st["op"] == "resolve":
                t = render(st["ast"])
                if st.get("again") and c["mode"] == "proc" and t in seen_texts:
                    hstat["resolutions_on_the_Property_object_of_an_earlier_resolution_of_the_same_text(mode proc)"] += 1
                    hstat["... with a Set in between"] += 1 if seen_texts[t] else 0
                if t in seen_texts and seen_texts[t]:
                    again = True
                seen_texts[t] = False
                for m in re.findall(r"\$\{([^${}:]+)", t):
                    keys_looked.add(m.lower())
            elif st["op"] == "set":
                for t in seen_texts:
                    seen_texts[t] = True
                k = st["key"].lower()
                if k != st["key"]:
                    hstat["Set_on"]["key_spelled_with_upper_case"] += 1
                if k in keys_looked:
                    hstat["Set_on"]["the_key_itself"] += 1
                if any(x.startswith(k + ".") for x in keys_looked) and isinstance(st["val"], dict):
                    hstat["Set_on"]["a_parent_path(map value)"] += 1
                if any(k.startswith(x + ".") for x in keys_looked):
                    hstat["Set_on"]["a_child_path"] += 1
        hstat["a_placeholder_text_resolved_again_after_a_Set"] += 1 if again else 0
    cov = {
        "evaluations": cnt["evals"],
        "distinct_nontrivial": min(cnt["nt"], len(nontriv_hashes)),
        "rule": "direct: el.NewQuote/NewExpr.ReplaceAllContent on raw texts over {sigil,{,},a,b,:} with table callbacks whose values may "
                "contain placeholders (circular, growing), and on rendered tag ASTs (nesting, repetition, defaults); e2e: App.Run with one "
                "tagged field (value/prop/prefix/wire) and a RawLoader configuration whose values may contain placeholders or be circular; "
                "hist: one Configure through (resolve | Configure.Set | Configure.Get)* with the real ${} processor (called directly / a new "
                "App.Run per resolution on the shared Configure / successive components of one App.Run), non-trivial = resolve, Set, resolve; "
                "non-trivial = the text handed to the loop contains at least two '{' (several placeholders or nesting); distinct = distinct "
                "(text, table) resp. (configuration, tag); strict = cases on which the denotational oracle applied",
        "samples": samples,
        "traces_validated_against_impl": sum(1 for c in cases if c["kind"] == "e2e"),
        "input_distribution": {"streams": streams, "outcomes": outcomes, "histories_on_one_Configure": hstat},
        "history_resolutions": cnt.get("hist_resolves", 0),
        "history_resolutions_under_the_denotational_oracle": cnt.get("hist_strict", 0),
        "nontrivial_histories(resolve, Set, resolve)": cnt.get("hist_nt", 0),
        "nontrivial_cases": cnt["nt"],
        "denotational_oracle_applied": cnt["strict"],
        "strconv_cases_in_fragment": cnt["infrag"],
        "callback_variant": {"float_splice_probe": splice, "D-C17g_applied": ctx.float_fix},
        "e2e_cases_splicing_a_float64_in_exponent_range": cnt["eform"],
    }
    return vlib.decide(ctx, static_ok, by_id, M, V, cov, classify_known=classify_known, widen=widen, shrink=shrink,
                       assumptions=["Configure.Get is represented by a path->value table computed by the generator from its own tree "
                                    "(lower-case keys), validated against the real Configure on the `format` stream of this run",
                                    "histories: Configure.Get / Configure.Set are the model's vget / vset (Model/ConfigStore.v: viper's override and "
                                    "config registers); Set values are nil, bool, int, float64, string, []any, map[string]any; keys are non-empty, "
                                    "segments do not start with a sign; the empty path (AllSettings) is not looked up in histories",
                                    "regexp (RE2) on the two placeholder patterns is re-implemented as a byte scanner and compared",
                                    "substitution budget of the repaired code: 1024 (boundary cases 1023/1024/1025 in the corpus)",
                                    "the variant of the ${} callback (float64 spliced by strconv2.FormatAny or, after D-C17g, in plain digits) "
                                    "is decided by one probe run per check run; a third behaviour fails the check"])
