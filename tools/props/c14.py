"""C14 — Close reaches every closer exactly once and waits for all of them.

Real App.Close over generated closer sets (0-50 closers, failing subsets, blocking closers; closers of distinct
ZERO-SIZE types, which all share one address, and struct-plus-its-first-field pairs, which share one too, mixed with
ordinary ones); Close is invoked after Run returned, or WHILE Run is still inside callRunners (an ApplicationRunner that
serves until a closer's Close / the driver releases it; a server component that is runner and closer at once), or BY an
ApplicationRunner from inside its Run(), or SEVERAL TIMES, the calls overlapping (mode "overlap": 2-3 calls of App.Close on one
App, every later one issued while a gate closer of the earlier ones is still blocked inside its Close(); every call has to
invoke every closer once itself and to wait for its own invocations; model: Model/ConcMulti.v, independent instances of the
Close phase; acceptor multi_accepts = an interleaving of accepted single-call histories); every run yields a sequenced event history that must be accepted by the model's trace acceptor (Conc.close_accepts, which replays it
with the model's own `step`) and must satisfy the property oracle.  Nothing depends on wall-clock ordering."""
import json

import vlib

MANIFEST = {
    "level": "proof",
    "text": "Rocq theorems over Model/Conc.v (small-step interleaving semantics; Close = Add n; go 1..n; Wait) for all n, "
            "all failing subsets, all schedules: c14_waits (called exactly once, returned, both before Close returns), "
            "c14_at_most_once, c14_isolation (main and thread i alone can always reach call_i), c14_no_deadlock, c14_zero; "
            "tied to app.go on every run by replaying sequenced event histories of the real App.Close (blocking and "
            "failing closers, closers of distinct zero-size types and struct-plus-first-field closers that share one address, "
            "GOMAXPROCS 1/2/default; Close invoked after Run returned, while Run is still inside callRunners with a blocking "
            "runner, and by a runner itself) through the model's executable trace acceptor (vm_compute); overlapping Close calls on one App (Model/ConcMulti.v, product of independent close programs: c14_overlapping_closes, c14_overlapping_at_most_once, c14_overlapping_no_deadlock, acceptor multi_accepts exact) and closers handed over through app.Settings next to run options; closers that hold the App (created before it, found in creation by its closer list)",
    "design_ref": "DESIGN.md 5 C14",
    "note": "modelled, not verified: Go scheduler, sync.WaitGroup, go statement; the theorems cover all interleavings of the "
            "modelled atomic steps; a panicking closer is outside the property (it kills the process)",
    "technique": "Rocq proof (induction over traces, conservation/WaitGroup-balance invariant) + vm_compute trace acceptance "
                 "of histories recorded from the Go implementation",
}

HEADER = ("From Coq Require Import List Arith Bool.\nFrom IocVerif Require Import Model.Conc Model.ConcMulti Corr.Check_C14.\n"
          "Import ListNotations.\n")
OUTCOME = {"ok": 0, "hang": 1, "stalled": 2, "panic": 3, "runerr": 3}
N_ZERO_TYPES = 16   # len(zeroTypes) in harness/cmd/c14/zero.go


def gen_shapes(rng, n):
    """How every closer is laid out (see harness/cmd/c14/main.go): "P" ordinary pointer; "Zk" pointer to the k-th zero-size
    type (all such pointers are ONE address; at most one closer per type, two would be the same component); "O:j" a struct
    whose first field is the closer of slot j (shape "I"), both registered: one address again.  Slot order = registration
    order, so the first field is registered before or after its struct."""
    shapes = ["P"] * n
    if n < 2:
        if n == 1 and rng.random() < 0.3:
            shapes[0] = "Z%d" % rng.randrange(N_ZERO_TYPES)
        return shapes
    prof = rng.choice(["plain", "zero", "zero", "pair", "pair", "mixed", "mixed", "allzero", "nonstruct", "holders"])
    if prof == "plain":
        return shapes
    if prof == "holders":
        # "A": a closer that holds the App (wire:"" *app.App) - created before the App, which then finds it in creation
        return ["A" if rng.random() < 0.5 else "P" for _ in range(n)]
    if prof == "nonstruct":
        return ["N%d" % rng.randrange(3) if rng.random() < 0.6 else "P" for _ in range(n)]
    slots = list(range(n))
    rng.shuffle(slots)
    nz = npair = 0
    if prof == "allzero":
        nz = min(n, N_ZERO_TYPES)
    elif prof == "zero":
        nz = rng.randint(2, min(n, N_ZERO_TYPES))
    elif prof == "pair":
        npair = rng.randint(1, max(1, min(n // 2, 4)))
    else:
        npair = rng.randint(1, max(1, min((n - 1) // 2, 3)))
        nz = rng.randint(1, max(1, min(n - 2 * npair, N_ZERO_TYPES)))
    types = rng.sample(range(N_ZERO_TYPES), nz)
    for t in types:
        shapes[slots.pop()] = "Z%d" % t
    for _ in range(npair):
        if len(slots) < 2:
            break
        o, i = slots.pop(), slots.pop()
        shapes[o], shapes[i] = "O:%d" % i, "I"
    # closers whose type is not a struct at all (named int / slice / channel)
    for s in slots:
        if rng.random() < 0.25:
            shapes[s] = "N%d" % rng.randrange(3)
    return shapes


def shared_address_groups(shapes):
    """sizes of the groups of closers of one case that live at one address (only groups of two or more)"""
    nz = sum(1 for s in shapes if s.startswith("Z"))
    return ([nz] if nz >= 2 else []) + [2 for s in shapes if s.startswith("O:")]


def drop_slot(c, r):
    """the case without closer r (shrinking): the partner of a struct/first-field pair becomes an ordinary closer"""
    shapes = list(c.get("shapes") or ["P"] * c["n"])
    if shapes[r].startswith("O:"):
        shapes[int(shapes[r][2:])] = "P"
    out = []
    for i, s in enumerate(shapes):
        if i == r:
            continue
        if s.startswith("O:"):
            j = int(s[2:])
            s = "P" if j == r else "O:%d" % (j - 1 if j > r else j)
        out.append(s)
    c = dict(c, n=c["n"] - 1, kinds=c["kinds"][:r] + c["kinds"][r + 1:], fails=c["fails"][:r] + c["fails"][r + 1:],
             shapes=out)
    if c.get("via_global"):
        c["via_global"] = c["via_global"][:r] + c["via_global"][r + 1:]
    if c.get("mode"):   # the runner / the releasing closer that went away: the runner becomes a component of its own,
        slot, rel = c["runner_slot"], c["rel_by"]   # released by the driver
        c["runner_slot"] = -1 if slot == r else (slot - 1 if slot > r else slot)
        c["rel_by"] = 0 if rel == r + 1 else (rel - 1 if rel > r + 1 else rel)
    return c


def gen_case(rng, cid, maxn):
    r = rng.random()
    if r < 0.08:
        n = 0
    elif r < 0.75:
        n = rng.randint(1, min(8, maxn))
    else:
        n = rng.randint(1, maxn)
    prof = rng.choice(["mix", "mix", "allF", "allA", "allW", "oneA", "oneW", "AW"])
    kinds = []
    for i in range(n):
        if prof == "mix":
            k = rng.choice("FAW")
        elif prof == "allF":
            k = "F"
        elif prof == "allA":
            k = "A"
        elif prof == "allW":
            k = "W"
        elif prof == "oneA":
            k = "F"
        elif prof == "oneW":
            k = "F"
        else:
            k = rng.choice("AW")
        kinds.append(k)
    if n and prof == "oneA":
        kinds[rng.randrange(n)] = "A"
    if n and prof == "oneW":
        kinds[rng.randrange(n)] = "W"
    fprof = rng.choice(["none", "all", "some", "some", "one"])
    fails = [False] * n
    if fprof == "all":
        fails = [True] * n
    elif fprof == "some":
        fails = [rng.random() < 0.5 for _ in range(n)]
    elif fprof == "one" and n:
        fails[rng.randrange(n)] = True
    c = {"id": cid, "n": n, "kinds": kinds, "fails": fails, "shapes": gen_shapes(rng, n),
         "procs": rng.choice([0, 0, 1, 2, 4]), "wdl_ms": rng.choice([3, 8, 15])}
    c = with_mode(rng, c, rng.choice(["", "", "", "", "during", "during", "self", "overlap", "overlap"]))
    if not c.get("mode") and rng.random() < 0.3:
        c = with_settings(rng, c)
    return c


SETTINGS_CALLS = [1, 2, 3, 5, 6, 9, 9, 12]


def with_settings(rng, c):
    """how the closers reach the App (ordinary sequence only; the case runs in a child process, `isolate`, because the
    library's global settings are process-wide): a share of the closers is handed over through the GLOBAL settings -
    app.Settings(app.SetComponents(...)) in 1-12 calls - instead of the run option; the run options may begin with
    app.SetRegistry(<a fresh registry>), may be packed into app.Options values; or (no closers in the global settings then,
    they would belong to both Apps) one of the run options runs a second, bootstrap App with closers of its own, i.e. an
    App.Run begins while another App.Run is applying its options - both Apps are closed, each must reach its own closers."""
    n = c["n"]
    c = dict(c, isolate=True, settings_calls=rng.choice(SETTINGS_CALLS), own_registry=rng.random() < 0.5,
             pack=rng.choice([0, 0, 1, 2, 2]), via_global=[False] * n)
    if rng.random() < 0.4:
        bn = rng.randint(0, 4)
        c["boot"] = {"id": 0, "n": bn, "kinds": [rng.choice("FFAW") for _ in range(bn)],
                     "fails": [rng.random() < 0.4 for _ in range(bn)], "wdl_ms": c["wdl_ms"]}
        c["boot_at"] = rng.randint(0, 4)
    else:
        prof = rng.choice(["all", "some", "some", "one"])
        c["via_global"] = [prof == "all" or (prof == "some" and rng.random() < 0.5) for _ in range(n)]
        if prof == "one" and n:
            c["via_global"][rng.randrange(n)] = True
    return c


def with_overlap(rng, c):
    """mode "overlap": K = 2-3 calls of App.Close that overlap.  Nine cases in ten have a gate closer (kind G: blocks until
    the driver opens the gate of its call), which makes the overlap certain: call k+1 is invoked when every closer has been
    entered k times and the gate closer of call k is still inside Close().  rel_order: the order in which the driver opens
    the gates of the calls (and waits for that call to return) - any permutation, so a later call may return first."""
    n = c["n"]
    if n > 12:     # K histories of n closers each: keep the acceptor's work small
        n = rng.randint(1, 12)
        c = dict(c, n=n, kinds=c["kinds"][:n], fails=c["fails"][:n], shapes=gen_shapes(rng, n))
    kinds = list(c["kinds"])
    if n and rng.random() < 0.9:
        for i in rng.sample(range(n), rng.choice([1, 1, 2]) if n >= 2 else 1):
            kinds[i] = "G"
    K = rng.choice([2, 2, 3])
    order = list(range(1, K + 1))
    rng.shuffle(order)
    return dict(c, kinds=kinds, mode="overlap", closes=K, rel_order=order, runner_slot=-1, rel_by=0)


def with_mode(rng, c, mode):
    """when Close is invoked: "" after Run returned; "during" while Run is still inside callRunners (a runner of the case has
    started and blocks until the Close of closer rel_by is CALLED, or - rel_by 0 - until the driver releases it after
    App.Close returned); "self" by a runner from inside its Run().  runner_slot: the ordinary closer that is also the runner
    (a server that serves until it is closed: rel_by = runner_slot + 1), -1 = the runner is a component of its own."""
    if not mode:
        return c
    if mode == "overlap":
        return with_overlap(rng, c)
    n = c["n"]
    plain = [i for i, s in enumerate(c["shapes"]) if s == "P"]
    slot = rng.choice(plain) if plain and rng.random() < 0.5 else -1
    rel = 0
    if mode == "during":
        if slot >= 0 and rng.random() < 0.7:
            rel = slot + 1
        elif n and rng.random() < 0.6:
            rel = rng.randint(1, n)
    return dict(c, mode=mode, runner_slot=slot, rel_by=rel)


CORPUS = [
    {"n": 0, "kinds": [], "fails": [], "procs": 0, "wdl_ms": 5},
    {"n": 1, "kinds": ["W"], "fails": [True], "procs": 1, "wdl_ms": 10},
    {"n": 3, "kinds": ["A", "F", "W"], "fails": [True, False, True], "procs": 1, "wdl_ms": 10},
    {"n": 3, "kinds": ["A", "A", "A"], "fails": [True, True, True], "procs": 0, "wdl_ms": 10},
    {"n": 5, "kinds": ["W", "F", "A", "F", "W"], "fails": [False, True, False, False, True], "procs": 2, "wdl_ms": 10},
    {"n": 50, "kinds": ["A"] * 25 + ["W"] * 25, "fails": [i % 3 == 0 for i in range(50)], "procs": 0, "wdl_ms": 10},
    {"n": 2, "kinds": ["F", "F"], "fails": [False, False], "shapes": ["Z0", "Z1"], "procs": 0, "wdl_ms": 10},
    {"n": 3, "kinds": ["F", "F", "F"], "fails": [False, False, False], "shapes": ["O:1", "I", "P"], "procs": 0, "wdl_ms": 10},
]

# Close while Run has not returned: a server (runner + closer in one component) that serves until it is closed; a runner
# of its own released by another closer's Close / by the driver after Close returned; a runner that calls Close itself
MODE_CORPUS = [
    {"n": 3, "kinds": ["F", "F", "W"], "fails": [False, True, False], "shapes": ["P", "P", "P"], "procs": 0, "wdl_ms": 10,
     "mode": "during", "runner_slot": 0, "rel_by": 1},
    {"n": 2, "kinds": ["A", "A"], "fails": [False, False], "shapes": ["P", "Z3"], "procs": 0, "wdl_ms": 10,
     "mode": "during", "runner_slot": -1, "rel_by": 2},
    {"n": 2, "kinds": ["W", "F"], "fails": [True, False], "shapes": ["P", "P"], "procs": 1, "wdl_ms": 10,
     "mode": "during", "runner_slot": -1, "rel_by": 0},
    {"n": 0, "kinds": [], "fails": [], "shapes": [], "procs": 0, "wdl_ms": 5, "mode": "during", "runner_slot": -1, "rel_by": 0},
    {"n": 3, "kinds": ["A", "F", "W"], "fails": [True, False, False], "shapes": ["P", "P", "P"], "procs": 0, "wdl_ms": 10,
     "mode": "self", "runner_slot": -1, "rel_by": 0},
    {"n": 2, "kinds": ["F", "A"], "fails": [False, True], "shapes": ["P", "P"], "procs": 2, "wdl_ms": 10,
     "mode": "self", "runner_slot": 1, "rel_by": 0},
]


# overlapping calls of App.Close: a signal handler and the deferred Close of main at the same time (two calls, the second
# one returns first / last), three calls, a blocked gate next to closers that fail, closers that share an address
OVERLAP_CORPUS = [
    {"n": 2, "kinds": ["G", "F"], "fails": [False, False], "shapes": ["P", "P"], "procs": 0, "wdl_ms": 10,
     "mode": "overlap", "closes": 2, "rel_order": [1, 2], "runner_slot": -1, "rel_by": 0},
    {"n": 3, "kinds": ["F", "G", "W"], "fails": [True, False, False], "shapes": ["P", "P", "P"], "procs": 0, "wdl_ms": 10,
     "mode": "overlap", "closes": 2, "rel_order": [2, 1], "runner_slot": -1, "rel_by": 0},
    {"n": 4, "kinds": ["A", "G", "W", "G"], "fails": [True, True, False, False], "shapes": ["Z1", "P", "O:3", "I"], "procs": 1,
     "wdl_ms": 10, "mode": "overlap", "closes": 3, "rel_order": [3, 1, 2], "runner_slot": -1, "rel_by": 0},
    {"n": 1, "kinds": ["G"], "fails": [True], "shapes": ["Z0"], "procs": 2, "wdl_ms": 5,
     "mode": "overlap", "closes": 3, "rel_order": [2, 3, 1], "runner_slot": -1, "rel_by": 0},
    {"n": 0, "kinds": [], "fails": [], "shapes": [], "procs": 0, "wdl_ms": 5,
     "mode": "overlap", "closes": 2, "rel_order": [1, 2], "runner_slot": -1, "rel_by": 0},
]


# closers handed over through the global settings next to a registry of the caller's; a bootstrap App run by a run option
SETTINGS_CORPUS = [
    {"n": 3, "kinds": ["F", "W", "A"], "fails": [False, True, False], "shapes": ["P", "P", "P"], "procs": 0, "wdl_ms": 5,
     "isolate": True, "via_global": [True, False, True], "settings_calls": 2, "own_registry": True, "pack": 0},
    {"n": 2, "kinds": ["F", "F"], "fails": [True, False], "shapes": ["Z2", "P"], "procs": 0, "wdl_ms": 5,
     "isolate": True, "via_global": [True, True], "settings_calls": 1, "own_registry": True, "pack": 1},
    {"n": 2, "kinds": ["F", "W"], "fails": [False, True], "shapes": ["P", "P"], "procs": 0, "wdl_ms": 5,
     "isolate": True, "via_global": [False, False], "settings_calls": 9, "own_registry": False, "pack": 2, "boot_at": 0,
     "boot": {"id": 0, "n": 2, "kinds": ["F", "F"], "fails": [True, False], "wdl_ms": 5}},
    {"n": 1, "kinds": ["A"], "fails": [False], "shapes": ["P"], "procs": 0, "wdl_ms": 5,
     "isolate": True, "via_global": [False], "settings_calls": 5, "own_registry": True, "pack": 0, "boot_at": 3,
     "boot": {"id": 0, "n": 1, "kinds": ["W"], "fails": [False], "wdl_ms": 5}},
]


def load_corpus():
    """corpus/C14/*.json (minimised past disagreements / canonical cases) run first; falls back to the built-in list"""
    import glob
    import os
    files = sorted(glob.glob(os.path.join(vlib.VERIF, "corpus", "C14", "*.json")))
    cs = [json.load(open(f)) for f in files]
    return (cs or CORPUS) + MODE_CORPUS + OVERLAP_CORPUS + SETTINGS_CORPUS


def multi_term(e):
    """an event of a history of overlapping calls: (call, KInv | KObs o), calls numbered from 0 in Coq"""
    k = e.get("c", 0) - 1
    if k < 0:
        k = 99     # an event without a call: attributed to no call of the case
    return "(%d, KInv)" % k if e["k"] == "inv" else "(%d, KObs (%s))" % (k, obs_term(e))


def obs_term(e):
    if e["k"] == "call":
        return "OCall %d" % e["i"]
    if e["k"] == "ret":
        return "ORet %d %s" % (e["i"], vlib.coq_bool(e["err"]))
    return "OCloseRet"


def evaluate(ctx, binp, cases, tag):
    rc, res, raw, _loud = vlib.run_json_verbose_share(ctx, binp, {"cases": cases, "max_bad": 3}, timeout=900)
    if res is None:
        raise vlib.GoBuildError("./cmd/c14 (run)", raw[-3000:])
    by_id, terms = {}, []
    nxt = max([c["id"] for c in cases] + [0]) + 2     # ids of the bootstrap Apps' histories follow all the others
    for c, o in zip(cases, res["outs"]):
        if o["outcome"] == "skipped":
            continue
        if c.get("boot") is not None:
            # the bootstrap App of the case is a Close history of its own (its own closers, its own App)
            bc, bo = c["boot"], o.get("boot") or {"outcome": "runerr", "registered": 0, "events": [], "detail": "no bootstrap App"}
            boc = OUTCOME.get(bo["outcome"], 3)
            if boc == 0 and bo["registered"] != bc["n"]:
                boc = 4
            by_id[nxt] = {"case": c, "bootstrap_app": True, "events": bo["events"], "outcome": bo["outcome"],
                          "registered": bo["registered"], "detail": bo["detail"]}
            terms.append("COne (mkCase %d %d %s %s %d)" % (nxt, bc["n"], vlib.coq_list(str(i + 1) for i, f in enumerate(bc["fails"]) if f),
                                                          vlib.coq_list(obs_term(e) for e in bo["events"] or []), boc))
            nxt += 1
        k = c["id"] + 1
        oc = OUTCOME.get(o["outcome"], 3)
        if oc == 0 and o["registered"] != c["n"]:
            oc = 4   # the container did not hand every closer to App.CloserComponents
        by_id[k] = {"case": c, "events": o["events"], "outcome": o["outcome"], "registered": o["registered"],
                    "detail": o["detail"]}
        fails = [i + 1 for i, f in enumerate(c["fails"]) if f]
        if c.get("mode") == "overlap":
            terms.append("CMulti %d %d %d %s %s %d" % (k, c["closes"], c["n"], vlib.coq_list(str(x) for x in fails),
                                                      vlib.coq_list(multi_term(e) for e in o["events"] or []), oc))
            continue
        terms.append("COne (mkCase %d %d %s %s %d)" % (k, c["n"], vlib.coq_list(str(x) for x in fails),
                                                      vlib.coq_list(obs_term(e) for e in o["events"] or []), oc))
    out = vlib.coq_eval_sharded(ctx, "cases_c14_" + tag, HEADER, terms,
                                {"M": "mismatches", "V": "violations", "NT": "count_nontrivial", "NTI": "nontrivial_ids"},
                                shard=60)
    return by_id, out["M"], out["V"], out["NTI"], len(terms)


def structure_obligation(ctx):
    """instantiated obligation shared with C20: the WaitGroup structure of App.Close read from the source (go/ast)"""
    try:
        from props import c20fp
    except ImportError:
        return True
    return c20fp.close_structure_obligation(ctx)


def run(ctx):
    static_ok = vlib.static_obligations(ctx)
    struct_ok = structure_obligation(ctx)
    binp = vlib.go_build(ctx, "./cmd/c14")
    ngen, maxn = (600, 20) if ctx.quick() else (8000, 50)
    cases = [dict(c, id=i) for i, c in enumerate(load_corpus())]
    if ctx.replay:
        r = json.load(open(ctx.replay))
        if "case" in r and "case" in r["case"]:
            cases = [dict(r["case"]["case"], id=0)]
    else:
        # a closer that is slower than any plausible "give up waiting" bound: Close must still wait for it
        for wdl in ([6500] if ctx.quick() else [6500, 12000, 31000]):
            cases.append({"id": len(cases), "n": 3, "kinds": ["W", "F", "A"], "fails": [False, True, False],
                          "shapes": ["P", "P", "P"], "procs": 0, "wdl_ms": wdl})
        for i in range(ngen):
            big = 50 if (ctx.quick() and i % 40 == 0) else maxn
            cases.append(gen_case(ctx.rng, len(cases), big))
    by_id, M, V, NTI, nev = evaluate(ctx, binp, cases, "main")
    ctx.log("cases=%d evaluated=%d nontrivial=%d mismatches=%d violations=%d" % (len(cases), nev, len(NTI), len(M), len(V)))
    V.sort(key=lambda i: (by_id[i]["case"]["n"], i))
    M.sort(key=lambda i: (by_id[i]["case"]["n"], i))

    def key(c):
        return vlib.stable_hash([c["n"], c["kinds"], c["fails"], c.get("shapes"), c["procs"], c.get("mode", ""),
                                 c.get("runner_slot"), c.get("rel_by"), c.get("closes"), c.get("rel_order"),
                                 c.get("via_global"), c.get("settings_calls"), c.get("own_registry"), c.get("pack"),
                                 c.get("boot"), c.get("boot_at")])

    distinct_nt = len({key(by_id[i]["case"]) for i in NTI})

    def shrink(c):
        cur = c
        for _round in range(15):
            cc = cur["case"]
            cands = []
            for i in range(cc["n"]):
                cands.append(dict(drop_slot(cc, i), id=len(cands)))
            if len(cands) > 8:   # a sample over the whole case, not only its first slots
                cands = [cands[(j * len(cands)) // 8] for j in range(8)]
                for j, cnd in enumerate(cands):
                    cnd["id"] = j
            if not cands:
                return cur
            b2, _, V2, _, _ = evaluate(ctx, binp, cands, "shrink")
            if not V2:
                return cur
            cur = b2[sorted(V2)[0]]
        return cur

    def widen():
        ctx.rng.seed(ctx.seed + 99)
        more = [gen_case(ctx.rng, i, 12) for i in range(400)]
        for m in more:
            m["procs"] = ctx.rng.choice([1, 1, 2])
            if m.get("mode") == "overlap" or m.get("isolate"):   # deterministic by construction
                continue
            if m.get("mode"):   # a hang costs seconds: the widening run keeps to the ordinary sequence
                m.pop("mode"), m.pop("runner_slot"), m.pop("rel_by")
        b2, _, V2, _, _ = evaluate(ctx, binp, more, "widen")
        return [b2[i] for i in sorted(V2, key=lambda i: b2[i]["case"]["n"])[:3]]

    sizes, kinds, procs, shp = {}, {}, {}, {"P": 0, "Z": 0, "O": 0, "I": 0}
    modes = {"after_run_returned": 0, "during_run_server_closed_by_its_own_close": 0, "during_run_released_by_another_closer": 0,
             "during_run_released_by_driver_after_close": 0, "by_a_runner_itself": 0, "runner_is_also_a_closer": 0,
             "overlapping_calls": 0, "overlapping_calls_2": 0, "overlapping_calls_3": 0, "overlapping_calls_with_a_gate_closer": 0,
             "overlapping_calls_a_later_call_returns_first": 0, "closer_invocations_by_overlapping_calls": 0}
    shared = {"cases_with_closers_sharing_an_address": 0, "cases_with_two_or_more_zero_size_closers": 0,
              "cases_with_struct_and_first_field": 0, "cases_with_both": 0, "largest_group_at_one_address": 0,
              "failing_closers_sharing_an_address": 0, "blocking_closers_sharing_an_address": 0}
    reach = {"cases_in_a_child_process": 0, "closers_through_global_settings": 0, "cases_with_closers_through_global_settings": 0,
             "cases_with_a_registry_of_the_callers": 0, "global_closers_next_to_a_registry_of_the_callers": 0,
             "cases_with_a_bootstrap_app_run_by_a_run_option": 0, "bootstrap_app_histories": 0, "app_settings_calls": {},
             "run_options_packed": {"one_by_one": 0, "all_in_one_group": 0, "settings_in_one_group": 0}}
    for i in by_id:
        if by_id[i].get("bootstrap_app"):
            reach["bootstrap_app_histories"] += 1
            continue
        c = by_id[i]["case"]
        if c.get("isolate"):
            ng = sum(1 for x in c.get("via_global") or [] if x)
            reach["cases_in_a_child_process"] += 1
            reach["closers_through_global_settings"] += ng
            reach["cases_with_closers_through_global_settings"] += ng > 0
            reach["cases_with_a_registry_of_the_callers"] += bool(c.get("own_registry"))
            reach["global_closers_next_to_a_registry_of_the_callers"] += bool(ng and c.get("own_registry"))
            reach["cases_with_a_bootstrap_app_run_by_a_run_option"] += c.get("boot") is not None
            reach["app_settings_calls"][str(c.get("settings_calls", 0))] = reach["app_settings_calls"].get(str(c.get("settings_calls", 0)), 0) + 1
            reach["run_options_packed"][["one_by_one", "all_in_one_group", "settings_in_one_group"][c.get("pack", 0)]] += 1
        shapes = c.get("shapes") or ["P"] * c["n"]
        md = c.get("mode", "")
        if not md:
            modes["after_run_returned"] += 1
        elif md == "overlap":
            modes["overlapping_calls"] += 1
            modes["overlapping_calls_%d" % c["closes"]] = modes.get("overlapping_calls_%d" % c["closes"], 0) + 1
            modes["overlapping_calls_with_a_gate_closer"] += "G" in c["kinds"]
            modes["overlapping_calls_a_later_call_returns_first"] += c["rel_order"] != sorted(c["rel_order"])
            modes["closer_invocations_by_overlapping_calls"] += sum(1 for e in by_id[i]["events"] or [] if e["k"] == "call")
        elif md == "self":
            modes["by_a_runner_itself"] += 1
        elif c["rel_by"] == 0:
            modes["during_run_released_by_driver_after_close"] += 1
        elif c["rel_by"] == c["runner_slot"] + 1:
            modes["during_run_server_closed_by_its_own_close"] += 1
        else:
            modes["during_run_released_by_another_closer"] += 1
        if md and c["runner_slot"] >= 0:
            modes["runner_is_also_a_closer"] += 1
        for sh in shapes:
            shp[sh[0]] = shp.get(sh[0], 0) + 1
        groups = shared_address_groups(shapes)
        nz = sum(1 for sh in shapes if sh.startswith("Z"))
        npair = sum(1 for sh in shapes if sh.startswith("O:"))
        if groups:
            shared["cases_with_closers_sharing_an_address"] += 1
            shared["largest_group_at_one_address"] = max(shared["largest_group_at_one_address"], max(groups))
            shared["cases_with_two_or_more_zero_size_closers"] += nz >= 2
            shared["cases_with_struct_and_first_field"] += npair >= 1
            shared["cases_with_both"] += (nz >= 2 and npair >= 1)
            for j, sh in enumerate(shapes):
                if sh[0] in "OI" or (sh[0] == "Z" and nz >= 2):
                    shared["failing_closers_sharing_an_address"] += bool(c["fails"][j])
                    shared["blocking_closers_sharing_an_address"] += c["kinds"][j] in "AW"
        b = min(c["n"] // 5 * 5, 50)
        sizes[b] = sizes.get(b, 0) + 1
        procs[c["procs"]] = procs.get(c["procs"], 0) + 1
        for k in c["kinds"]:
            kinds[k] = kinds.get(k, 0) + 1
    ids = sorted(by_id)
    cov = {
        "evaluations": nev,
        "distinct_nontrivial": distinct_nt,
        "rule": "real App.Run + App.Close over generated closer sets (0-50 closers; kinds F=returns at once, A=blocks until every "
                "closer has been called, W=blocks until it sees that App.Close already returned or a short deadline; failing "
                "subsets; shapes P=ordinary pointer, Z=pointer to one of 16 distinct zero-size types (one shared address, state "
                "kept per type name), O/I=a struct and its first field both registered (one shared address); GOMAXPROCS "
                "1/2/4/default); Close invoked after Run returned / while Run is still inside callRunners (a runner that has "
                "started and blocks until a closer's Close is called or the driver releases it after Close returned; the runner "
                "a component of its own or one of the closers) / by a runner from inside its Run() / 2-3 times with the calls overlapping (a later call is invoked when every closer has been "
                "entered once per earlier call and a gate closer of those is still blocked; the gates are opened call by call in a "
                "generated order; the j-th entry into a closer belongs to call j; non-trivial: a call was invoked while an earlier one "
                "had not returned); in a share of the ordinary cases (each in a child process) closers are handed over through the global "
                "app.Settings(app.SetComponents(...)) instead of the run option, next to a run option app.SetRegistry(<fresh registry>) "
                "or not, the run options one by one or packed into app.Options values, or a run option runs a bootstrap App with "
                "closers of its own while the outer Run is applying its options (both Apps closed, two histories); non-trivial = at least two closers, at least one failing, and the calls "
                "overlapped in the recorded history; distinct = distinct (n, kinds, fails, shapes, procs)",
        "samples": [by_id[i] for i in ids[:2] + ids[-1:]],
        "traces_validated_against_impl": nev,
        "input_distribution": {"size_buckets": sizes, "closer_kinds": kinds, "closer_shapes": shp,
                               "shared_address": shared, "gomaxprocs": procs, "close_invoked": modes,
                               "how_closers_reach_the_app": reach,
                               "failing_closers": sum(sum(by_id[i]["case"]["fails"]) for i in by_id)},
    }
    return vlib.decide(ctx, static_ok and struct_ok, by_id, M, V, cov, widen=widen, shrink=shrink,
                       assumptions=["Go scheduler, sync.WaitGroup and the go statement are modelled (Conc.v), not verified",
                                    "histories are ordered by appends under one mutex, never by wall-clock time; the only timeouts "
                                    "are 5 s (stalled) / 8 s (hang) classifications of a single run"])
