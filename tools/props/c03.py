"""C03 — no stale version survives a substitution (wiring family: generated Go types run through the real container vs Model/Factory.v)."""
import wiring
from wiring import Profile

MANIFEST = {
    "level": "proof",
    "text": 'the version invariant of the factory model with the stale-dependents check; correspondence on cyclic graphs with all wrap timings (early only, after only, both consistent, both inconsistent, spring-style); the EXTENDED model (Model/FactoryX.v: Init methods that look components up, post-processors that short-circuit instantiation) carries every run-level invariant family as well (Proofs/FactoryX*.v, theorems *_extended) and is what the correspondence evaluates; scenarios end with Factory.GetComponents(), are restarted on the same App value, have another App started before or in the middle, and include crowds of 24..36 instances of one type; some ordinary components are also (do-nothing) factory or definition-registry post-processors that look at the registry, and named and unnamed instances of one type stand side by side, callbacks fail with the component in hand, func points name methods that take parameters, two instantiations of one generic type are registered under their default names',
    "design_ref": "DESIGN.md 5 C03, 4.3, Appendix A/D",
    "note": "trusted: Coq kernel + vm_compute; hand-written model (Model/Resolve.v, Factory.v, App.v) tied to the code by exact "
            "comparison of event log, wiring and lookups on generated scenarios; Python generator/Go code generator/wx runtime; "
            "Go reflect and runtime; user callbacks are total functions of the scenario (re-entrant Init lookups and short-circuits are the extras of Model/FactoryX.v)",
    "technique": "Rocq proof over the Factory/Resolve model + vm_compute correspondence on generated wiring scenarios",
}

PROFILES = [(Profile(p_wrap=0.9, n_procs=(1, 2), p_cycle_bias=0.85, fields=(1, 4), kind_weights={"iface": 6, "siface": 4, "ptr": 1, "name": 2, "any": 0.5, "func": 0.5, "sptr": 0.5, "other": 0}), 450, 4500),
            (Profile(p_wrap=0.9, n_procs=(1, 2), p_cycle_bias=0.85, fields=(1, 4), p_lazy=0.4, p_init=0.9, p_initget=0.5, p_short=0.2), 150, 1500)]

RULE = 'cycle-biased graphs with interface-typed edges and wrapping post-processors over all wrap timings; non-trivial = a proxy version is visible in a field or lookup and held by someone'


def run(ctx):
    return wiring.run_family(ctx, "Corr.Check_C03", wiring.std_scenarios(PROFILES), RULE)
