"""C09 — unsatisfied required points fail cleanly, optional never (wiring family: generated Go types run through the real container vs Model/Factory.v)."""
import wiring
from wiring import Profile

MANIFEST = {
    "level": "proof",
    "text": 'error propagation theorems of the monadic model (no panic, no fuel exhaustion, fault implies Err, no runner after failure); correspondence with one or two injected faults per base scenario',
    "design_ref": "DESIGN.md 5 C09, 4.3, Appendix A/D",
    "note": "trusted: Coq kernel + vm_compute; hand-written model (Model/Resolve.v, Factory.v, App.v) tied to the code by exact "
            "comparison of event log, wiring and lookups on generated scenarios; Python generator/Go code generator/wx runtime; "
            "Go reflect and runtime; user callbacks do not re-enter the factory",
    "technique": "Rocq proof over the Factory/Resolve model + vm_compute correspondence on generated wiring scenarios",
}

PROFILES = [(Profile(p_fault=0.9, n_faults=(1, 2), n_procs=(0, 2), p_valid=0.7, p_cfg=0.4, p_cfg_unsat=0.3, p_loader_fail=0.05, p_runner=0.4), 600, 6000)]

RULE = 'base scenarios x one or two faults (required point, AfterPropertiesSet, Init, processor callback, loader, runner, required config value); non-trivial = scenario contains a fault or an unsatisfiable required point'


def run(ctx):
    def post(ctx, by_id, cov, out):
        # instantiated obligations of c09_no_panic, re-proved by vm_compute on the facts of this run
        ctx.oblige("facts: settled_b (further-matching after candidate collection) on every scenario of this run",
                   sum(out["UNS"]) == 0, "%d scenarios unsettled" % sum(out["UNS"]))
        ctx.oblige("generator: no post-processor component with injection points in this stream (KF-C05a is separate)",
                   sum(out["PP"]) == 0, "%d scenarios" % sum(out["PP"]))
        cov["instantiated_obligations"] = {"unsettled": sum(out["UNS"]), "pointed_processors": sum(out["PP"])}
        if sum(out["UNS"]) != 0:
            ctx.facts_broken = True
    rc = wiring.run_family(ctx, "Corr.Check_C09", wiring.std_scenarios(PROFILES), RULE, post=post,
                           extra_defs={"UNS": "count_unsettled", "PP": "count_pointed_procs"})
    if rc == 0 and getattr(ctx, "facts_broken", False):
        import vlib
        rp = vlib.write_replay(ctx, "broken", {"property": "C09", "broken": ["settled_b"], "note":
                               "the built-in processors' Order/class facts no longer place further-matching after candidate "
                               "collection: c09_no_panic's side condition fails; no failing input found"})
        vlib.violation(ctx, rp, nofail=True)
        return 1
    return rc
