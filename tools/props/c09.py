"""C09 — unsatisfied required points fail cleanly, optional never (wiring family: generated Go types run through the real container vs Model/Factory.v)."""
import wiring
from wiring import Profile

MANIFEST = {
    "level": "proof",
    "text": 'error propagation theorems of the monadic model (no panic, no fuel exhaustion, fault implies Err, no runner after failure); correspondence with one or two injected faults per base scenario; the EXTENDED model (Model/FactoryX.v: Init methods that look components up, post-processors that short-circuit instantiation) carries every run-level invariant family as well (Proofs/FactoryX*.v, theorems *_extended) and is what the correspondence evaluates; scenarios end with Factory.GetComponents(), are restarted on the same App value, have another App started before or in the middle; some ordinary components are also (do-nothing) factory or definition-registry post-processors that look at the registry, and named and unnamed instances of one type stand side by side, callbacks fail with the component in hand, func points name methods that take parameters, two instantiations of one generic type are registered under their default names',
    "design_ref": "DESIGN.md 5 C09, 4.3, Appendix A/D",
    "note": "trusted: Coq kernel + vm_compute; hand-written model (Model/Resolve.v, Factory.v, App.v) tied to the code by exact "
            "comparison of event log, wiring and lookups on generated scenarios; Python generator/Go code generator/wx runtime; "
            "Go reflect and runtime; user callbacks are total functions of the scenario (re-entrant Init lookups and short-circuits are the extras of Model/FactoryX.v)",
    "technique": "Rocq proof over the Factory/Resolve model + vm_compute correspondence on generated wiring scenarios",
}

PROFILES = [(Profile(p_fault=0.9, n_faults=(1, 2), n_procs=(0, 2), p_valid=0.7, p_cfg=0.4, p_cfg_unsat=0.3, p_loader_fail=0.05, p_runner=0.4,
                     kind_weights={"ptr": 4, "iface": 4, "sptr": 2, "siface": 3, "name": 3, "any": 0.3, "func": 1, "other": 0.8}, p_crowd=0.0), 480, 5000),
            (Profile(p_fault=0.3, n_procs=(1, 3), proc_points=0.7, p_valid=0.7, p_cycle_bias=0.3, fields=(1, 3), p_crowd=0.0), 120, 1000),
            # "optional ones never do": no fault anywhere, most components carry configuration points, half of them without a
            # configured value, most of those optional - their tags spell the point as value / prop shorthand / prefix with the
            # Required argument alone, first, last or between further arguments (wiring.cfield_tag): such a start succeeds
            (Profile(p_fault=0.0, n_procs=(0, 1), p_wrap=0.0, p_valid=0.95, p_cfg=0.9, p_cfg_unsat=0.5, p_optional=0.75, p_lazy=0.1,
                     max_types=4, fields=(0, 2), p_crowd=0.0), 100, 800)]
# no crowd scenarios here: the KF-C05a classification (bad_holders / early_created) is far from linear in the population

RULE = ('base scenarios x one or two faults (required point, AfterPropertiesSet, Init, processor callback, loader, runner, required config value), '
        'plus fault-free scenarios whose optional injection and configuration points are unsatisfied (configuration points tagged as '
        'value / prop shorthand / prefix with required=false alone, first, last or between further arguments); non-trivial = scenario '
        'contains a fault or an unsatisfiable required point')


def _pt(target, sel, required=True, slice_=False):
    return {"slice": slice_, "target": target, "sel": sel, "quals": None, "required": required}


def _type(**kw):
    t = {"ifaces": [], "naming": False, "qual": False, "primary": False, "lazy": False, "aps": False, "init": False,
         "runner": None, "closer": False, "proc": None, "methods": [], "fields": [], "cfields": []}
    t.update(kw)
    return t


def _comp(ti, name="", proc=None):
    return {"type": ti, "name": name, "qual": "", "apsFail": False, "initFail": False, "runFail": False, "closeErr": False,
            "ord": 0, "rets": {}, "proc": proc}


# canonical witness of KF-C05a: an eager, unordered user post-processor component with a required by-name point
# naming a component that does not exist, next to one plain component; the unchanged tree starts successfully
KF_C05A_WITNESS = {"id": 0, "nif": 1, "sealed": [False],
                   "types": [_type(init=True),
                             _type(naming=True, proc="U", fields=[_pt(("ptr", 0), ("name", "nope0"))])],
                   "comps": [_comp(0), _comp(1, "h1", {"early": {}, "after": {}, "faults": []})],
                   "loaderFail": False, "regorder": [0, 1]}


def run(ctx):
    kf = set()

    def post(ctx, by_id, cov, out):
        kf.update(out.get("KF05", []))
        cov["known_finding_classes"] = {"KF-C05a": len(kf)}

    def classify(case):
        return "KF-C05a" if case.get("scenario", {}).get("id") in kf else None

    import copy
    return wiring.run_family(ctx, "Corr.Check_C09", wiring.std_scenarios(PROFILES), RULE, post=post, classify_known=classify,
                             extra_defs={"KF05": "kf_c05a"}, extra_corpus=[copy.deepcopy(KF_C05A_WITNESS)])
