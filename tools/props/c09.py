"""C09 — unsatisfied required points fail cleanly, optional never (wiring family: generated Go types run through the real container vs Model/Factory.v)."""
import wiring
from wiring import Profile

MANIFEST = {
    "level": "proof",
    "text": 'error propagation theorems of the monadic model (no panic, no fuel exhaustion, fault implies Err, no runner after failure); correspondence with one or two injected faults per base scenario',
    "design_ref": "DESIGN.md 5 C09, 4.3, Appendix A/D",
    "note": "trusted: Coq kernel + vm_compute; hand-written model (Model/Resolve.v, Factory.v, App.v) tied to the code by exact "
            "comparison of event log, wiring and lookups on generated scenarios; Python generator/Go code generator/wx runtime; "
            "Go reflect and runtime; user callbacks do not re-enter the factory",
    "technique": "Rocq proof over the Factory/Resolve model + vm_compute correspondence on generated wiring scenarios",
}

PROFILES = [(Profile(p_fault=0.9, n_faults=(1, 2), n_procs=(0, 2), p_valid=0.7, p_cfg=0.4, p_cfg_unsat=0.3, p_loader_fail=0.05, p_runner=0.4), 600, 6000)]

RULE = 'base scenarios x one or two faults (required point, AfterPropertiesSet, Init, processor callback, loader, runner, required config value); non-trivial = scenario contains a fault or an unsatisfiable required point'


def run(ctx):
    return wiring.run_family(ctx, "Corr.Check_C09", wiring.std_scenarios(PROFILES), RULE)
