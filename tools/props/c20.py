"""C20 — start-up, shutdown and the concurrent containers are free of races.

(1) sequential differential runs of sync2.Map / ConcurrentSets / generic concurrent set against the sequential spec;
(2) concurrent histories recorded from the real containers with forced interleavings (blocking f callbacks, Range
    callbacks that start writers), each checked to be a trace of the concrete step model (SyncMap.model_accepts) and
    fed to the brute-force linearizability checker (SyncMap.linearizable_b), both evaluated in Coq;
(3) the Go race detector over generated starts and shutdowns, including >= 2 failing scanners;
(4) the closure footprint extracted with go/ast from the current source -> Facts_C20.v (instantiated obligations);
(5) stress: G goroutines released together by a spin barrier run generated operation lists on ONE shared container truly
    in parallel (no synchronisation added by the driver), every case in a child process, in the -race build AND in the
    normal build; workloads on disjoint key ranges (everything a goroutine sees of its own keys and the joined contents are
    determined by the sequential spec), on shared keys (per-key consequences of atomicity) and tiny shared histories
    (SyncMap.merge_search: some merge of the result sequences is a legal sequential history); TIMED scan histories
    (goroutines that Range / ToArray / ForEach / Load while others store and delete the same few keys; every operation
    carries a ticket taken before its call and one taken after its return): ScanCheck.scan_check - every reported pair
    has a provenance, every stable mapping is reported, no snapshot demanded of a Range; the whole exported API of
    util/sync2/map.go, util/list/concurrent_set.go and util/list/generic_concurrent_set.go is exercised, and the definition
    registry of container/support (GetMetaOrRegister / RegisterMeta / GetMetaByName / GetMetas), which the parallel definition
    scan shares, is a fourth target; every distinct observation is evaluated by Check_C20.stress_check / stress_oracle in Coq.
(6) every stream builds its container in every legal way (CTORS: the constructor, and - sync2.Map and ConcurrentSets are
    exported structs with a usable zero value - a declared variable, a struct field, an embedded field, a slice element,
    new(T), a composite literal); containers that were not made by the constructor mostly start EMPTY, so that their very
    first operations are the concurrent ones (spin barrier).
(7) the library's own logger: a share of the race-detector starts / shutdowns runs the container at a level at which the
    library's logger really prints (output sent to a discarded sink), and the log stream (harness/cmd/c20/logstream.go)
    lets several goroutines print through shared syslog loggers: no race, and the output of every round is an interleaving
    of the goroutines' line sequences (Model/Merge.v, Check_C20.log_ok)."""
import glob
import json
import os

import vlib
from props import c20fp

MANIFEST = {
    "level": "proof",
    "text": "Rocq theorems: every history of the point operations and of the repaired LoadOrStoreFn is linearizable with the "
            "linearization point at the successful primitive, never two winners (SyncMap.v, all thread counts / programs / "
            "interleavings); refutations for the unrepaired LoadOrStoreFn and for Range; c20_race_free: footprint_race_free fp = "
            "true -> no interleaving of the scanning phase (any number of components / passes / failing subset) or of Close has "
            "a data race (Conc.v, happens-before); fp is extracted from the source with go/ast on every run and the side "
            "condition re-proved; tied to the code by trace acceptance + linearizability checking of recorded histories "
            "(vm_compute), by the Go race detector over generated starts and shutdowns, and by parallel stress runs (goroutines "
            "released together on one shared sync2.Map / ConcurrentSets / generic concurrent set / definition registry, whole "
            "exported API, normal and -race build) whose observations are checked against the sequential spec (disjoint key "
            "ranges, sequential coda), per-key consequences of atomicity (shared keys) and SyncMap.merge_search (tiny histories); "
            "c20_scan_check_complete: the per-pair provenance / per-key completeness checker for Range, ToArray, ForEach and the "
            "point observers (ScanCheck.scan_check, no snapshot demanded of a scan) accepts every history that has a sequential "
            "witness, and is evaluated on timed histories (tickets around every operation) of scanners running against "
            "goroutines that store and delete the same few keys; containers obtained in every legal construction (zero values too) with their first operations concurrent; the library's own logger at printing levels under the race detector and a log stream whose concurrent output must be an interleaving of whole lines (Model/Merge.v, c20_log_output_is_interleaving); for the step model's Range under every interleaving c20_range_provenance / c20_range_completeness, and Model/ScanCheck.v scan_check (c20_scan_check_complete) on timed scan histories of the real containers",
    "design_ref": "DESIGN.md 5 C20",
    "note": "modelled, not verified: Go scheduler, sync.WaitGroup, sync.Mutex, atomicity of sync.Map primitives, Go memory "
            "model happens-before, callee code below the closures (validated dynamically by the race detector)",
    "technique": "Rocq proof (linearization points by trace induction; lockset / fork-join happens-before argument) + "
                 "instantiated obligation from go/ast + vm_compute trace acceptance and linearizability checking + go -race + "
                 "real-parallelism stress runs (child process per scenario, normal and -race build) evaluated by vm_compute oracles",
}

HEADER = ("From Coq Require Import List Arith Bool Uint63.\nFrom IocVerif Require Import Model.SyncMap Model.ScanCheck Corr.Check_C20.\n"
          "Import ListNotations.\n")

KF_DIR = os.path.join(vlib.VERIF, "known_findings.d")


def _load_known(pid):
    """known_findings.json merged with known_findings.d/*.json (the per-property files written by the checks' authors)"""
    out, seen = [], set()
    files = [os.path.join(vlib.VERIF, "known_findings.json")] + sorted(glob.glob(os.path.join(KF_DIR, "*.json")))
    for p in files:
        if not os.path.exists(p):
            continue
        data = json.load(open(p))
        for f in data.get("findings", data if isinstance(data, list) else []):
            if pid in f.get("properties", [f.get("property")]) and f["id"] not in seen:
                seen.add(f["id"])
                out.append(f)
    return out


vlib.load_known = _load_known

# ---------------------------------------------------------------------------------------------- rendering

MAP_OPS = ["load", "store", "los", "losf", "delete", "range"]
SET_OPS = ["put", "exists", "remove", "toarray"]


def op_term(o):
    k, v = o.get("k", 0), o.get("v", 0)
    return {"load": "OLoad %d" % k, "store": "OStore %d %d" % (k, v), "los": "OLoadOrStore %d %d" % (k, v),
            "losf": "OLoadOrStoreFn %d %d" % (k, v), "delete": "ODelete %d" % k, "range": "ORange",
            "put": "OPut %d" % k, "exists": "OExists %d" % k, "remove": "ORemove %d" % k, "toarray": "ORange"}[o["op"]]


def ret_term(o, r):
    op = o["op"]
    if op == "load":
        return "RVal (Some %d)" % r["v"] if r["found"] else "RVal None"
    if op in ("store", "delete", "put", "remove"):
        return "RNone"
    if op in ("los", "losf"):
        return "RLos %d %s" % (r["v"], vlib.coq_bool(r["loaded"]))
    if op == "exists":
        return "RBool %s" % vlib.coq_bool(r["found"])
    return "RList %s" % vlib.coq_list("(%d, %d)" % (p[0], p[1]) for p in (r["pairs"] or []))


def mutating(o):
    return o["op"] in ("store", "los", "losf", "delete", "put", "remove")


# ---------------------------------------------------------------------------------------------- generators

# how a container may be obtained (harness/cmd/c20/ctor.go); only constructions that exist on the unchanged tree
CTORS = {"map": ["new", "var", "field", "embed", "elem", "newexpr", "lit"],
         "cset": ["new", "var", "field", "embed", "elem", "newexpr", "lit"],
         "gset": ["new"], "reg": ["new"]}


def pick_ctor(rng, target):
    """half of the containers that have a usable zero value are NOT made by their constructor"""
    cs = CTORS[target]
    return rng.choice(cs[1:]) if len(cs) > 1 and rng.random() < 0.5 else cs[0]


def gen_seq(rng, cid):
    target = rng.choice(["map", "map", "cset", "gset"])
    n = rng.choice([0, 1, 2, 4, 6, 9, 12])
    nk = rng.choice([1, 2, 4])
    ops = []
    for _ in range(n):
        if target == "map":
            ops.append({"op": rng.choice(MAP_OPS), "k": rng.randrange(nk), "v": rng.randint(1, 5)})
        else:
            ops.append({"op": rng.choice(SET_OPS), "k": rng.randrange(nk), "v": 0})
    return {"id": cid, "kind": "seq", "target": target, "ctor": pick_ctor(rng, target), "ops": ops}


def rand_op(rng, target, nk, allow_range=True):
    if target == "map":
        ops = MAP_OPS if allow_range else MAP_OPS[:-1]
        return {"op": rng.choice(ops), "k": rng.randrange(nk), "v": rng.randint(1, 5)}
    ops = SET_OPS if allow_range else SET_OPS[:-1]
    return {"op": rng.choice(ops), "k": rng.randrange(nk), "v": 0}


def gen_hist(rng, cid):
    tpl = rng.choice(["losf", "losf", "range1", "range1", "range2", "free", "free", "setrange"])
    target = "map"
    if tpl == "losf":
        # a LoadOrStoreFn whose f blocks until 1-2 other threads have run their operations on the same key
        k = rng.randrange(2)
        nth = rng.choice([1, 1, 2])
        others = []
        for j in range(nth):
            ops = [rng.choice([{"op": "losf", "k": k, "v": 2 + j}, {"op": "los", "k": k, "v": 2 + j},
                               {"op": "losf", "k": k, "v": 2 + j}, {"op": "store", "k": k, "v": 2 + j},
                               {"op": "load", "k": k, "v": 0}])]
            if rng.random() < 0.4:
                ops.append(rand_op(rng, "map", 2, allow_range=False))
            others.append({"start": "cb", "ops": ops})
        ids = list(range(1, nth + 1))
        pre = [rand_op(rng, "map", 2, allow_range=False)] if rng.random() < 0.3 else []
        post = [{"op": "load", "k": k, "v": 0}] if rng.random() < 0.5 else []
        t0 = {"start": "init", "ops": pre + [{"op": "losf", "k": k, "v": 1, "cb": {"start": ids, "wait": ids}}] + post}
        threads = [t0] + others
    elif tpl in ("range1", "range2", "setrange"):
        if tpl == "setrange":
            target = rng.choice(["gset", "cset"])
        nk = 3
        keys = [0, 1, 2]
        rng.shuffle(keys)
        st, rm = ("store", "delete") if target == "map" else ("put", "remove")
        rg = "range" if target == "map" else "toarray"
        init = [{"op": st, "k": k, "v": 10} for k in keys]
        if rng.random() < 0.5:   # tombstones: a first Range promotes the entries, then some keys are deleted
            init.append({"op": rg})
            for k in rng.sample(keys, rng.choice([1, 2])):
                init.append({"op": rm, "k": k, "v": 0})
        present = [k for k in keys if not any(o["op"] == rm and o["k"] == k for o in init)]
        cb_at = rng.choice(present)
        nw = 1 if tpl == "range1" else rng.choice([2, 3])
        wkeys = [k for k in keys if k != cb_at]
        writes = []
        for j in range(nw):
            k = wkeys[j % len(wkeys)] if tpl != "range1" else rng.choice(wkeys)
            writes.append({"op": rng.choice([st, st, rm]), "k": k, "v": 11 + j})
        t0 = {"start": "init", "ops": init + [{"op": rg, "cb_at": cb_at, "cb": {"start": [1], "wait": [1]}}]}
        threads = [t0, {"start": "cb", "ops": writes}]
    else:
        target = rng.choice(["map", "map", "gset"])
        threads = [{"start": "init", "ops": [rand_op(rng, target, 2) for _ in range(rng.choice([1, 2, 3]))]}
                   for _ in range(rng.choice([2, 3]))]
    # free-running threads are released together: the first operations of the fresh container are concurrent ones
    return {"id": cid, "kind": "hist", "tpl": tpl, "target": target, "ctor": pick_ctor(rng, target),
            "barrier": tpl == "free" and rng.random() < 0.8, "threads": threads}


def gen_race(rng, cid, force_multi=False, logged=None):
    n = rng.randint(1, 8)
    r = rng.random()
    if force_multi or r < 0.45:
        nf = rng.randint(2, max(2, n)) if n >= 2 else 0
    elif r < 0.65:
        nf = 1
    else:
        nf = 0
    nf = min(nf, n)
    closers = rng.choice([0, 1, 2, 3, 5, 8])
    nfc = rng.randint(0, closers)
    # the level of the library's own logger: "" = silenced (LvFatal, nothing is ever formatted); otherwise the logger
    # really prints (to a discarded sink) what the goroutines of the two phases report
    log_lv = rng.choice(LOG_LEVELS) if (logged if logged is not None else rng.random() < 0.5) else ""
    if log_lv and rng.random() < 0.5:
        # a shutdown in which several failing closers report at once (needs a start that succeeds)
        nf, closers = 0, max(closers, 2)
        nfc = rng.randint(2, closers)
    return {"id": cid, "kind": "race", "n": n, "fail_scan": sorted(rng.sample(range(n), nf)), "closers": closers,
            "fail_close": sorted(rng.sample(range(closers), nfc)),
            "scanners": rng.choice([1, 1, 2]), "concurrent": rng.choice([0, 0, 4]), "log_lv": log_lv}


LOG_LEVELS = ["trace", "trace", "debug", "debug", "info", "warn", "error", "error"]


def race_nlogged(c):
    """how many goroutines of one phase report through the library's printing logger at once: the failing scanners'
    goroutines (the start then fails and nothing is closed), else the failing closers' goroutines"""
    if not c.get("log_lv"):
        return 0
    if c["fail_scan"] and c["scanners"]:
        return len(c["fail_scan"])
    return len(c["fail_close"])


# ---- stress: real parallelism ---------------------------------------------------------------------------------

INIT_V = 9


def _some(rng, keys, lo=1):
    return sorted(rng.sample(keys, rng.randint(min(lo, len(keys)), len(keys))))


def _stress_op(rng, target, keys, g, klass=None, heavy=0.06):
    """one operation of goroutine g over `keys`; klass[k] in churn | grow | once restricts what may be done to key k"""
    klass = klass or {}
    k = rng.choice(keys)
    kc = klass.get(k, "churn")
    r = rng.random()
    if target == "reg":
        # the definition registry: GetMetaByName / RegisterMeta / GetMetaOrRegister / GetMetas; no removal exists, so
        # registrations only happen while names are still absent: writers enumerate right after registering
        if r < 0.28:
            return {"op": rng.choice(["range", "range", "rangeopt"])}
        if r < 0.45:
            return {"op": "load", "k": k}
        return {"op": "store" if (kc != "once" and rng.random() < 0.2) else "losf", "k": k, "v": 0}
    if target == "map":
        v = 10 * (g + 1) + rng.randrange(5)
        if r < heavy:
            return {"op": rng.choice(["range", "range", "rangestop"])}
        if r < 0.35:
            return {"op": "load", "k": k}
        ops = {"churn": ["store", "store", "los", "losf", "delete", "delete"], "grow": ["store", "los", "losf"],
               "once": ["los", "losf"]}[kc]
        op = rng.choice(ops)
        return {"op": op, "k": k, "v": v} if op != "delete" else {"op": op, "k": k}
    if r < heavy:
        return {"op": rng.choice(["length", "length", "toarray", "foreach"])}
    if r < 0.30:
        return {"op": "exists", "k": k}
    if r < 0.38:
        return {"op": rng.choice(["existsany", "existsall"]), "ks": _some(rng, keys)}
    free = [x for x in keys if klass.get(x, "churn") == "churn"]
    if r < 0.46:
        return {"op": "putall", "ks": _some(rng, keys)}
    if r < 0.54 and free:
        return {"op": "removeall", "ks": _some(rng, free)}
    if kc != "churn":
        return {"op": "put", "k": k}
    return {"op": rng.choice(["put", "remove"]), "k": k}


def _stress_fin(rng, target, nkeys):
    """sequential coda after the join: every observer on every key, then a sweep of removals with the observers in between"""
    keys = list(range(nkeys))
    some = keys if nkeys <= 8 else sorted(rng.sample(keys, 8))
    fin = []
    if target == "reg":   # enumerate, register more (also names nobody asked for so far), enumerate again
        fin += [{"op": "load", "k": k} for k in keys] + [{"op": "range"}]
        for k in rng.sample(some, len(some)):
            fin += [{"op": rng.choice(["losf", "losf", "store"]), "k": k, "v": 0}, {"op": rng.choice(["range", "rangeopt", "load"]), "k": k}]
        fin += [{"op": "range"}] + [{"op": "load", "k": k} for k in some]
        return fin
    if target == "map":
        fin += [{"op": "load", "k": k} for k in keys] + [{"op": "range"}, {"op": "rangestop"}]
        fin += [{"op": rng.choice(["los", "losf"]), "k": k, "v": 7} for k in some]
        for k in rng.sample(some, len(some)):
            fin += [{"op": "delete", "k": k}, {"op": "load", "k": k}]
        fin += [{"op": "range"}, {"op": "store", "k": 0, "v": 8}, {"op": "load", "k": 0}, {"op": "rangestop"}]
        return fin
    fin += [{"op": "exists", "k": k} for k in keys]
    fin += [{"op": "length"}, {"op": "toarray"}, {"op": "foreach"}, {"op": "existsall", "ks": keys},
            {"op": "existsany", "ks": keys}]
    sweep = rng.sample(some, len(some))
    for i, k in enumerate(sweep):
        fin += [{"op": "remove", "k": k}, {"op": "exists", "k": k}]
        if i % 2 == 0:
            fin += [{"op": "length"}, {"op": "exists", "k": rng.choice(keys)}]
    fin += [{"op": "removeall", "ks": keys}, {"op": "length"}, {"op": "existsany", "ks": keys},
            {"op": "putall", "ks": some}, {"op": "length"}, {"op": "existsall", "ks": some}, {"op": "toarray"}]
    return fin


STRESS_TARGETS = ["map", "cset", "gset", "reg"]
STRESS_WORKLOADS = ["lanes", "disjoint", "disjoint", "shared", "shared", "tiny"]


def gen_stress(rng, cid, workload=None, target=None, ctor=None):
    target = target or rng.choice(STRESS_TARGETS)
    wl = workload or rng.choice(STRESS_WORKLOADS)
    # rounds: per child run; the normal build is ~50x faster than the -race build and runs plain_factor times as many
    c = {"id": cid, "kind": "stress", "target": target, "workload": wl, "width": 0, "plain_factor": 1,
         "ctor": ctor if ctor in CTORS[target] else pick_ctor(rng, target)}
    reg = target == "reg"
    if wl == "lanes":
        # disjoint key ranges and only operations whose results are determined by the goroutine's own program: every
        # round of a correct container yields the SAME observation, so many rounds cost one Coq case
        G, W = rng.choice([2, 4, 8, 8]), rng.choice([1, 2, 3])
        n = rng.choice([40, 100, 200] if not reg else [10, 20])
        c.update(width=W, nkeys=G * W, rounds=30, plain_factor=10)
        c["progs"] = [[_stress_op(rng, target, list(range(g * W, (g + 1) * W)), g, heavy=0.0) for _ in range(n)] for g in range(G)]
        if reg:
            for g, p in enumerate(c["progs"]):   # enumerations see the other goroutines' names: not determined
                for i, o in enumerate(p):
                    if o["op"] in ("range", "rangeopt"):
                        p[i] = {"op": "load", "k": rng.randrange(g * W, (g + 1) * W)}
    elif wl == "disjoint":
        G, W = rng.choice([2, 3, 4, 6, 8]), rng.choice([1, 2, 3] if not reg else [2, 3, 4])
        n = rng.choice([10, 30, 60] if not reg else [4, 8, 16])
        c.update(width=W, nkeys=G * W, rounds=rng.choice([2, 4] if not reg else [8, 16]))
        c["progs"] = [[_stress_op(rng, target, list(range(g * W, (g + 1) * W)), g) for _ in range(n)] for g in range(G)]
    elif wl == "shared":
        G, nk = rng.choice([2, 3, 4, 8]), rng.choice([2, 4, 6] if not reg else [4, 8, 16])
        n = rng.choice([10, 30, 60] if not reg else [4, 8, 16])
        keys = list(range(nk))
        klass = {k: rng.choice(["churn", "grow", "once"]) for k in keys}
        c.update(nkeys=nk, rounds=rng.choice([2, 4] if not reg else [8, 16]), klass=[klass[k] for k in keys])
        c["progs"] = [[_stress_op(rng, target, keys, g, klass) for _ in range(n)] for g in range(G)]
    else:
        G, nk = rng.choice([2, 2, 3]), rng.choice([1, 2])
        keys = list(range(nk))
        c.update(nkeys=nk, rounds=150, plain_factor=4)
        c["progs"] = [[_stress_op(rng, target, keys, g, heavy=0.0) for _ in range(rng.choice([1, 2, 3]))] for g in range(G)]
        for p in c["progs"]:     # point operations only (the merge search is exponential)
            for i, o in enumerate(p):
                if "ks" in o:
                    p[i] = {"op": "exists" if o["op"].startswith("exists") else ("put" if o["op"] == "putall" else "remove"),
                            "k": o["ks"][0]}
    nk = c["nkeys"]
    init_keys = [k for k in range(nk) if rng.random() < (0.3 if wl != "tiny" else 0.25)]
    if wl == "shared":   # a key whose only writers are load-or-stores starts absent
        init_keys = [k for k in init_keys if c["klass"][k] != "once"]
    if c["ctor"] != "new" and rng.random() < 0.8:
        init_keys = []   # nothing touches a declared (zero-value) container before the barrier opens
    if c["ctor"] != "new" and wl in ("lanes", "tiny"):
        c["rounds"] *= 2   # every round is a fresh container: more first operations
    c["init"] = [[k, INIT_V if target == "map" else 0] for k in init_keys]
    c["fin"] = _stress_fin(rng, target, nk)
    if reg:   # every registering call passes its own component: the operation's v identifies the definition built from it
        if wl == "tiny":
            for p in c["progs"]:
                for i, o in enumerate(p):
                    if o["op"] in ("range", "rangeopt"):
                        p[i] = {"op": "load", "k": rng.choice(keys)}
        nv = 0
        for o in [{"op": "store", "p": p} for p in c["init"]] + [o for p in c["progs"] for o in p] + c["fin"]:
            if o["op"] in ("store", "losf"):
                nv += 1
                if "p" in o:
                    o["p"][1] = nv
                else:
                    o["v"] = nv
    return c



# ---- timed scans: Range / ToArray / ForEach / Load against concurrent Delete / Store of the same few keys -----------

def gen_scan(rng, cid, target=None, quick=True, scale=3, ctor=None):
    """ns scanners (mostly full scans, some stopped early, some point reads) and nc churners (store / delete /
    load-or-store on nk shared keys) released together; nstable further keys are installed at the start and never touched
    (every full scan has to report them).  Every value stored is unique in the case and never the zero value, so the
    provenance of a reported pair is decidable; the sets carry no values (0).  The programs are long enough (36-90 scanner
    operations, 60-180 churner operations) for the goroutines to really run at the same time in a good part of the rounds;
    the driver reports the `emit` most contended rounds and the rounds its pre-screen flags."""
    target = target or rng.choice(["map", "map", "map", "cset", "gset"])
    ctor = ctor if ctor in CTORS[target] else pick_ctor(rng, target)
    nk, nstable = rng.choice([1, 2, 2, 3, 4]), rng.choice([0, 1, 1, 2])
    empty = ctor != "new" and rng.random() < 0.7   # a declared container that nothing touches before the barrier opens
    if empty:
        nstable = 0
    ns, nc = rng.choice([1, 2, 2]), rng.choice([1, 2, 2, 3])
    nscan, nchurn = scale * rng.choice([12, 20, 30]), scale * rng.choice([20, 40, 60])
    ismap = target == "map"
    val = [0]

    def fresh():
        val[0] += 1
        return val[0] if ismap else 0

    keys = list(range(nk))
    st, rm = ("store", "delete") if ismap else ("put", "remove")
    init = [[k, fresh()] for k in keys if rng.random() < 0.6 and not empty] + [[nk + j, fresh()] for j in range(nstable)]
    progs = []
    for _ in range(ns):
        p = []
        for _ in range(nscan):
            r = rng.random()
            if ismap:
                p.append({"op": "range"} if r < 0.65 else {"op": "rangestop"} if r < 0.75 else
                         {"op": "load", "k": rng.randrange(nk + nstable)})
            else:
                p.append({"op": rng.choice(["toarray", "foreach"])} if r < 0.7 else {"op": "exists", "k": rng.randrange(nk + nstable)})
        progs.append(p)
    for _ in range(nc):
        prof = rng.choice(["flip", "flip", "mix"])
        p, present = [], {}
        for _ in range(nchurn):
            k = rng.choice(keys)
            if prof == "flip":     # delete what this goroutine stored last, store what it deleted last
                op = rm if present.get(k, True) else st
                present[k] = op == st
            else:
                op = rng.choice([st, st, rm, rm, "los", "losf", "load"] if ismap else [st, st, rm, rm, "exists"])
            p.append({"op": op, "k": k, "v": fresh()} if op in ("store", "los", "losf") else {"op": op, "k": k})
        progs.append(p)
    return {"id": cid, "kind": "scan", "target": target, "ctor": ctor, "nkeys": nk + nstable, "churn_keys": nk, "stable_keys": nstable,
            "scanners": ns, "churners": nc, "init": init, "progs": progs, "fin": [], "timed": True,
            "rounds": 400 if quick else 1000, "emit": 2}


# ---- the library's own logger under concurrent use ------------------------------------------------------------------

LV_NUM = {"trace": 1, "debug": 2, "info": 3, "warn": 4, "error": 5}
LV_MARK = {"trace": "[TRACE]", "debug": "[DEBUG]", "info": "[ INFO]", "warn": "[ WARN]", "error": "[ERROR]"}
LOG_ALPHABET = "abcdefghijklmnopqrstuvwxyz0123456789-_.:/ "


def _log_text(rng):
    n = rng.choice([1, 3, 8, 8, 20, 60, 200, 600])
    return "".join(rng.choice(LOG_ALPHABET) for _ in range(n)).strip() or "x"


def gen_log(rng, cid, quick=True):
    """G goroutines, each with a list of log calls (every level, the formatting and the Println variant) on shared
    loggers: logger 0 = the package-level functions (the root logger), the others = prefix chains resolved through
    syslog.Pref at every call (the cached logger of the first prefix, `.Pref(...)` for the rest).  Operands: strings, ints,
    error / Stringer values whose Error() / String() yields the processor.  Every printed line carries the token g<g>i<i>
    of its call, so that the lines of one case are pairwise different."""
    lv = rng.choice(["trace", "debug", "debug", "info", "error"])
    nlog = rng.choice([1, 1, 2, 3])
    names = ["Application", "ComponentFactory", "Scanner", "SingletonRegistry"]
    loggers = [[names[j]] + (["sub%d" % j] if rng.random() < 0.25 else []) for j in range(nlog)]
    G = rng.choice([2, 3, 4, 6, 8])
    one = rng.random() < 0.6    # everybody through one logger (what App.Close does)
    the_one = rng.randint(0, nlog)
    progs = []
    for g in range(G):
        prog = []
        for i in range(rng.randint(2, 10)):
            l = the_one if one else rng.randint(0, nlog)
            lvl = rng.choice([x for x in LV_NUM if LV_NUM[x] >= LV_NUM[lv]] * 4 + list(LV_NUM))
            f = rng.random() < 0.6
            args = []
            for _ in range(rng.choice([0, 1, 1, 2, 3])):
                k = rng.choice("sdeg" if rng.random() < 0.5 else "eg")
                args.append({"k": k, "s": _log_text(rng), "n": rng.randrange(100000)})
            token = "g%di%d" % (g, i)
            if f:
                verbs = {"s": ["%s", "%v"], "d": ["%d", "%v"], "e": ["%v", "%s", "%+v"], "g": ["%v", "%s"]}
                fmt = token + " " + _log_text(rng) + "".join(rng.choice([": ", " ", "|", " -> "]) + rng.choice(verbs[a["k"]]) for a in args)
                prog.append({"l": l, "lv": lvl, "f": True, "fmt": fmt, "args": args})
            else:
                prog.append({"l": l, "lv": lvl, "f": False, "fmt": "", "args": [{"k": "s", "s": token, "n": 0}] + args})
        progs.append(prog)
    return {"id": cid, "kind": "log", "lv": lv, "loggers": loggers, "progs": progs, "rounds": 30 if quick else 60,
            "procs": rng.choice([0, 0, 1, 2, 4])}


def log_prints(c, o):
    return LV_NUM[o["lv"]] >= LV_NUM[c["lv"]]


def log_message(o):
    """the text a call prints after the level mark and the prefixes (python rendering of the formats gen_log uses)"""
    vals = [str(a["n"]) if a["k"] == "d" else a["s"] for a in o["args"]]
    if not o["f"]:
        return " ".join(vals)      # Println: operands separated by blanks
    out, it = "", iter(vals)
    i, fmt = 0, o["fmt"]
    while i < len(fmt):
        if fmt[i] == "%":
            j = i + 1
            if fmt[j] == "+":
                j += 1
            out += next(it)
            i = j + 1
        else:
            out += fmt[i]
            i += 1
    return out


def log_ref_ok(c, ref):
    """the sequential reference run: exactly the calls the level filter lets through, in order, each as
    <colour>[LEVEL]<colour> [prefix]... text"""
    import re
    want = [(g, i, o) for g, p in enumerate(c["progs"]) for i, o in enumerate(p) if log_prints(c, o)]
    if len(ref or []) != len(want):
        return False
    for line, (g, i, o) in zip(ref, want):
        chain = c["loggers"][o["l"] - 1] if o["l"] else []
        tail = "".join(" [%s]" % x for x in chain) + " " + log_message(o)
        if not line.endswith(tail):
            return False
        head = line[:len(line) - len(tail)]
        if not re.fullmatch(r"(?:\x1b\[[0-9;]*m)*" + re.escape(LV_MARK[o["lv"]]) + r"(?:\x1b\[[0-9;]*m)*", head):
            return False
    return len(set(ref)) == len(ref)


def log_term(k, c, o):
    oc = {"ok": 0, "race": 1}.get(o["outcome"], 2)
    G = len(c["progs"])
    owner, progs, n = {}, [], 0     # line number (1-based position in the reference run) -> goroutine
    for g, p in enumerate(c["progs"]):
        mine = []
        for op in p:
            if log_prints(c, op):
                n += 1
                owner[n] = g
                mine.append((op["l"], n))
        progs.append(mine)
    if oc != 0:
        return "CLog %d (mkLog %d false [] [])" % (k, oc)
    rounds = [[(owner.get(x, G), x if x in owner else 0) for x in r] for r in (o.get("rounds") or [])]
    if len(rounds) != c["rounds"]:
        return "CLog %d (mkLog 2 false [] [])" % k   # incomplete observation
    pl = lambda l: vlib.coq_list("(%d, %d)" % p for p in l)
    return "CLog %d (mkLog 0 %s %s %s)" % (k, vlib.coq_bool(log_ref_ok(c, o.get("ref"))), vlib.coq_list(pl(p) for p in progs),
                                          vlib.coq_list(pl(r) for r in rounds))


def scan_records(c, ob):
    """the records of one timed observation in the language of the map (Put / Remove are themselves; Exists k is a Load that
    finds the value 0; ToArray / ForEach are a Range): (op, result, ticket before the call, ticket after the return), and the
    scans that were stopped early"""
    ismap = c["target"] == "map"
    recs, partial = [], []
    for k, v in c["init"]:
        recs.append(({"op": "store", "k": k, "v": v} if ismap else {"op": "put", "k": k}, {}, 0, 0))
    for prog, run in zip(c["progs"], ob["runs"]):
        for o, r in zip(prog, run or []):
            i, j = r.get("i", 0), r.get("r", 0)
            if o["op"] == "rangestop":
                partial.append((i, j, r.get("p") or []))
            elif o["op"] == "exists":
                recs.append(({"op": "load", "k": o["k"]}, {"f": r.get("f", False), "v": 0}, i, j))
            elif o["op"] in ("toarray", "foreach"):
                recs.append(({"op": "range"}, r, i, j))
            else:
                recs.append((o, r, i, j))
    recs.append(({"op": "range"}, {"p": ob.get("final") or []}, ob.get("final_i", 0), ob.get("final_r", 0)))
    return recs, partial


def scan_term(k, c, outcome, ob):
    bad = "CScan %d (mkScan 2 %d [] [])" % (k, c["nkeys"])
    if outcome != "ok" or ob is None:
        return bad
    if len(ob["runs"]) != len(c["progs"]) or any(len(r or []) != len(p) for r, p in zip(ob["runs"], c["progs"])):
        return bad   # incomplete observation
    recs, partial = scan_records(c, ob)
    try:
        out = s_num(0) + s_num(c["nkeys"])
        out += s_list(recs, lambda x: s_xr(x[0], x[1]) + s_num(x[2]) + s_num(x[3]))
        out += s_list(partial, lambda x: s_num(x[0]) + s_num(x[1]) + s_list(x[2], s_pair))
    except Unencodable:   # a negative / absurd number: an observation outside the model's domain
        return bad
    return "CScan %d (TB %s)" % (k, pack(out))


def xop_term(o):
    op = o["op"]
    if op == "length":
        return "XLength"
    if op == "rangestop":
        return "XRangeStop"
    if op in ("existsany", "existsall", "putall", "removeall"):
        return "%s %s" % ({"existsany": "XExistsAny", "existsall": "XExistsAll", "putall": "XPutAll",
                            "removeall": "XRemoveAll"}[op], vlib.coq_list("%d" % k for k in o["ks"]))
    if op in ("foreach", "rangeopt"):
        return "XP ORange"
    return "XP (%s)" % op_term(o)


def xret_term(o, r):
    op = o["op"]
    if op == "load":
        return "RVal (Some %d)" % r.get("v", 0) if r.get("f") else "RVal None"
    if op in ("store", "delete", "put", "remove", "putall", "removeall"):
        return "RNone"
    if op in ("los", "losf"):
        return "RLos %d %s" % (r.get("v", 0), vlib.coq_bool(r.get("f", False)))
    if op in ("exists", "existsany", "existsall"):
        return "RBool %s" % vlib.coq_bool(r.get("f", False))
    if op == "length":
        return "RVal (Some %d)" % r.get("v", 0)
    return "RList %s" % vlib.coq_list("(%d, %d)" % (p[0], p[1]) for p in (r.get("p") or []))


# ---- compact transport of a stress observation (format: Check_C20.p_stress; packing: Check_C20.unpack) ----

XOP_CODE = {"load": 0, "store": 1, "los": 2, "losf": 3, "delete": 4, "range": 5, "toarray": 5, "foreach": 5, "rangeopt": 5,
            "put": 6, "exists": 7, "remove": 8, "length": 9, "rangestop": 10, "existsany": 11, "existsall": 12,
            "putall": 13, "removeall": 14}


class Unencodable(Exception):
    pass


def s_num(n):
    if n < 0 or n > 65535:
        raise Unencodable(n)
    return [n] if n < 255 else [255, n >> 8, n & 255]


def s_list(items, f):
    out = s_num(len(items))
    for x in items:
        out += f(x)
    return out


def s_pair(p):
    return s_num(p[0]) + s_num(p[1])


def s_xr(o, r):
    op = o["op"]
    out = [XOP_CODE[op]]
    if op in ("load", "delete", "put", "exists", "remove"):
        out += s_num(o["k"])
    elif op in ("store", "los", "losf"):
        out += s_num(o["k"]) + s_num(o["v"])
    elif op in ("existsany", "existsall", "putall", "removeall"):
        out += s_list(o["ks"], s_num)
    if op == "load":
        out += [2] + s_num(r.get("v", 0)) if r.get("f") else [1]
    elif op in ("store", "delete", "put", "remove", "putall", "removeall"):
        out += [0]
    elif op in ("los", "losf"):
        out += [4 if r.get("f") else 3] + s_num(r.get("v", 0))
    elif op in ("exists", "existsany", "existsall"):
        out += [6 if r.get("f") else 5]
    elif op == "length":
        out += [2] + s_num(r.get("v", 0))
    else:
        out += [7] + s_list(r.get("p") or [], s_pair)
    return out


def pack(bs):
    """byte stream -> Coq list of primitive ints, seven bytes per int under a leading 1 marker"""
    words = []
    for i in range(0, len(bs), 7):
        v = 1
        for b in bs[i:i + 7]:
            v = v * 256 + b
        words.append(str(v))
    return "[" + "; ".join(words) + "]%uint63"


def stress_blob(c, obs):
    out = s_num(0) + s_num(c["width"]) + s_num(c["nkeys"]) + s_list(c["init"], s_pair)
    out += s_list(list(zip(c["progs"], obs["runs"])), lambda pr: s_list(list(zip(pr[0], pr[1])), lambda x: s_xr(*x)))
    out += s_list(obs.get("final") or [], s_pair)
    out += s_list(list(zip(c["fin"], obs.get("fin") or [])), lambda x: s_xr(*x))
    return pack(out)


def _pairs(ops, rets):
    return vlib.coq_list("(%s, %s)" % (xop_term(o), xret_term(o, r)) for o, r in zip(ops, rets))


def stress_term(k, c, outcome, obs, literal=False):
    """the Coq case of one observation: packed (decoded by Check_C20.SB inside vm_compute) or, literal=True, as a literal term"""
    oc = {"ok": 0, "race": 1}.get(outcome, 2)
    if obs is None or oc != 0:
        return "CStress %d (mkStress %d %d %d [] [] [] [])" % (k, oc or 2, c["width"], c["nkeys"])
    runs = obs["runs"]

    def negative(rs):
        return any(r.get("v", 0) < 0 or any(x < 0 for p in (r.get("p") or []) for x in p) for r in rs or [])

    if any(negative(r) for r in runs) or negative(obs.get("fin")) or any(x < 0 for p in (obs.get("final") or []) for x in p):
        # e.g. Length() = -1: an observation outside the model's domain (nat); it is a failing observation
        return "CStress %d (mkStress 2 %d %d [] [] [] [])" % (k, c["width"], c["nkeys"])
    if len(runs) != len(c["progs"]) or any(len(r or []) != len(p) for r, p in zip(runs, c["progs"])) \
            or len(obs.get("fin") or []) != len(c["fin"]):
        return "CStress %d (mkStress 2 %d %d [] [] [] [])" % (k, c["width"], c["nkeys"])   # incomplete observation
    if not literal:
        try:
            return "CStress %d (SB %s)" % (k, stress_blob(c, obs))
        except Unencodable:   # a number outside 0..65535 (e.g. an absurd Length()): a failing observation
            return "CStress %d (mkStress 2 %d %d [] [] [] [])" % (k, c["width"], c["nkeys"])
    return "CStress %d (mkStress 0 %d %d %s %s %s %s)" % (
        k, c["width"], c["nkeys"], vlib.coq_list("(%d, %d)" % (p[0], p[1]) for p in c["init"]),
        vlib.coq_list(_pairs(p, r or []) for p, r in zip(c["progs"], runs)),
        vlib.coq_list("(%d, %d)" % (p[0], p[1]) for p in (obs.get("final") or [])),
        _pairs(c["fin"], obs.get("fin") or []))


def stress_payload(c):
    return {"id": c["id"], "target": c["target"], "ctor": c.get("ctor", ""), "nkeys": c["nkeys"], "init": c["init"], "progs": c["progs"],
            "fin": c["fin"], "rounds": c["rounds"] * (c.get("plain_factor", 1) if c.get("build") != "race" else 1),
            "timed": bool(c.get("timed")), "emit": c.get("emit", 0)}


# canonical witnesses: D-C20a (two winners), KF-C20c (Range reports k2 without k1; repeated, probabilistic iteration order)
def corpus():
    cs = [
        {"kind": "hist", "tpl": "losf", "target": "map", "threads": [
            {"start": "init", "ops": [{"op": "losf", "k": 0, "v": 1, "cb": {"start": [1], "wait": [1]}}]},
            {"start": "cb", "ops": [{"op": "losf", "k": 0, "v": 2}]}]},
        {"kind": "race", "n": 4, "fail_scan": [0, 1, 2], "closers": 2, "fail_close": [0], "scanners": 1, "concurrent": 0},
        {"kind": "race", "n": 3, "fail_scan": [], "closers": 5, "fail_close": [0, 1, 2, 3, 4], "scanners": 1, "concurrent": 4},
        {"kind": "seq", "target": "map", "ops": [{"op": "losf", "k": 0, "v": 1}, {"op": "losf", "k": 0, "v": 2},
                                                  {"op": "delete", "k": 0, "v": 0}, {"op": "los", "k": 0, "v": 3},
                                                  {"op": "range", "k": 0, "v": 0}]},
    ]
    kf = {"kind": "hist", "tpl": "kf_range", "target": "map", "threads": [
        {"start": "init", "ops": [{"op": "store", "k": 1, "v": 10}, {"op": "store", "k": 0, "v": 10},
                                  {"op": "store", "k": 2, "v": 10}, {"op": "range"}, {"op": "delete", "k": 1, "v": 0},
                                  {"op": "delete", "k": 2, "v": 0},
                                  {"op": "range", "cb_at": 0, "cb": {"start": [1], "wait": [1]}}]},
        {"start": "cb", "ops": [{"op": "store", "k": 1, "v": 11}, {"op": "store", "k": 2, "v": 11}]}]}
    return cs + [dict(kf) for _ in range(12)]


def load_corpus():
    """corpus/C20/*.json run first (the KF-C20c witness is repeated: it fails only for some iteration orders)"""
    files = sorted(glob.glob(os.path.join(vlib.VERIF, "corpus", "C20", "*.json")))
    if not files:
        return corpus()
    cs = []
    for f in files:
        c = json.load(open(f))
        cs += [dict(c) for _ in range(12)] if os.path.basename(f).startswith("KF-") else [c]
    return cs


# ---------------------------------------------------------------------------------------------- evaluation

def records_of(c, events):
    """operation records (thread, op, ret, inv index, res index) of the completed operations"""
    inv, recs = {}, []
    for idx, e in enumerate(events):
        key = (e["t"], e["op"])
        if e["e"] == "inv":
            inv[key] = idx
        elif e["e"] == "res":
            o = c["threads"][e["t"]]["ops"][e["op"]]
            recs.append({"t": e["t"], "o": o, "r": e["r"], "inv": inv[key], "res": idx})
    return recs


def hist_terms(c, events):
    obs = []
    for e in events:
        o = c["threads"][e["t"]]["ops"][e["op"]]
        if e["e"] == "inv":
            obs.append("(%d, EInv (%s))" % (e["t"], op_term(o)))
        elif e["e"] == "res":
            obs.append("(%d, ERes (%s) (%s))" % (e["t"], op_term(o), ret_term(o, e["r"])))
        elif e["e"] == "fn":
            obs.append("(%d, EFn %d)" % (e["t"], o["k"]))
        elif e["e"] == "visit":
            obs.append("(%d, ECb %d %d)" % (e["t"], e["k"], e["v"]))
    recs = ["mkOp %d (%s) (%s) %d %d" % (r["t"], op_term(r["o"]), ret_term(r["o"], r["r"]), r["inv"], r["res"])
            for r in records_of(c, events)]
    ran = {e["t"] for e in events}   # a thread whose starting callback never fired (f not called: key present) did not run
    progs = [vlib.coq_list(op_term(o) for o in (t["ops"] if i in ran else [])) for i, t in enumerate(c["threads"])]
    return vlib.coq_list(progs), vlib.coq_list(obs), vlib.coq_list(recs)


def evaluate(ctx, bins, cases, tag):
    """runs the implementation and Coq. returns (by_id, M, V, NTI, nevals)"""
    binp, binrace = bins
    seqs = [c for c in cases if c["kind"] == "seq"]
    hists = [c for c in cases if c["kind"] == "hist"]
    races = [c for c in cases if c["kind"] == "race"]
    strs = [c for c in cases if c["kind"] == "stress"]
    scans = [c for c in cases if c["kind"] == "scan"]
    logs = [c for c in cases if c["kind"] == "log"]
    by_id, terms, sterms = {}, [], []
    if seqs:
        rc, res, raw = vlib.run_json(binp, {"mode": "seq", "seq": seqs}, timeout=600)
        if res is None:
            raise vlib.GoBuildError("./cmd/c20 (seq run)", raw[-3000:])
        for c, o in zip(seqs, res["outs"]):
            k = c["id"] + 1
            by_id[k] = {"case": c, "results": o["res"], "panic": o["panic"]}
            rets = [ret_term(op, r) for op, r in zip(c["ops"], o["res"] or [])]
            if o["panic"]:
                rets = ["RNone"] * (len(c["ops"]) + 1)   # a panic is an observation outside the model
            terms.append("CSeq %d %s %s" % (k, vlib.coq_list(op_term(op) for op in c["ops"]), vlib.coq_list(rets)))
    if hists:
        rc, res, raw = vlib.run_json(binp, {"mode": "hist", "hist": hists}, timeout=900)
        if res is None:
            raise vlib.GoBuildError("./cmd/c20 (hist run)", raw[-3000:])
        for c, o in zip(hists, res["outs"]):
            k = c["id"] + 1
            ev = o["events"] or []
            by_id[k] = {"case": c, "events": ev, "outcome": o["outcome"], "detail": o["detail"]}
            if o["outcome"] != "ok":
                terms.append("CHist %d [] [(0, EFn 0)] [mkOp 0 (OLoad 0) (RVal (Some 0)) 0 1]" % k)  # rejected by both
                continue
            progs, obs, recs = hist_terms(c, ev)
            terms.append("CHist %d %s %s %s" % (k, progs, obs, recs))
    if races:
        rc, res, raw = vlib.run_json(binrace, {"mode": "race", "race": races, "par": 6}, timeout=1500)
        if res is None:
            raise vlib.GoBuildError("./cmd/c20 -race (race run)", raw[-3000:])
        for c, o in zip(races, res["outs"]):
            k = c["id"] + 1
            oc = {"ok": 0, "race": 1}.get(o["outcome"], 2)
            # a start whose scanners failed must report exactly the failing components (per scanner pass: the first failing pass)
            if oc == 0 and c["fail_scan"] and c["scanners"] and (not o["run_err"] or o["n_errs"] != len(c["fail_scan"])):
                oc = 3
            by_id[k] = {"case": c, "outcome": o["outcome"], "run_err": o["run_err"], "n_errs": o["n_errs"],
                        "report": o["report"]}
            terms.append("CRace %d %d %d %d" % (k, oc, len(c["fail_scan"]), race_nlogged(c)))
    if logs:
        # the library's logger shared by goroutines: every case in a child process, in the normal build and in the -race build
        from concurrent.futures import ThreadPoolExecutor
        groups = [(binp, [c for c in logs if c.get("build") != "race"]), (binrace, [c for c in logs if c.get("build") == "race"])]

        def golog(g):
            if not g[1]:
                return (0, {"outs": []}, "")
            pay = [dict({x: c[x] for x in ("id", "lv", "loggers", "progs", "procs")},
                        rounds=c["rounds"] if c.get("build") != "race" else max(4, c["rounds"] // 4)) for c in g[1]]
            return vlib.run_json(g[0], {"mode": "log", "log": pay, "par": 4}, timeout=1500)

        with ThreadPoolExecutor(max_workers=2) as ex:
            results = list(ex.map(golog, groups))
        for (_, cs), (rc, res, raw) in zip(groups, results):
            if res is None:
                raise vlib.GoBuildError("./cmd/c20 (log run)", raw[-3000:])
            for c, o in zip(cs, res["outs"]):
                k = c["id"] + 1
                cc = c if c.get("build") != "race" else dict(c, rounds=max(4, c["rounds"] // 4))
                by_id[k] = {"case": c, "outcome": o["outcome"], "report": o.get("report", ""), "reference_lines": o.get("ref"),
                            "rounds": o.get("rounds"), "unknown_lines": o.get("bad")}
                terms.append(log_term(k, cc, o))
    if strs:
        # one Coq case per DISTINCT observation of a stress case; ids follow the ids of the other cases
        nxt = max(c["id"] for c in cases) + 2
        from concurrent.futures import ThreadPoolExecutor
        groups = [("plain", binp, [c for c in strs if c.get("build") != "race"]),
                  ("race", binrace, [c for c in strs if c.get("build") == "race"])]

        def go(g):
            if not g[2]:
                return (0, {"outs": []}, "")
            return vlib.run_json(g[1], {"mode": "stress", "stress": [stress_payload(c) for c in g[2]], "par": 6}, timeout=1500)

        with ThreadPoolExecutor(max_workers=2) as ex:
            results = list(ex.map(go, groups))
        for (build, _, cs), (rc, res, raw) in zip(groups, results):
            if res is None:
                raise vlib.GoBuildError("./cmd/c20 (stress run, %s build)" % build, raw[-3000:])
            for c, o in zip(cs, res["outs"]):
                obs = o.get("obs") or []
                if o["outcome"] != "ok" or not obs:
                    obs = [None]
                for ob in obs:
                    k, nxt = nxt, nxt + 1
                    by_id[k] = {"case": c, "outcome": o["outcome"] if (ob or o["outcome"] != "ok") else "crash",
                                "report": o.get("report", ""), "rounds": o.get("rounds", 0),
                                "distinct_observations": len(o.get("obs") or []), "obs": ob}
                    sterms.append(stress_term(k, c, by_id[k]["outcome"], ob))
    if scans:
        # timed scan histories (normal build): one Coq case per reported round; ids follow all the others
        nxt = max([c["id"] for c in cases] + list(by_id)) + 2
        rc, res, raw = vlib.run_json(binp, {"mode": "stress", "stress": [stress_payload(c) for c in scans], "par": 4}, timeout=1500)
        if res is None:
            raise vlib.GoBuildError("./cmd/c20 (scan run)", raw[-3000:])
        for c, o in zip(scans, res["outs"]):
            obs = o.get("obs") or []
            if o["outcome"] != "ok" or not obs:
                obs = [None]
            for ob in obs:
                k, nxt = nxt, nxt + 1
                by_id[k] = {"case": c, "outcome": o["outcome"] if (ob or o["outcome"] != "ok") else "crash",
                            "report": o.get("report", ""), "rounds": o.get("rounds", 0),
                            "rounds_flagged_by_prescreen": o.get("flagged", 0),
                            "rounds_with_overlap": o.get("overlap", 0),
                            "flagged": bool(ob and ob.get("flagged")), "obs": ob}
                sterms.append(scan_term(k, c, by_id[k]["outcome"], ob))
    defs = {"M": "mismatches", "V": "violations", "NT": "count_nontrivial", "NTI": "nontrivial_ids"}
    # the stress observations are larger terms: their own, smaller shards, evaluated alongside the others
    from concurrent.futures import ThreadPoolExecutor
    with ThreadPoolExecutor(max_workers=2) as ex:
        f1 = ex.submit(vlib.coq_eval_sharded, ctx, "cases_c20_" + tag, HEADER, terms, defs, 120)
        f2 = ex.submit(vlib.coq_eval_sharded, ctx, "cases_c20s_" + tag, HEADER, sterms, defs, 24) if sterms else None
        out = f1.result()
        if f2:
            o2 = f2.result()
            out = {n: out[n] + o2[n] for n in out}
    return by_id, out["M"], out["V"], out["NTI"], len(terms) + len(sterms)


def _spec(m, o):
    """sequential spec on a dict (python mirror of SyncMap.spec; used only to keep the known-finding class narrow)"""
    op, k, v = o["op"], o.get("k", 0), o.get("v", 0)
    if op == "load":
        return m, ("val", m.get(k))
    if op in ("store", "put"):
        m = dict(m)
        m[k] = v if op == "store" else 0
        return m, ("none",)
    if op in ("los", "losf"):
        if k in m:
            return m, ("los", m[k], True)
        m = dict(m)
        m[k] = v
        return m, ("los", v, False)
    if op in ("delete", "remove"):
        m = dict(m)
        m.pop(k, None)
        return m, ("none",)
    if op == "exists":
        return m, ("bool", k in m)
    return m, ("list", sorted(m.items()))


def _ret(o, r):
    op = o["op"]
    if op == "load":
        return ("val", r["v"] if r["found"] else None)
    if op in ("store", "delete", "put", "remove"):
        return ("none",)
    if op in ("los", "losf"):
        return ("los", r["v"], r["loaded"])
    if op == "exists":
        return ("bool", r["found"])
    return ("list", sorted((p[0], p[1]) for p in (r["pairs"] or [])))


def lin_ok(recs, m=None):
    """brute-force linearizability (Wing & Gong) of operation records"""
    m = m or {}
    if not recs:
        return True
    for i, a in enumerate(recs):
        if any(b["res"] < a["inv"] for b in recs):
            continue
        m2, r = _spec(m, a["o"])
        if r == _ret(a["o"], a["r"]) and lin_ok(recs[:i] + recs[i + 1:], m2):
            return True
    return False


def classify_known(c):
    """KF-C20c: a Range / ForEach whose interval overlaps >= 2 writes of other threads to distinct keys, in a history
    that is linearizable once the Range / ForEach operations are left out (so nothing else is wrong with it)"""
    cc = c.get("case", {})
    if cc.get("kind") != "hist" or c.get("outcome") != "ok":
        return None
    recs = records_of(cc, c["events"])
    hit = False
    for r in recs:
        if r["o"]["op"] in ("range", "toarray"):
            keys = {w["o"]["k"] for w in recs
                    if w["t"] != r["t"] and mutating(w["o"]) and w["inv"] < r["res"] and r["inv"] < w["res"]}
            if len(keys) >= 2:
                hit = True
    if hit and len(recs) <= 14 and lin_ok([r for r in recs if r["o"]["op"] not in ("range", "toarray")]):
        return "KF-C20c"
    return None


def stress_distribution(by_id):
    """volumes of the stress stream: scenarios and child runs per container / workload / build, goroutines, operations"""
    runs = {}      # (case id) -> entry: one child run
    for i in by_id:
        e = by_id[i]
        if e["case"]["kind"] == "stress":
            runs.setdefault(e["case"]["id"], []).append(e)
    d = {"child_runs": len(runs), "observations_evaluated": sum(len(v) for v in runs.values()),
         "rounds_run": 0, "by_container": {}, "by_workload": {}, "by_build": {}, "by_container_and_workload": {},
         "goroutines": {}, "operations_per_round_parallel": 0, "operations_per_round_coda": 0, "operations_executed": 0,
         "api_methods": {}, "outcomes": {}}
    names = {"map": {"load": "Map.Load", "store": "Map.Store", "los": "Map.LoadOrStore", "losf": "Map.LoadOrStoreFn",
                     "delete": "Map.Delete", "range": "Map.Range", "rangestop": "Map.Range(stop early)"}}
    names["reg"] = {"load": "DefinitionRegistry.GetMetaByName", "store": "DefinitionRegistry.RegisterMeta",
                    "losf": "DefinitionRegistry.GetMetaOrRegister", "range": "DefinitionRegistry.GetMetas",
                    "rangeopt": "DefinitionRegistry.GetMetas(opts...)"}
    for pre, t in (("ConcurrentSets.", "cset"), ("gcset.", "gset")):
        names[t] = {"put": pre + "Put", "exists": pre + "Exists", "remove": pre + "Remove", "toarray": pre + "ToArray",
                    "foreach": pre + "ForEach", "length": pre + "Length", "existsany": pre + "ExistsAny",
                    "existsall": pre + "ExistsAll", "putall": pre + "PutAll", "removeall": pre + "RemoveAll"}

    def bump(m, k, n=1):
        m[k] = m.get(k, 0) + n

    for es in runs.values():
        c, rounds = es[0]["case"], es[0].get("rounds", 0)
        bump(d["by_container"], c["target"])
        bump(d["by_workload"], c["workload"])
        bump(d["by_build"], c.get("build", "plain"))
        bump(d["by_container_and_workload"], c["target"] + "/" + c["workload"])
        bump(d["goroutines"], str(len(c["progs"])))
        bump(d["outcomes"], es[0]["outcome"])
        npar, nfin = sum(len(p) for p in c["progs"]), len(c["fin"])
        d["rounds_run"] += rounds
        d["operations_per_round_parallel"] += npar
        d["operations_per_round_coda"] += nfin
        d["operations_executed"] += rounds * (npar + nfin)
        for o in [o for p in c["progs"] for o in p] + c["fin"]:
            bump(d["api_methods"], names[c["target"]][o["op"]], rounds)
        if c["init"] and c["target"] != "map":
            bump(d["api_methods"], ("NewConcurrentSets(arr...)" if c["target"] == "cset" else "NewGenericConcurrentSets(arr...)"), rounds)
    return d


def scan_distribution(by_id):
    """volumes of the timed scan stream: scenarios per container, rounds run / reported to Coq / flagged by the driver's
    pre-screen, operations, full scans / early-stopped scans / point reads, writes and deletes per reported round"""
    runs = {}
    for i in by_id:
        e = by_id[i]
        if e["case"]["kind"] == "scan":
            runs.setdefault(e["case"]["id"], []).append(e)
    d = {"scenarios": len(runs), "by_container": {}, "rounds_run": 0, "rounds_evaluated_by_coq": 0,
         "rounds_flagged_by_prescreen": 0, "flagged_rounds_evaluated": 0, "rounds_in_which_a_scan_overlapped_a_write": 0,
         "overlapping_scans_in_evaluated_rounds": 0, "goroutines": {}, "churn_keys": {}, "untouched_keys": {},
         "operations_per_round": 0, "full_scans_per_round": 0, "stopped_scans_per_round": 0, "point_reads_per_round": 0,
         "writes_and_deletes_per_round": 0, "outcomes": {}}

    def bump(m, k, n=1):
        m[k] = m.get(k, 0) + n

    for es in runs.values():
        c = es[0]["case"]
        bump(d["by_container"], c["target"])
        bump(d["goroutines"], str(len(c["progs"])))
        bump(d["churn_keys"], str(c.get("churn_keys", c["nkeys"])))
        bump(d["untouched_keys"], str(c.get("stable_keys", 0)))
        bump(d["outcomes"], es[0]["outcome"])
        d["rounds_run"] += es[0].get("rounds", 0)
        d["rounds_flagged_by_prescreen"] += es[0].get("rounds_flagged_by_prescreen", 0)
        d["rounds_in_which_a_scan_overlapped_a_write"] += es[0].get("rounds_with_overlap", 0)
        d["overlapping_scans_in_evaluated_rounds"] += sum((e.get("obs") or {}).get("overlap", 0) for e in es)
        d["rounds_evaluated_by_coq"] += sum(1 for e in es if e.get("obs"))
        d["flagged_rounds_evaluated"] += sum(1 for e in es if e.get("flagged"))
        ops = [o["op"] for p in c["progs"] for o in p]
        d["operations_per_round"] += len(ops)
        d["full_scans_per_round"] += sum(1 for o in ops if o in ("range", "toarray", "foreach"))
        d["stopped_scans_per_round"] += sum(1 for o in ops if o == "rangestop")
        d["point_reads_per_round"] += sum(1 for o in ops if o in ("load", "exists"))
        d["writes_and_deletes_per_round"] += sum(1 for o in ops if o in ("store", "los", "losf", "delete", "put", "remove"))
    return d


def construction_distribution(by_id):
    """how the containers of the scenarios were obtained, per stream (a stress / log scenario run in both builds counts once per
    build); `zero_value_and_untouched_before_the_barrier`: declared containers whose first operations are the concurrent ones"""
    d = {"by_stream_and_constructor": {}, "zero_value_and_untouched_before_the_barrier": 0, "free_histories_with_barrier_start": 0}
    seen = set()
    for i in by_id:
        c = by_id[i]["case"]
        if c["kind"] not in ("seq", "hist", "stress", "scan") or (c["kind"], c["id"]) in seen:
            continue
        seen.add((c["kind"], c["id"]))
        k = "%s/%s/%s" % (c["kind"], c["target"], c.get("ctor", "new"))
        d["by_stream_and_constructor"][k] = d["by_stream_and_constructor"].get(k, 0) + 1
        if c["kind"] in ("stress", "scan") and c.get("ctor", "new") != "new" and not c["init"]:
            d["zero_value_and_untouched_before_the_barrier"] += 1
        if c["kind"] == "hist" and c.get("barrier"):
            d["free_histories_with_barrier_start"] += 1
            if c.get("ctor", "new") != "new":
                d["zero_value_and_untouched_before_the_barrier"] += 1
    return d


def log_distribution(by_id):
    es = [by_id[i] for i in by_id if by_id[i]["case"]["kind"] == "log"]
    d = {"child_runs": len(es), "by_build": {}, "root_level": {}, "goroutines": {}, "gomaxprocs": {}, "outcomes": {},
         "rounds_run": 0, "lines_checked": 0, "calls_per_round": 0, "calls_that_print_per_round": 0,
         "calls_with_a_yielding_operand_per_round": 0, "scenarios_with_all_goroutines_on_one_logger": 0}

    def bump(m, k, n=1):
        m[k] = m.get(k, 0) + n

    for e in es:
        c = e["case"]
        bump(d["by_build"], c.get("build", "plain"))
        bump(d["root_level"], c["lv"])
        bump(d["goroutines"], str(len(c["progs"])))
        bump(d["gomaxprocs"], str(c["procs"]))
        bump(d["outcomes"], e["outcome"])
        d["rounds_run"] += len(e.get("rounds") or [])
        d["lines_checked"] += sum(len(r) for r in (e.get("rounds") or []))
        ops = [o for p in c["progs"] for o in p]
        d["calls_per_round"] += len(ops)
        d["calls_that_print_per_round"] += sum(1 for o in ops if log_prints(c, o))
        d["calls_with_a_yielding_operand_per_round"] += sum(1 for o in ops if any(a["k"] in "eg" for a in o["args"]))
        d["scenarios_with_all_goroutines_on_one_logger"] += len({o["l"] for o in ops}) == 1
    return d


def case_size(c):
    cc = c["case"]
    if cc["kind"] == "seq":
        return (0, len(cc["ops"]))
    if cc["kind"] == "hist":
        return (1, sum(len(t["ops"]) for t in cc["threads"]))
    if cc["kind"] == "stress":   # a wrong answer (normal build) before a race report, smaller programs first
        return (3, c.get("outcome") != "ok", sum(len(p) for p in cc["progs"]))
    if cc["kind"] == "scan":
        return (4, c.get("outcome") != "ok", sum(len(p) for p in cc["progs"]))
    if cc["kind"] == "log":   # spliced lines (normal build) before a race report
        return (2, c.get("outcome") != "ok", sum(len(p) for p in cc["progs"]))
    return (2, False, cc["n"] + cc["closers"])


def run(ctx):
    static_ok = vlib.static_obligations(ctx)
    have_thm = "c20_race_free" in vlib.theorems_of(ctx.id)
    fp_ok, fp = c20fp.c20_obligations(ctx, theorem_available=have_thm and static_ok)
    binp = vlib.go_build(ctx, "./cmd/c20")
    binrace = vlib.go_build(ctx, "./cmd/c20", out=ctx.wpath("bin_c20_race"), race=True)
    bins = (binp, binrace)
    nseq, nhist, nrace, nstress = (1000, 600, 60, 90) if ctx.quick() else (10000, 5000, 500, 1000)
    nscan = 18 if ctx.quick() else 150
    nlog = 16 if ctx.quick() else 150
    cases = []
    if ctx.replay:
        r = json.load(open(ctx.replay))
        cc = r.get("case", {}).get("case")
        cases = [dict(cc, id=0)] if cc else []
    if not cases:
        for c in load_corpus():    # a stress / log scenario of the corpus runs in both builds
            for build in (("plain", "race") if c["kind"] in ("stress", "log") else (None,)):
                cases.append(dict(c, id=len(cases), build=build) if build else dict(c, id=len(cases)))
        for _ in range(nseq):
            cases.append(gen_seq(ctx.rng, len(cases)))
        for _ in range(nhist):
            cases.append(gen_hist(ctx.rng, len(cases)))
        for i in range(nrace):   # every other start / shutdown runs with the library's own logger printing
            cases.append(gen_race(ctx.rng, len(cases), force_multi=(i % 4 == 0), logged=(i % 2 == 1)))
        # every stress scenario runs in the normal build and in the -race build; the first scenarios cover every
        # container x workload combination
        combos = [(w, t, None) for w in ("lanes", "disjoint", "shared", "tiny") for t in STRESS_TARGETS]
        # ... and every way to obtain a container that has a usable zero value, first on the workloads whose answers
        # are fully determined (own keys) or fully searched (tiny)
        combos += [(w, t, ct) for t in ("map", "cset") for ct in CTORS[t][1:] for w in ("tiny", "lanes")]
        for i in range(nstress):
            w, t, ct = combos[i] if i < len(combos) else (None, None, None)
            sc = gen_stress(ctx.rng, 0, workload=w, target=t, ctor=ct)
            for build in ("plain", "race"):
                cases.append(dict(sc, id=len(cases), build=build))
        # timed scans against churn; the first ones cover every container
        for i in range(nscan):
            cases.append(gen_scan(ctx.rng, len(cases), target=("map", "cset", "gset", "map", "cset")[i] if i < 5 else None,
                                  quick=ctx.quick(), ctor=("new", "new", "new", "var", "field")[i] if i < 5 else None))
        # the library's logger shared by goroutines: every scenario in the normal build and in the -race build
        for i in range(nlog):
            lc = gen_log(ctx.rng, 0, quick=ctx.quick())
            for build in ("plain", "race"):
                cases.append(dict(lc, id=len(cases), build=build))
    by_id, M, V, NTI, nev = evaluate(ctx, bins, cases, "main")
    kinds = {}
    for i in by_id:
        k = by_id[i]["case"]["kind"]
        kinds[k] = kinds.get(k, 0) + 1
    ctx.log("cases=%d evaluated=%d %s nontrivial=%d mismatches=%d violations=%d" % (len(cases), nev, kinds, len(NTI), len(M), len(V)))
    V.sort(key=lambda i: (classify_known(by_id[i]) is not None, case_size(by_id[i]), i))
    M.sort(key=lambda i: (case_size(by_id[i]), i))

    def key(c):
        c = dict(c)
        c.pop("id", None)
        c.pop("build", None)   # one stress scenario run in both builds is one scenario
        return vlib.stable_hash(c)

    distinct_nt = len({key(by_id[i]["case"]) for i in NTI})
    nt_kinds = {}
    for i in NTI:
        k = by_id[i]["case"]["kind"]
        nt_kinds[k] = nt_kinds.get(k, 0) + 1

    def widen():
        ctx.rng.seed(ctx.seed + 99)
        more = []
        for _ in range(60):
            more.append(gen_race(ctx.rng, len(more), force_multi=True))
        for _ in range(300):
            more.append(gen_hist(ctx.rng, len(more)))
        for _ in range(60):
            sc = gen_stress(ctx.rng, 0)
            for build in ("plain", "race"):
                more.append(dict(sc, id=len(more), build=build))
        for _ in range(20):
            more.append(gen_scan(ctx.rng, len(more), quick=ctx.quick()))
        for _ in range(20):
            lc = gen_log(ctx.rng, 0, quick=ctx.quick())
            for build in ("plain", "race"):
                more.append(dict(lc, id=len(more), build=build))
        b2, _, V2, _, _ = evaluate(ctx, bins, more, "widen")
        bad = [i for i in V2 if classify_known(b2[i]) is None]
        bad.sort(key=lambda i: case_size(b2[i]))
        return [b2[i] for i in bad[:3]]

    def shrink(c):
        cur = shrink0(c)
        # one replay file names every defect: the smallest failing case of each other kind is attached
        others = {}
        for i in V:
            k = by_id[i]["case"]["kind"]
            if k != c["case"]["kind"] and k not in others and classify_known(by_id[i]) is None:
                others[k] = shrink0(by_id[i])
        if others:
            cur = dict(cur, also_failing=others)
        return cur

    def shrink0(c):
        cur = c
        for _round in range(10):
            cc = cur["case"]
            cands = []
            if cc["kind"] == "race":
                if cc["n"] > len(cc["fail_scan"]) and cc["n"] > 1:
                    keep = [i for i in range(cc["n"]) if i in cc["fail_scan"]] + [i for i in range(cc["n"]) if i not in cc["fail_scan"]][:-1]
                    cands.append(dict(cc, n=len(keep), fail_scan=list(range(len(cc["fail_scan"])))))
                if len(cc["fail_scan"]) > 2:
                    cands.append(dict(cc, fail_scan=cc["fail_scan"][:-1]))
                if cc["closers"]:
                    cands.append(dict(cc, closers=0, fail_close=[]))
                if cc["closers"] > len(cc["fail_close"]):
                    cands.append(dict(cc, closers=len(cc["fail_close"]), fail_close=list(range(len(cc["fail_close"])))))
                if len(cc["fail_close"]) > 2:
                    cands.append(dict(cc, fail_close=cc["fail_close"][:-1]))
                if cc.get("log_lv"):
                    cands.append(dict(cc, log_lv=""))
                if cc["concurrent"]:
                    cands.append(dict(cc, concurrent=0))
                if cc["scanners"] > 1:
                    cands.append(dict(cc, scanners=1))
            elif cc["kind"] == "log":
                # fewer goroutines, shorter lists; a candidate counts only if it fails again
                if len(cc["progs"]) > 2:
                    for g in range(len(cc["progs"])):
                        cands.append(dict(cc, progs=cc["progs"][:g] + cc["progs"][g + 1:]))
                if max(len(p) for p in cc["progs"]) > 1:
                    cands.append(dict(cc, progs=[p[:(len(p) + 1) // 2] for p in cc["progs"]]))
                    cands.append(dict(cc, progs=[p[len(p) // 2:] for p in cc["progs"]]))
            elif cc["kind"] == "seq":
                for i in range(len(cc["ops"])):
                    cands.append(dict(cc, ops=cc["ops"][:i] + cc["ops"][i + 1:]))
            elif cc["kind"] == "stress":
                # fewer goroutines (the last key range goes with its owner), shorter programs, shorter coda, no contents;
                # a candidate counts only if it fails again, so the probabilistic failures of the normal build shrink less
                G, W = len(cc["progs"]), cc["width"]
                if G > 2:
                    nk = cc["nkeys"] - W if W else cc["nkeys"]
                    inside = lambda o: o.get("k", 0) < nk and all(x < nk for x in o.get("ks", []))
                    cands.append(dict(cc, progs=cc["progs"][:-1], nkeys=nk, init=[p for p in cc["init"] if p[0] < nk],
                                      fin=[o for o in cc["fin"] if inside(o)]))
                if max(len(p) for p in cc["progs"]) > 2:
                    cands.append(dict(cc, progs=[p[:(len(p) + 1) // 2] for p in cc["progs"]]))
                    cands.append(dict(cc, progs=[p[len(p) // 2:] for p in cc["progs"]]))
                if len(cc["fin"]) > 4:
                    cands.append(dict(cc, fin=cc["fin"][:len(cc["fin"]) // 2]))
                if cc["init"]:
                    cands.append(dict(cc, init=[]))
                if cc["rounds"] < 64 and c.get("outcome") == "ok":
                    cands = [dict(x, rounds=64) for x in cands]
            elif cc["kind"] == "scan":
                # fewer goroutines, shorter programs; the failure is probabilistic: more rounds, and a candidate counts
                # only if a round of it fails again
                if len(cc["progs"]) > 2:
                    for g in range(len(cc["progs"])):
                        cands.append(dict(cc, progs=cc["progs"][:g] + cc["progs"][g + 1:]))
                if max(len(p) for p in cc["progs"]) > 4:
                    cands.append(dict(cc, progs=[p[:(len(p) + 1) // 2] for p in cc["progs"]]))
                cands = [dict(x, rounds=max(x["rounds"], 300), emit=1) for x in cands]
            else:
                for ti, t in enumerate(cc["threads"]):
                    for oi, o in enumerate(t["ops"]):
                        if "cb" in o or len(t["ops"]) == 1:
                            continue
                        th = [dict(x) for x in cc["threads"]]
                        th[ti] = dict(t, ops=t["ops"][:oi] + t["ops"][oi + 1:])
                        cands.append(dict(cc, threads=th))
            cands = [dict(x, id=j) for j, x in enumerate(cands[:8])]
            if not cands:
                return cur
            b2, _, V2, _, _ = evaluate(ctx, bins, cands, "shrink")
            V2 = [i for i in V2 if classify_known(b2[i]) is None]
            if not V2:
                return cur
            cur = b2[sorted(V2)[0]]
        return cur

    ids = sorted(by_id)
    samples = []
    for kind in ("seq", "hist", "race", "stress", "scan", "log"):
        ks = [i for i in ids if by_id[i]["case"]["kind"] == kind]
        if kind in ("stress", "scan", "log"):   # a small one (the evidence file stays readable)
            ks = sorted(ks, key=lambda i: -sum(len(p) for p in by_id[i]["case"]["progs"]))
        samples += [by_id[i] for i in ks[-1:]]
    tpls = {}
    for i in by_id:
        t = by_id[i]["case"].get("tpl")
        if t:
            tpls[t] = tpls.get(t, 0) + 1
    stress_dist = stress_distribution(by_id)
    scan_dist = scan_distribution(by_id)
    cov = {
        "evaluations": nev,
        "distinct_nontrivial": distinct_nt,
        "rule": "seq: random scripts over 1-4 keys on sync2.Map / ConcurrentSets / generic concurrent set vs the sequential spec "
                "(non-trivial: >= 4 ops with a mutation and a read); hist: histories recorded from the real containers with forced "
                "interleavings - f of LoadOrStoreFn blocks until other threads ran, Range/ForEach callbacks start writers, plus "
                "free-running threads (non-trivial: two operations of different threads overlap in real time); race: real "
                "App.Run + App.Close under the Go race detector with failing scanners and failing closers, half of them with the "
                "library's own logger at a level at which it prints what the goroutines report (trace / debug / info / warn / error; "
                "output to a discarded sink; the scanners then log through a shared syslog.Pref logger too) (non-trivial: >= 2 "
                "scanners fail in the same pass, or >= 2 goroutines report through the printing logger); log: G goroutines "
                "released together print through shared syslog loggers (root logger, cached Pref loggers, every level, operands "
                "whose Error() / String() yields), normal and -race build, every round of the output must be an interleaving of "
                "the goroutines' line sequences (non-trivial: two goroutines print through the same logger); every container "
                "is obtained in every legal way (constructor / declared zero value as variable, field, embedded field, slice "
                "element, new(T), literal), the declared ones mostly untouched before the barrier opens; stress: G goroutines released together by a spin barrier run generated "
                "operation lists on one shared sync2.Map / ConcurrentSets / generic concurrent set / definition registry in parallel, each scenario in "
                "a child process in the normal build and in the -race build, several rounds, one Coq case per distinct "
                "observation (non-trivial: >= 2 goroutines mutate the container); scan: timed histories (a ticket from one atomic "
                "counter before every call and after every return) of scanners (Range / ToArray / ForEach, Ranges stopped early, "
                "Load / Exists) running in parallel with goroutines that store, delete and load-or-store the same 1-4 keys, values "
                "unique per operation and never the zero value, plus keys nobody touches; normal build, many rounds per scenario; "
                "the most contended rounds (most full scans overlapping a write / delete in tickets) and the rounds the driver's own "
                "copy of the conditions flags are evaluated by "
                "ScanCheck.scan_check (non-trivial: a full scan overlaps a write or delete in tickets); "
                "distinct = distinct scenario descriptions",
        "samples": samples,
        "traces_validated_against_impl": kinds.get("hist", 0),
        "input_distribution": {"kinds": kinds, "nontrivial_by_kind": nt_kinds, "hist_templates": tpls,
                               "stress": stress_dist, "timed_scans": scan_dist,
                               "constructions": construction_distribution(by_id),
                               "library_logger": log_distribution(by_id),
                               "race_scenarios_by_library_log_level":
                                   {lv or "silenced": sum(1 for i in by_id if by_id[i]["case"]["kind"] == "race"
                                                          and by_id[i]["case"].get("log_lv", "") == lv)
                                    for lv in [""] + sorted(set(LOG_LEVELS))},
                               "race_scenarios_with_2plus_goroutines_reporting_through_the_printing_logger":
                                   sum(1 for i in by_id if by_id[i]["case"]["kind"] == "race" and race_nlogged(by_id[i]["case"]) >= 2),
                               "race_shutdowns_with_2plus_failing_closers_and_printing_logger":
                                   sum(1 for i in by_id if by_id[i]["case"]["kind"] == "race" and by_id[i]["case"].get("log_lv")
                                       and not by_id[i]["case"]["fail_scan"] and len(by_id[i]["case"]["fail_close"]) >= 2),
                               "race_scenarios_with_2plus_failing_scanners":
                                   sum(1 for i in by_id if by_id[i]["case"]["kind"] == "race" and len(by_id[i]["case"]["fail_scan"]) >= 2)},
        "footprint": {n: {"vars": [v["name"] for v in f["vars"]], "add_before_go": f["add_before_go"],
                          "done_deferred": f["done_deferred"], "wait_after": f["wait_after"]} for n, f in fp.items()},
    }
    return vlib.decide(ctx, static_ok and fp_ok, by_id, M, V, cov, classify_known=classify_known, widen=widen, shrink=shrink,
                       assumptions=["Go scheduler, sync.WaitGroup, sync.Mutex, sync.Map primitive atomicity and the Go memory model's "
                                    "happens-before are modelled (Conc.v, SyncMap.v), not verified",
                                    "callee code below the goroutine closures is checked dynamically by the race detector only",
                                    "histories are ordered by appends under one mutex, never by wall-clock time",
                                    "timed scan histories: the tickets come from one atomic counter (before the call / after the "
                                    "return), so ticket order implies real-time order; of the rounds run only the most contended ones and "
                                    "those flagged by the driver's copy of the conditions are evaluated in Coq (selection only)",
                                    "stress runs sample the schedules the Go runtime produces on this machine (spin barrier, several "
                                    "rounds, normal and -race build); a verdict never depends on timing: every oracle is a consequence "
                                    "of atomicity that holds for all schedules"])
