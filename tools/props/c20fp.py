"""Closure footprint of App.Close / applyDefinitionRegistryPostProcessors, extracted from the repository's current
source with go/ast (harness/cmd/c20fp) on every run and turned into Facts_C20.v (instantiated obligations).
Helper shared by the C20 and C14 checks."""
import json
import os

import vlib

HEADER = ("From Coq Require Import List Arith Bool.\nFrom IocVerif Require Import Model.Conc.\n"
          "Import ListNotations.\n")


def extract(ctx):
    if getattr(ctx, "_fp", None) is not None:
        return ctx._fp
    binp = vlib.go_build(ctx, "./cmd/c20fp")
    rc, out = vlib.sh([binp, ctx.repo], timeout=120)
    fp = None
    for ln in out.splitlines():
        if ln.startswith("@@JSON "):
            fp = json.loads(ln[7:])
    if fp is None:
        raise vlib.GoBuildError("./cmd/c20fp (run)", out[-2000:])
    ctx._fp = {f["name"]: f for f in fp["funcs"]}
    return ctx._fp


def recognised(f):
    return bool(f.get("found")) and f.get("closures") == 1 and f.get("in_loop")


def fp_term(f):
    """Coq term of type footprint for one function"""
    ids = {v["name"]: i + 1 for i, v in enumerate(f["vars"])}
    extra = {}

    def lock_id(name):
        if not name:
            return 0
        if name in ids:
            return ids[name]
        return extra.setdefault(name, 100 + len(extra))

    vs = []
    for v in f["vars"]:
        child = vlib.coq_list("(%s, %d, %s)" % (vlib.coq_bool(a["w"]), lock_id(a["lock"]), vlib.coq_bool(a["cond"]))
                              for a in v["child"])
        pre, mid, post = (vlib.coq_list(vlib.coq_bool(a["w"]) for a in v[k]) for k in ("pre", "mid", "post"))
        vs.append("mkCvar %d %s %s %s %s %s" % (ids[v["name"]], vlib.coq_bool(v["sync"]), child, pre, mid, post))
    return "mkFp %s %s %s %s" % (vlib.coq_bool(f["add_before_go"]), vlib.coq_bool(f["done_deferred"]),
                                 vlib.coq_bool(f["wait_after"]), vlib.coq_list(vs))


def facts_text(fp, with_theorem=True):
    lines = [HEADER]
    if with_theorem:
        lines[0] += "From IocVerif Require Import Properties.C20.\n"
    for name, cname in (("applyDefinitionRegistryPostProcessors", "fp_scan"), ("Close", "fp_close")):
        f = fp[name]
        lines.append("(* %s in %s: captured %s *)" % (name, f["file"], ", ".join(v["name"] for v in f["vars"])))
        lines.append("Definition %s : footprint := %s." % (cname, fp_term(f)))
        lines.append("Definition F_%s := Eval vm_compute in (if footprint_race_free %s then 1 else 0).\nPrint F_%s."
                     % (cname, cname, cname))
    return "\n".join(lines) + "\n"


THEOREM_INST = """
(* the race-freedom theorem instantiated on the extracted footprints *)
Lemma scan_phase_race_free : forall n passes fails c tr,
  reach (phase_prog fp_scan n passes fails) c tr -> ~ race tr.
Proof. apply c20_race_free. vm_compute. reflexivity. Qed.
Lemma close_phase_race_free : forall n fails c tr,
  reach (phase_prog fp_close n 1 fails) c tr -> ~ race tr.
Proof. intros n fails. apply (c20_race_free fp_close). vm_compute. reflexivity. Qed.
"""


def c20_obligations(ctx, theorem_available=True):
    """Facts_C20.v: footprint_race_free re-proved by vm_compute on the extracted footprints. Returns (ok, fp)."""
    fp = extract(ctx)
    ok = True
    for name in ("applyDefinitionRegistryPostProcessors", "Close"):
        f = fp[name]
        r = recognised(f)
        ctx.oblige("instantiated: goroutine structure of %s recognised (one go closure in a loop)" % name, r,
                   json.dumps({k: f.get(k) for k in ("found", "closures", "in_loop", "notes")}))
        ok = ok and r
    if not ok:
        return False, fp
    text = facts_text(fp, with_theorem=theorem_available)
    try:
        res = vlib.coq_eval(ctx, "Facts_C20", text, ["F_fp_scan", "F_fp_close"], timeout=300)
    except vlib.CoqEvalError as ex:
        ctx.oblige("instantiated: Facts_C20.v compiles", False, ex.out[-1500:])
        return False, fp
    for cname, name in (("fp_scan", "applyDefinitionRegistryPostProcessors"), ("fp_close", "Close")):
        good = res["F_" + cname] == [1]
        detail = "; ".join("%s: child=%s mid=%s" % (v["name"], [(a["w"], a["lock"], a["cond"]) for a in v["child"]],
                                                     [a["w"] for a in v["mid"]]) for v in fp[name]["vars"] if not v["sync"])
        ctx.oblige("instantiated: footprint_race_free %s = true (%s, extracted from source)" % (cname, name), good, detail)
        ok = ok and good
    if ok and theorem_available:
        try:
            vlib.coq_eval(ctx, "Facts_C20_thm", text + THEOREM_INST, [], timeout=300)
            ctx.oblige("instantiated: c20_race_free applied to fp_scan and fp_close (Qed)", True, "")
        except vlib.CoqEvalError as ex:
            ctx.oblige("instantiated: c20_race_free applied to fp_scan and fp_close (Qed)", False, ex.out[-1500:])
            ok = False
    return ok, fp


def close_structure_obligation(ctx):
    """C14: the WaitGroup protocol of App.Close as read from the source. Advisory when the shape is not recognised."""
    try:
        fp = extract(ctx)
    except vlib.GoBuildError as ex:
        ctx.notes.append("c20fp could not run: %s" % ex)
        return True
    f = fp["Close"]
    if not recognised(f):
        ctx.notes.append("App.Close is not of the shape 'go closure in a loop' any more; the structural obligation is skipped, "
                         "the behavioural correspondence still applies")
        return True
    good = f["add_before_go"] and f["done_deferred"] and f["wait_after"]
    ctx.oblige("instantiated: App.Close executes wg.Add before go, defers wg.Done first, waits after the loop (go/ast)",
               good, json.dumps({k: f[k] for k in ("add_before_go", "done_deferred", "wait_after", "notes")}))
    return good
