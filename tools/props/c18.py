"""C18 - expressions run after placeholder substitution, validation after binding.

Every case is a real App.Run (harness/cmd/c18) with one tagged field, observed after the ${} stage, after the #{}
stage, after binding and after validation.  expr-lang and go-playground/validator are oracles: the driver calls them
directly (expression text after substitution; final field value + the constraints the generator wrote) and hands
both tables to the model (Model/Pipeline.v) and to the property oracle (Corr/Check_C18.v).
Stream `multipass` (and a share of the placeholders of the other expression streams): placeholders inside the expression that need
more than one substitution pass - nested keys, configured values / defaults that contain placeholders (G.deep, G.dependent).
Stream `vstruct`: struct-valued validation targets - the field's Go type is built by the driver (reflect.StructOf) from a generated
shape with nested non-pointer structs, pointers to structs, slices / maps of structs tagged required / dive,required / ..., the
section of each present, missing, all-zero or with a zero element (gen_vstruct_case).
Stream `multi`: ONE component with 2-4 tagged fields (gen_multi_case) - start-up fails in validation iff at least one bound value violates.
Stream `pholder`: the validated field(s) on a generated component type that is itself a container.ComponentPostProcessor (unordered /
Ordered / Priority-ordered, lazy or not, named before / after the built-in processors): gen_pholder_case, holder_source, holder_info;
eager holders the ordering puts in front of the validate processor are known finding KF-C05a, every other violation is reported.
Instantiated obligation: class / Order() of the real built-in processors, read on every run -> Facts_C18.v ->
`staged facts = true` and `staged_classes facts = true` re-proved by vm_compute.
"""
import json

import vlib
from props import c16 as P

MANIFEST = {
    "level": "proof",
    "text": "Rocq theorems over Model/Pipeline.v (stage order computed by sort_participants from the processors' class/Order): "
            "class facts imply ${} before #{} before binding before validation for any further processors; a staged sequence makes "
            "the pipeline the composition ${};#{};bind;validate; the evaluator is handed exactly the fully substituted expression "
            "text and the field receives decode(parse_any(format_any(result))); start-up fails in validation iff the verdict on the "
            "bound value is negative; for a component with several properties the validate processor fails start-up iff at least one "
            "of them violates (c18_component_validate_any); a component that is an eager post processor itself sees exactly the "
            "processors sorted before it (active_order; c18_holder_sees_earlier_processors: the whole built-in pipeline for an "
            "unordered one). `staged` is re-proved on the facts read from the real processors each run; the model is "
            "compared with real App.Run starts (expr-lang and validator called directly as oracles) of components with one or "
            "several tagged fields, plain or post processors of every ordering class; order-sensitive constraint lists through placeholders and expressions, a share of the cases under a logger that formats every message; values that consist of blanks",
    "design_ref": "DESIGN.md 5 C18",
    "note": "trusted: Coq kernel + vm_compute; hand-written pipeline model; expr-lang and validator as oracles (Section variables; the "
            "driver's reference validator is its own instance, built with WithRequiredStructEnabled: `required` on a struct value means "
            "not the zero struct); "
            "mapstructure decoding modelled only for scalar field types in the harness comparison (not in theorems); Go driver, generators; "
            "the variant fx of the ${} callback (float64 spliced by strconv2.FormatAny, or in plain digits after repair D-C17g; theorems hold "
            "for both) is read off the running code by a probe case on every run; holder types are generated Go source; the factory's "
            "sorted processor sequence is read from private fields of the delegate (cross-check only)",
    "technique": "Rocq proof (Sorter contract + StronglySorted for the order, case analysis for the pipeline) + instantiated "
                 "obligation on extracted Order facts + vm_compute correspondence",
}

vlib.load_known = P._load_known

hx, unhx = P.hx, P.unhx

# ------------------------------------------------------------------------------------------------
# expression generator.  An expression is built as a list of pieces: plain text or ("ph", key, default-or-None);
# the generator knows the configuration, so it knows the text after substitution.

SCALARS = {"a": 2, "b": 7, "n0": 0, "neg": -3, "big": 65535, "f": ("dec", 15, -1), "g": ("dec", 25, -2), "t": True, "u": False,
           "s": "dev", "w": "x1", "e": ""}


def val_text(v):
    if v is True:
        return "true"
    if v is False:
        return "false"
    if isinstance(v, tuple):
        return P.dec_text(v[1], v[2])
    return str(v)


# Multi-pass placeholders: text that el.ReplaceAllContent resolves only by scanning the string again after a substitution, because
# a `${...}` becomes matchable through an earlier substitution.  Three forms, freely nested (G.deep):
#   nested    ${limits.${tier}}      the key is built from another placeholder (the inner one is the leftmost match of \$\{[^{}]*\})
#   indirect  ${q1} with q1: "${b}"  the CONFIGURED VALUE contains placeholders (one hop, two hops, ...; possibly with text around)
#   default   ${nope:${b}}           the default contains a placeholder (key absent: the default is used; key present: it is not)
# value groups addressed by nested keys: kind -> (group key, selector key, alternatives)
GROUPS = {
    "int": ("limits", "tier", {"silver": 3, "gold": 5, "basic": 0, "top": 100}),
    "float": ("rate", "level", {"low": ("dec", 5, -1), "high": ("dec", 25, -1)}),
    "bool": ("flag", "sw", {"up": True, "down": False}),
    "str": ("greeting", "lang", {"en": "hello", "fr": "salut", "xx": "A1"}),
}
LIT_DEFAULT = {"int": ["1", "4", "10", "0"], "float": ["0.5", "2.5"], "bool": ["true", "false"], "str": ["zz", "q1"]}


class G:
    def __init__(self, rng, tree, p_deep=0.0):
        self.rng = rng
        self.tree = tree
        self.p_deep = p_deep      # probability that a placeholder is a multi-pass one
        self.extra = {}           # configuration entries the multi-pass placeholders need (merged into the tree by full_tree)
        self.mphs = []            # the multi-pass placeholders generated: (text, features)
        self.cur = []
        self.nfresh = 0

    def full_tree(self):
        t = dict(self.tree)
        t.update(self.extra)
        return t

    def feat(self, name):
        self.cur.append(name)

    def fresh(self, stem):
        self.nfresh += 1
        return "%s%d" % (stem, self.nfresh)

    def direct(self, kind):
        """a single-pass placeholder of the kind: (text, text after substitution)"""
        rng = self.rng
        cands = [k for k, v in self.tree.items() if self.kind_of(v) == kind]
        if cands and rng.random() < 0.75:
            k = rng.choice(cands)
            return "${%s}" % k, val_text(self.tree[k])
        d = rng.choice(LIT_DEFAULT[kind])
        return "${%s:%s}" % (rng.choice(["nope", "zz.k"]), d), d

    def selector(self, kind, level):
        """a placeholder resolving to the name of one alternative of the kind's group: (group, text, name, hops)"""
        rng = self.rng
        grp, sel, alts = GROUPS[kind]
        self.extra.setdefault(grp, dict(alts))
        if sel not in self.extra:
            self.extra[sel] = rng.choice(sorted(alts))
        r = rng.random()
        if level <= 0 or r < 0.5:
            return grp, "${%s}" % sel, self.extra[sel], 0
        if r < 0.75:                                   # the selector comes from a default
            name = rng.choice(sorted(alts))
            return grp, "${no.%s:%s}" % (sel, name), name, 0
        k = self.fresh("sel")                          # the selector's configured value is a placeholder
        self.extra[k] = "${%s}" % sel
        return grp, "${%s}" % k, self.extra[sel], 1

    def deep(self, kind, level):
        """a multi-pass placeholder of the kind: (text, text after complete substitution, hops of indirection through
        configured values); level = nesting depth still to add (0: a single-pass placeholder)"""
        rng = self.rng
        if level <= 0:
            t, v = self.direct(kind)
            return t, v, 0
        form = rng.choice(["nested", "nested", "indirect", "indirect", "indirect", "default", "default"])
        if form == "nested":
            grp, stext, name, hops = self.selector(kind, level - 1)
            self.feat("nested_key")
            d = rng.choice(["", "", "", ":9"]) if kind in ("int", "float") else ""
            return "${%s.%s%s}" % (grp, stext, d), val_text(GROUPS[kind][2][name]), hops
        if form == "indirect":
            inner, val, hops = self.deep(kind, level - 1)
            key = self.fresh("q")
            pre = suf = sufv = ""
            r = rng.random()
            if kind in ("int", "float") and r < 0.25:  # the configured value is a piece of expression text with two placeholders
                o, ov = self.direct("int")
                pre, suf, sufv = "(", " + " + o + ")", " + " + ov + ")"
                self.feat("configured_value_with_text_around")
            elif kind == "str" and r < 0.35:
                pre, suf = rng.choice([("", "-x"), ("p ", ""), ("v", "_1")])
                sufv = suf
                self.feat("configured_value_with_text_around")
            self.extra[key] = pre + inner + suf
            return "${%s}" % key, pre + val + sufv, hops + 1
        # default
        inner, val, hops = self.deep(kind, level - 1)
        self.feat("default_with_placeholder")
        cands = [k for k, v in self.tree.items() if self.kind_of(v) == kind]
        if cands and rng.random() < 0.25:              # key present: the (resolved) default is not used
            k = rng.choice(cands)
            self.feat("default_with_placeholder_key_present")
            return "${%s:%s}" % (k, inner), val_text(self.tree[k]), 0
        return "${%s:%s}" % (rng.choice(["nope", "zz.k", "limits.none"]), inner), val, hops

    def mph(self, kinds, level=None):
        """one multi-pass placeholder as a piece list, its substituted text"""
        rng = self.rng
        kind = rng.choice(list(kinds))
        if level is None:
            level = rng.choice([1, 1, 1, 2, 2, 3])
        self.cur = []
        text, val, hops = self.deep(kind, level)
        self.feat("depth_%d" % level)
        self.feat("kind_" + kind)
        if hops == 1:
            self.feat("indirect_1_level")
        elif hops >= 2:
            self.feat("indirect_2plus_levels")
        self.mphs.append((text, self.cur))
        return [text], val

    def ph(self, kinds):
        """a placeholder resolving to a value of one of the kinds ('int','float','bool','str')"""
        rng = self.rng
        if self.p_deep and rng.random() < self.p_deep:
            return self.mph(kinds)
        cands = [k for k, v in self.tree.items() if self.kind_of(v) in kinds]
        if cands and rng.random() < 0.7:
            k = rng.choice(cands)
            d = rng.choice([None, None, "9"]) if self.kind_of(self.tree[k]) != "str" else None
            return [("ph", k, d)], val_text(self.tree[k])
        kind = rng.choice(list(kinds))
        d = {"int": rng.choice(["1", "4", "10", "0"]), "float": rng.choice(["0.5", "2.5"]), "bool": rng.choice(["true", "false"]),
             "str": rng.choice(["zz", "q1"])}[kind]
        return [("ph", rng.choice(["nope", "zz.k"]), d)], d

    @staticmethod
    def kind_of(v):
        if isinstance(v, bool):
            return "bool"
        if isinstance(v, int):
            return "int"
        if isinstance(v, tuple):
            return "float"
        if isinstance(v, str):
            return "str" if v else "empty"
        return "other"

    def num(self, depth):
        rng = self.rng
        r = rng.random()
        if depth >= 3 or r < 0.35:
            if rng.random() < 0.45:
                return self.ph(("int", "float") if rng.random() < 0.3 else ("int",))
            t = rng.choice(["0", "1", "2", "3", "7", "10", "100", "1.5", "0.25", "2.0", "65535"])
            return [t], t
        if r < 0.85:
            op = rng.choice([" + ", " - ", " * ", "+", "*", " / ", " % ", " ** "])
            if op.strip() == "%":                      # operands that are not used are not generated (placeholder accounting)
                b = [rng.choice(["2", "3", "7"])]
                a = [rng.choice(["10", "7", "100"])]
                at, bt = a[0], b[0]
            elif op.strip() == "**":
                a, at = self.num(depth + 1)
                b = [rng.choice(["2", "3"])]
                bt = b[0]
            else:
                a, at = self.num(depth + 1)
                b, bt = self.num(depth + 1)
            return ["("] + a + [op] + b + [")"], "(" + at + op + bt + ")"
        if r < 0.93:
            a, at = self.num(depth + 1)
            return ["-("] + a + [")"], "-(" + at + ")"
        s, st = self.string(depth + 1)
        return ["len("] + s + [")"], "len(" + st + ")"

    def string(self, depth):
        rng = self.rng
        r = rng.random()
        if depth >= 3 or r < 0.5:
            if rng.random() < 0.4:
                p, t = self.ph(("str",))
                return ["'"] + p + ["'"], "'" + t + "'"
            t = rng.choice(["'a'", "'abc'", "'x y'", "\"q\"", "'dev'", "''", "'A1'"])
            return [t], t
        if r < 0.8:
            a, at = self.string(depth + 1)
            b, bt = self.string(depth + 1)
            return ["("] + a + [" + "] + b + [")"], "(" + at + " + " + bt + ")"
        f = rng.choice(["upper", "lower", "trim"])
        a, at = self.string(depth + 1)
        return [f + "("] + a + [")"], f + "(" + at + ")"

    def boolean(self, depth):
        rng = self.rng
        r = rng.random()
        if depth >= 3 or r < 0.2:
            if rng.random() < 0.4:
                return self.ph(("bool",))
            t = rng.choice(["true", "false"])
            return [t], t
        if r < 0.5:
            a, at = self.num(depth + 1)
            b, bt = self.num(depth + 1)
            op = rng.choice([" < ", " <= ", " > ", " >= ", " == ", " != "])
            return ["("] + a + [op] + b + [")"], "(" + at + op + bt + ")"
        if r < 0.7:
            a, at = self.boolean(depth + 1)
            b, bt = self.boolean(depth + 1)
            op = rng.choice([" and ", " or ", " && ", " || "])
            return ["("] + a + [op] + b + [")"], "(" + at + op + bt + ")"
        if r < 0.8:
            a, at = self.boolean(depth + 1)
            op = rng.choice(["not ", "!"])
            return [op + "("] + a + [")"], op + "(" + at + ")"
        if r < 0.9:
            a, at = self.num(depth + 1)
            lst = rng.choice(["[1, 2, 3]", "[0, 7, 10]", "1..5", "[]"])
            return ["("] + a + [" in " + lst + ")"], "(" + at + " in " + lst + ")"
        op = rng.choice([" contains ", " startsWith ", " endsWith ", " == ", " in "])
        a, at = self.string(depth + 1)
        if op == " in ":
            return ["("] + a + [" in ['a', 'dev', 'abc'])"], "(" + at + " in ['a', 'dev', 'abc'])"
        b, bt = self.string(depth + 1)
        return ["("] + a + [op] + b + [")"], "(" + at + op + bt + ")"

    def any_expr(self):
        rng = self.rng
        r = rng.random()
        if r < 0.35:
            p, t = self.num(0)
            return p, t, "num"
        if r < 0.55:
            p, t = self.boolean(0)
            return p, t, "bool"
        if r < 0.72:
            p, t = self.string(0)
            return p, t, "str"
        if r < 0.9:
            c, ct = self.boolean(1)
            kind = rng.choice(["num", "str"])
            a, at = (self.num(1) if kind == "num" else self.string(1))
            b, bt = (self.num(1) if kind == "num" else self.string(1))
            return c + [" ? "] + a + [" : "] + b, ct + " ? " + at + " : " + bt, kind
        # deliberately broken or exotic
        t = rng.choice(["1 +", "foo(1)", "1 / 0", "nil", "'007'", "'1.10'", "'TRUE'", "'[a,b]'", "[1, 2, 3]", "['a', 'b']", "1 == 'a'",
                        "undefinedVar", "10 % 0", "'a' * 2", "\"'q'\""])
        return [t], t, "odd"


    def dependent(self):
        """an expression whose result is a function of the value of a multi-pass placeholder that is injective on the values the
        placeholder can take (arithmetic, comparison against the value, conditional on it, string functions of it), so an
        unresolved or wrongly resolved placeholder changes the outcome: (pieces, substituted text, kind of the result)"""
        rng = self.rng
        t = rng.choice(["arith", "arith", "eq_cond", "eq_cond", "cmp", "str_cond", "str_fun", "str_cat", "bool_cond", "not", "in"])
        if t == "arith":
            a, at = self.mph(("int",))
            b, bt = self.mph(("int", "float")) if rng.random() < 0.5 else self.num(2)
            op = rng.choice([" * 2 + ", " + ", " - ", "*3-"])
            return a + [op] + b, at + op + bt, "num"
        if t == "eq_cond":
            a, at = self.mph(("int", "float") if rng.random() < 0.3 else ("int",))
            op = rng.choice([" == ", " != ", " >= ", " < "])
            x, y, kind = rng.choice([("'same'", "'other'", "str"), ("1", "2", "num"), ("'hi'", "'lo'", "str")])
            tail = op + at + " ? " + x + " : " + y
            return a + [tail], at + tail, kind
        if t == "cmp":
            a, at = self.mph(("int",))
            b, bt = self.mph(("int",))
            op = rng.choice([" < ", " <= ", " > ", " >= ", " == ", " != "])
            return a + [op] + b, at + op + bt, "bool"
        if t == "str_cond":
            a, at = self.mph(("str",))
            tail = "' == '" + at + "' ? 1 : 2"
            return ["'"] + a + [tail], "'" + at + tail, "num"
        if t == "str_fun":
            a, at = self.mph(("str",))
            f = rng.choice(["len", "upper", "lower"])
            return [f + "('"] + a + ["')"], f + "('" + at + "')", "num" if f == "len" else "str"
        if t == "str_cat":
            a, at = self.mph(("str",))
            if rng.random() < 0.5:
                b, bt = self.mph(("str",))
                return ["'"] + a + ["' + ' ' + '"] + b + ["'"], "'" + at + "' + ' ' + '" + bt + "'", "str"
            return ["'"] + a + ["' + '!'"], "'" + at + "' + '!'", "str"
        if t == "bool_cond":
            c, ct = self.mph(("bool",))
            a, at = self.mph(("int",))
            b, bt = self.num(2)
            return c + [" ? "] + a + [" : "] + b, ct + " ? " + at + " : " + bt, "num"
        if t == "not":
            c, ct = self.mph(("bool",))
            op = rng.choice(["not ", "!"])
            if rng.random() < 0.5:
                a, at = self.mph(("int",))
                return [op] + c + [" or "] + a + [" > 4"], op + ct + " or " + at + " > 4", "bool"
            return [op] + c, op + ct, "bool"
        a, at = self.mph(("int",))
        b, bt = self.mph(("int",))
        return a + [" in ["] + b + [", 3, 100]"], at + " in [" + bt + ", 3, 100]", "bool"


def render_pieces(pieces):
    out = ""
    for p in pieces:
        if isinstance(p, tuple):
            out += "${" + p[1] + ("" if p[2] is None else ":" + p[2]) + "}"
        else:
            out += p
    return out


NUM_CONS = ["required", "gte=0", "gt=0", "lt=10", "lte=10", "min=3", "max=3", "eq=3", "ne=3", "gte=1 lte=10", "gt=100"]
STR_CONS = ["required", "eq=abc", "ne=abc", "min=3", "max=3", "len=4", "oneof=abc", "email", "numeric", "alpha", "startswith=ab",
            "contains=b", "excludes=z", "required min=2 max=5", "omitempty min=3", "lowercase", "alphanum"]
BOOL_CONS = ["required", "eq=true", "eq=false"]
LIST_CONS = ["required", "min=2", "max=2", "len=2", "required min=3 max=20", "min=1 dive min=2", "gt=0", "unique"]


def mp_info(g, text, dependent=False):
    """what the tag text contains of the class `placeholders that need more than one substitution pass` (None: nothing);
    counted on the text itself: a placeholder the generator made and then dropped does not count"""
    used = [(t, fs) for t, fs in g.mphs if t in text]
    if not used:
        return None
    feats = {}
    for _, fs in used:
        for f in fs:
            feats[f] = feats.get(f, 0) + 1
    return {"n": len(used), "feats": feats, "dependent": dependent}


def gen_expr_case(rng, cid, multipass=False, tree=None, p_deep=0.12, p_validate=0.3):
    """one #{expr} as the whole value tag.  multipass: a case of the stream `multipass` - at least one placeholder inside the
    expression needs more than one substitution pass; elsewhere about one placeholder in eight does.  tree: the configuration
    the expression is written against (several fields of one component share it)"""
    if tree is None:
        tree = {k: v for k, v in SCALARS.items() if rng.random() < 0.8}
    dependent = False
    if multipass:
        dependent = rng.random() < 0.45
        while True:
            g = G(rng, tree, p_deep=0.7)
            pieces, u, kind = g.dependent() if dependent else g.any_expr()
            if mp_info(g, render_pieces(pieces)):
                break
    else:
        g = G(rng, tree, p_deep=p_deep)
        pieces, u, kind = g.any_expr()
    tree = g.full_tree()
    ftype = {"num": rng.choice(["int", "float", "any", "string", "int", "float"]), "bool": rng.choice(["bool", "any", "string"]),
             "str": rng.choice(["string", "any", "string", "int"]), "odd": rng.choice(["any", "string", "int"])}[kind]
    text = "#{" + render_pieces(pieces) + "}"
    cons = ""
    hasv = False
    if rng.random() < p_validate and ftype != "any":
        cons = rng.choice({"int": NUM_CONS, "float": NUM_CONS, "string": STR_CONS, "bool": BOOL_CONS}[ftype])
        hasv = True
        text += ",validate=" + cons
    if rng.random() < 0.2:
        text += ",required=false"
    return {"id": cid, "stream": "multipass" if multipass else "expr", "config": P.cfg_json(tree), "tree": tree, "tagkey": "value",
            "tagtext": hx(text), "ftype": ftype, "constraints": cons, "hasvalidate": hasv, "expr": u, "mp": mp_info(g, text, dependent)}


def gen_mixed_case(rng, cid):
    """several expressions / literal text around them: model comparison only"""
    tree = {k: v for k, v in SCALARS.items() if rng.random() < 0.8}
    g = G(rng, tree, p_deep=0.2)
    text = ""
    for _ in range(rng.randint(1, 3)):
        text += rng.choice(["", "p", "x ", "n=", "#", "$"])
        pieces, u, kind = g.any_expr()
        text += "#{" + render_pieces(pieces) + "}"
    text += rng.choice(["", "q", " z"])
    tree = g.full_tree()
    return {"id": cid, "stream": "mixed", "config": P.cfg_json(tree), "tree": tree, "tagkey": "value",
            "tagtext": hx(text + rng.choice(["", ",required=false"])), "ftype": rng.choice(["string", "any"]), "constraints": "",
            "hasvalidate": False, "expr": None, "mp": mp_info(g, text)}


def gen_validate_case(rng, cid, ns="", ftypes=None, p_validate=0.85, prefer_valid=False):
    """ns: suffix of the configuration key the value comes from (several fields of one component use k1, k2, ...);
    prefer_valid: struct values that satisfy the constraints of the field's type"""
    ftype = rng.choice(ftypes or ["string", "string", "int", "int", "float", "bool", "strs", "ints", "pstring", "pint", "struct",
                                  "pstruct", "nest", "pnest", "map"])
    hasv = rng.random() < p_validate
    tree = {}
    via_prefix = rng.random() < 0.3
    cons = ""
    if ftype == "string" or ftype == "pstring":
        val = rng.choice(["", "abc", "abcd", "ab", "a@b.co", "123", "hello", "ABC", "zebra", "abz", "ab1"])
        cons = rng.choice(STR_CONS)
        lit, cfgv = val, val
    elif ftype in ("int", "pint"):
        val = rng.choice([0, 1, 2, 3, 4, 9, 10, 11, -1, 100, 101])
        cons = rng.choice(NUM_CONS)
        lit, cfgv = str(val), val
    elif ftype == "float":
        m = rng.choice([0, 5, 25, 30, 35, 99, 100, 101, -5])
        cons = rng.choice(NUM_CONS)
        lit, cfgv = P.dec_text(m, -1), P.norm_dec(m, -1)
    elif ftype == "bool":
        val = rng.choice([True, False])
        cons = rng.choice(BOOL_CONS)
        lit, cfgv = val_text(val), val
    elif ftype == "strs":
        val = rng.choice([[], ["a"], ["a", "b"], ["ab", "cd", "ef"], ["a", "a"], ["abc", "d"]])
        cons = rng.choice(LIST_CONS[:6] + ["unique"])
        lit, cfgv = "[" + ",".join(val) + "]", val
    elif ftype == "ints":
        val = rng.choice([[], [1], [1, 2], [1, 2, 3], [5, 5], [0, 1]])
        cons = rng.choice(LIST_CONS)
        lit, cfgv = "[" + ",".join(str(x) for x in val) + "]", val
    elif ftype in ("struct", "pstruct"):
        s = rng.choice(["abc", "abd", ""])
        n = rng.choice([0, 1, 5, 10, 11])
        if prefer_valid:
            s, n = "abc", rng.choice([1, 5, 10])
        lit, cfgv = "map[s:%s n:%d]" % (s, n), {"s": s, "n": n}
        if s == "":
            lit, cfgv = "map[n:%d]" % n, {"n": n}
    elif ftype in ("nest", "pnest"):
        name = rng.choice(["ab", "a", "xyz"])
        inner = rng.choice([None, {"e": "v"}, {"e": ""}])
        if prefer_valid:
            name, inner = rng.choice(["ab", "xyz"]), {"e": "v"}
        cfgv = {"name": name}
        lit = "map[name:%s" % name
        if inner is not None:
            cfgv["inner"] = inner
            lit += " inner:map[e:%s]" % inner["e"] if inner["e"] else " inner:map[x:1]"
        lit += "]"
    else:  # map
        val = rng.choice([{}, {"a": "b"}, {"a": "b", "c": "d"}])
        cons = rng.choice(["required", "min=1", "max=1", "len=2"])
        lit, cfgv = "map[" + " ".join("%s:%s" % kv for kv in val.items()) + "]", val
    unbound = rng.random() < 0.12
    args = ""
    if hasv:
        args += ",validate" + ("=" + cons if cons and ftype not in ("struct", "pstruct", "nest", "pnest") else "")
    if ftype in ("struct", "pstruct", "nest", "pnest"):
        cons = ""
    if unbound:
        lit_tag = ""
        args += ",required=false"
        tagkey, tagtext = "value", lit_tag + args
        if via_prefix:
            tagkey, tagtext = "prefix", "nope.k" + args
    elif via_prefix:
        tree = {"k" + ns: {"v": cfgv}}
        tagkey, tagtext = "prefix", "k%s.v" % ns + args
    else:
        tagkey, tagtext = "value", lit + args
    scalar = {"string": "string", "int": "int", "float": "float", "bool": "bool"}.get(ftype)
    return {"id": cid, "stream": "validate", "config": P.cfg_json(tree), "tree": tree, "tagkey": tagkey, "tagtext": hx(tagtext),
            "ftype": ftype, "constraints": cons if hasv else "", "hasvalidate": hasv, "expr": None, "scalar": scalar}


# ------------------------------------------------------------------------------------------------
# order-sensitive constraint lists (stream `ordered`).  `validate=c1 c2 c3` hands the validator the constraints in the order the
# tag lists them, and the order MEANS something: everything after `dive` applies to the elements, `omitempty` ends the checks of a
# zero value only where it stands.  The lists below are not in lexical order (a tree that re-orders the arguments - e.g. while
# printing the property under a debug log level - changes the verdict), the values are chosen so that for about half of the cases
# the verdict of the written order differs from the verdict of the sorted order (the driver reports that as a statistic), and the
# value always comes through ${...} and / or #{...}, so that every earlier stage has handled (and logged) the property before
# the validate processor reads its arguments.  The model's verdict comes from where it always comes from: the driver's reference
# validator on the final field value with the constraints as the generator wrote them.

ORD_CONS = {
    "int": ["omitempty gte=10", "omitempty gt=5 lt=9", "omitempty min=3", "omitempty ne=0", "omitempty eq=3", "required min=2",
            "required gte=1 lte=10"],
    "float": ["omitempty gte=10", "omitempty gt=0.5", "required gt=1"],
    "string": ["omitempty min=3", "omitempty len=4", "omitempty email", "omitempty eq=abc", "omitempty alpha min=2", "required min=2"],
    "bool": ["omitempty eq=true", "required eq=true"],
    "ints": ["max=2 dive min=3", "min=2 dive max=3", "min=1 dive min=2", "required dive gt=0", "omitempty min=2 dive max=3",
             "max=3 dive required", "min=1 max=3 dive gte=2 lte=4"],
    "strs": ["max=2 dive min=3", "min=2 dive max=3", "min=1 dive min=2", "omitempty min=2 dive max=3", "max=3 dive required",
             "required dive alpha"],
}
ORD_VALUES = {
    "int": [0, 0, 0, 3, 5, 10, 12],
    "float": [0, 0, 5, 25, 100],           # tenths
    "string": ["", "", "ab", "abc", "abcd", "a@b.co", " ", "   "],     # a value of blanks is a value
    "bool": [False, False, True],
    "ints": [[3, 4], [3, 4], [1, 2], [1, 2], [], [5, 5, 5], [1, 2, 3], [3], [0, 1], [2, 4]],
    "strs": [["abcd", "efgh"], ["abcd", "efgh"], ["a", "bc"], ["a", "bc"], [], ["abc", "d"], ["a", "b", "c"], ["ab", "cd"], ["", "x"]],
}


def gen_ordered_case(rng, cid, ftype=None, cons=None, val=None, route=None, optional=None):
    ftype = ftype or rng.choice(["int", "int", "string", "string", "bool", "float", "ints", "ints", "ints", "strs", "strs", "strs"])
    cons = cons or rng.choice(ORD_CONS[ftype])
    if val is None:
        val = rng.choice(ORD_VALUES[ftype])
    k = "k%d" % (cid % 7)
    tree, u = {}, None
    routes = {"int": ["placeholder", "expression", "expression_of_two", "default"], "float": ["placeholder"],
              "string": ["placeholder", "expression", "default"], "bool": ["placeholder", "expression"],
              "ints": ["placeholder", "default", "expression"], "strs": ["placeholder", "default", "expression"]}[ftype]
    route = route or rng.choice(routes)
    if ftype == "string" and val == "" and route == "expression":
        route = "placeholder"                      # an expression whose result is '' is known finding KF-C18b: not this class
    if ftype == "string" and val.strip() == "" and route == "default":
        route = "placeholder"                      # default texts are C16's
    if ftype == "float":
        tree[k] = P.norm_dec(val, -1)
        txt = lambda: P.dec_text(val, -1)
    elif ftype in ("ints", "strs"):
        tree[k] = list(val)
        txt = lambda: "[" + ",".join(str(x) for x in val) + "]"
    else:
        tree[k] = val
        txt = lambda: val_text(val)
    if route == "placeholder":
        text = "${%s}" % k
    elif route == "default":                       # the key is absent, the value is the placeholder's default
        tree = {}
        text = "${nope.%s:%s}" % (k, txt())
    elif route == "expression_of_two":             # int only
        other = rng.choice([0, 1, 2])
        tree["o"] = other
        text = "#{${%s} + ${o} - %d}" % (k, other)
        u = "%d + %d - %d" % (val, other, other)
    elif ftype == "int":
        text, u = rng.choice([("#{${%s} + 0}" % k, "%d + 0" % val), ("#{${%s}}" % k, "%d" % val),
                              ("#{${%s} * 1}" % k, "%d * 1" % val)])
    elif ftype == "string":
        text, u = "#{'${%s}' + ''}" % k, "'%s' + ''" % val
    elif ftype == "bool":
        text, u = "#{${%s} && true}" % k, "%s && true" % val_text(val)
    elif ftype == "ints":                          # a list built by the expression, elements computed from a placeholder
        tree = {"a": 2}
        items = [("${a} + %d" % (x - 2), "2 + %d" % (x - 2)) if x >= 2 and rng.random() < 0.6 else (str(x), str(x)) for x in val]
        text, u = "#{[%s]}" % ", ".join(i[0] for i in items), "[%s]" % ", ".join(i[1] for i in items)
    else:                                          # strs
        tree = {"s": "dev"}
        text = u = "[%s]" % ", ".join("'%s'" % x for x in val)
        text = "#{%s}" % text
    if optional is None:
        optional = rng.random() < (0.5 if val in ("", []) else 0.15)
    text += ",validate=" + cons + (",required=false" if optional else "")
    return {"id": cid, "stream": "ordered", "config": P.cfg_json(tree), "tree": tree, "tagkey": "value", "tagtext": hx(text),
            "ftype": ftype, "constraints": cons, "hasvalidate": True, "expr": u,
            "oc": {"route": route, "cons": cons, "zero_value": val in (0, "", False, [])}}


def corpus_ordered():
    """fixed witnesses of the class gen_ordered_case draws from; each runs under the quiet and under the formatting logger"""
    import random
    r = random.Random(18)
    out = []
    for ftype, cons, val, route in (("ints", "max=2 dive min=3", [3, 4], "placeholder"),
                                    ("ints", "max=2 dive min=3", [3, 4], "expression"),
                                    ("ints", "min=2 dive max=3", [1, 2], "default"),
                                    ("ints", "min=1 dive min=2", [], "placeholder"),
                                    ("strs", "max=2 dive min=3", ["abcd", "efgh"], "placeholder"),
                                    ("strs", "min=2 dive max=3", ["a", "bc"], "expression"),
                                    ("int", "omitempty gte=10", 0, "placeholder"),
                                    ("int", "omitempty gte=10", 0, "expression_of_two"),
                                    ("int", "omitempty gte=10", 5, "expression"),
                                    ("int", "required min=2", 3, "expression"),
                                    ("string", "omitempty min=3", "", "placeholder"),
                                    ("string", "omitempty min=3", "ab", "expression"),
                                    ("bool", "omitempty eq=true", False, "expression"),
                                    ("float", "omitempty gte=10", 0, "placeholder")):
        for verbose in (True, False):
            c = gen_ordered_case(r, len(out), ftype, cons, val, route, optional=(val in ("", [])))
            c["verbose"] = verbose
            out.append(c)
    return out


# ------------------------------------------------------------------------------------------------
# struct-valued validation targets (stream `vstruct`).  The field's Go type is built by the driver from a shape the generator
# writes (ftype "dyn"): structs whose fields are scalars (with the scalar constraints of the stream `validate`) and STRUCT-VALUED
# targets - a nested non-pointer struct, a pointer to a struct, a slice / map of structs (or of pointers to structs) - tagged
# `required`, `dive,required`, `required,dive,required`, ... or not at all, one or two levels deep.  The configuration gives
# every target a section that is present, missing, all-zero (keys present, zero values) or - for slices and maps - has a zero
# element.  `required` on a struct value means "not the zero struct" (the reference validator of the driver is configured so).

def sh_struct(fields):
    return {"k": "struct", "f": fields}


def sh_field(name, shape, v=""):
    return {"n": name, "y": name.lower(), "v": v, "t": shape}      # the configuration store keeps keys in lower case


# scalar leaves: (kind, constraints that the zero value satisfies, other constraints, non-zero values, zero value)
VS_LEAVES = {
    "string": (["", "", "omitempty,min=2", "max=5", "ne=zz", "excludes=z"], ["required", "min=2", "required,min=2,max=5", "alphanum", "len=3"],
               ["abc", "ab", "hello", "main", "a1", "q"], ""),
    "int": (["", "", "gte=0", "lte=10", "ne=3", "omitempty,gte=2"], ["required", "gt=0", "gte=1,lte=10", "min=3", "eq=3"],
            [1, 2, 3, 4, 10, 11, -1], 0),
    "bool": (["", "", "eq=false"], ["required", "eq=true"], [True], False),
}
VS_SCALAR_NAMES = ["Name", "Size", "Url", "On", "Port", "Tag", "Level"]
VS_TARGET_NAMES = ["Pool", "Cache", "Items", "ByName", "Auth", "Peers"]
VS_FORMS = ["struct", "struct", "struct", "ptr", "slice", "slice", "map", "pslice"]
VS_TAGS = {
    "struct": ["required", "required", "required", "", "omitempty"],
    "ptr": ["required", "required", "", "omitempty"],
    "slice": ["dive,required", "required,dive,required", "required,dive,required", "min=1,dive,required", "dive", "required", ""],
    "pslice": ["dive,required", "required,dive,required", "dive"],
    "map": ["dive,required", "required,dive,required", "min=1,dive,required", "dive", ""],
}


def vs_wrap(form, inner):
    if form == "struct":
        return inner
    if form == "ptr":
        return {"k": "ptr", "e": inner}
    if form == "slice":
        return {"k": "slice", "e": inner}
    if form == "pslice":
        return {"k": "slice", "e": {"k": "ptr", "e": inner}}
    return {"k": "map", "e": inner}


def vs_unwrap(shape):
    """(form, the struct shape inside) of a struct-valued target; (None, None) for a scalar"""
    k = shape["k"]
    if k == "struct":
        return "struct", shape
    if k == "ptr":
        return "ptr", shape["e"]
    if k == "slice":
        return ("pslice", shape["e"]["e"]) if shape["e"]["k"] == "ptr" else ("slice", shape["e"])
    if k == "map":
        return "map", shape["e"]
    return None, None


def vs_struct_shape(rng, depth, strict):
    """a struct: 1-2 scalar fields, and (depth > 0) 1-2 struct-valued target fields.  strict: scalar constraints come from the
    whole list (the zero value may violate them); otherwise only constraints the zero value satisfies, so that a zero section is
    rejected - if at all - by the `required` on the section itself"""
    fields, names = [], list(VS_SCALAR_NAMES)
    rng.shuffle(names)
    for i in range(rng.randint(1, 2)):
        kind = rng.choice(["string", "string", "int", "int", "bool"])
        soft, hard, _, _ = VS_LEAVES[kind]
        cons = rng.choice(soft + hard) if strict else rng.choice(soft)
        fields.append(sh_field(names[i], {"k": kind}, cons))
    if depth > 0:
        tnames = list(VS_TARGET_NAMES)
        rng.shuffle(tnames)
        for i in range(rng.choice([1, 1, 2])):
            form = rng.choice(VS_FORMS)
            inner = vs_struct_shape(rng, depth - 1 if rng.random() < 0.6 else 0, strict and rng.random() < 0.3)
            fields.append(sh_field(tnames[i], vs_wrap(form, inner), rng.choice(VS_TAGS[form])))
        rng.shuffle(fields)
    return sh_struct(fields)


def vs_label(labels, form, tag, state, level):
    t = "untagged" if tag == "" else tag.replace(",", "+")
    for k in ("%s[%s]:%s" % (form, t, state), "level%d_targets" % level):
        labels[k] = labels.get(k, 0) + 1


def vs_struct_value(rng, shape, mode, labels, level):
    """a configuration section for the struct shape.  mode: full (every scalar non-zero) | zero (every key present with the zero
    value, struct-valued children missing or zero) | mixed"""
    out, nonzero_seen = {}, False
    for f in shape["f"]:
        form, inner = vs_unwrap(f["t"])
        if form is None:
            _, _, nonzero, zero = VS_LEAVES[f["t"]["k"]]
            if mode == "zero" or (mode == "mixed" and rng.random() < 0.3):
                if mode == "zero" or rng.random() < 0.5:
                    out[f["y"]] = zero
            else:
                out[f["y"]] = rng.choice(nonzero)
                nonzero_seen = True
            continue
        v, state = vs_target_value(rng, form, inner, mode, labels, level)
        vs_label(labels, form, f["v"], state, level)
        if v is not None:
            out[f["y"]] = v
    if mode != "zero" and not nonzero_seen:            # a section that is `present` has at least one non-zero scalar
        f = [f for f in shape["f"] if vs_unwrap(f["t"])[0] is None][0]
        out[f["y"]] = rng.choice(VS_LEAVES[f["t"]["k"]][2])
    return out


def vs_target_value(rng, form, inner, mode, labels, level):
    """the section of one struct-valued target: (value or None = key absent, state)"""
    r = rng.random()
    if form in ("struct", "ptr"):
        if mode == "zero":
            st = "missing" if r < 0.6 else "all_zero"
        else:
            st = "present" if r < 0.45 else "missing" if r < 0.75 else "all_zero"
        if st == "missing":
            return None, st
        return vs_struct_value(rng, inner, "zero" if st == "all_zero" else rng.choice(["full", "full", "mixed"]), labels, level + 1), st
    if mode == "zero" or r < 0.15:
        return None, "missing"
    if r < 0.25:
        return ([] if form != "map" else {}), "empty"
    n = rng.randint(1, 3)
    zeros = [rng.random() < 0.3 for _ in range(n)] if rng.random() < 0.6 else [False] * n
    elems = [vs_struct_value(rng, inner, "zero" if z else rng.choice(["full", "full", "mixed"]), labels, level + 1) for z in zeros]
    st = "zero_element" if any(zeros) else "elements_nonzero"
    if form == "map":
        return {k: e for k, e in zip(["a", "b", "c"], elems)}, st
    return elems, st


VS_TOP_TAGS = {
    "slice": ["required dive required", "required dive required", "dive required", "min=1 dive required", "dive", "required"],
    "pslice": ["required dive required", "dive required", "dive"],
    "map": ["required dive required", "dive required", "min=1 dive required", "dive"],
}


def gen_vstruct_case(rng, cid, ns=""):
    """one validated field whose type contains struct-valued targets, bound through prefix or through a ${} value"""
    kk = "k" + ns
    labels = {}
    top = rng.choice(["struct", "struct", "struct", "ptr", "ptr", "slice", "slice", "map", "pslice"])
    depth = rng.choice([1, 1, 2]) if top in ("struct", "ptr") else rng.choice([0, 0, 1])
    inner = vs_struct_shape(rng, depth, strict=rng.random() < 0.3)
    shape = vs_wrap(top, inner)
    hasv = rng.random() < 0.92
    cons = ""
    if top in ("struct", "ptr"):
        st = rng.choice(["present", "present", "present", "present", "all_zero"])
        cfgv = vs_struct_value(rng, inner, "zero" if st == "all_zero" else rng.choice(["full", "full", "mixed"]), labels, 1)
        labels["top_%s:%s" % (top, st)] = 1
    else:
        cons = rng.choice(VS_TOP_TAGS[top])
        cfgv, st = vs_target_value(rng, top, inner, "mixed", labels, 1)
        if cfgv is None:
            cfgv, st = ([] if top != "map" else {}), "empty"
        vs_label(labels, "top_" + top, cons.replace(" ", ",") if hasv else "", st, 0)
        del labels["level0_targets"]
    args = ""
    if hasv:
        args = ",validate" + ("=" + cons if cons else "")
    unbound = rng.random() < 0.06
    via = "prefix" if rng.random() < 0.55 else "value"
    if unbound:                                        # the whole section is missing: the field keeps its zero value
        tree = {kk: {"other": 1}}
        tagkey, tagtext = ("prefix", kk + ".v" + args + ",required=false") if via == "prefix" else ("value", args + ",required=false")
        labels = {"top_%s:unbound" % top: 1}
    else:
        tree = {kk: {"v": cfgv}}
        tagkey, tagtext = ("prefix", kk + ".v" + args) if via == "prefix" else ("value", "${%s.v}" % kk + args)
    labels["bound_via_" + via] = 1
    labels["type_depth_%d" % vs_depth(shape)] = 1
    return {"id": cid, "stream": "vstruct", "config": P.cfg_json(tree), "tree": tree, "tagkey": tagkey, "tagtext": hx(tagtext),
            "ftype": "dyn", "shape": shape, "gotype": go_type(shape), "constraints": cons if hasv else "", "hasvalidate": hasv,
            "expr": None, "vs": labels}


def vs_depth(shape):
    """nesting depth of struct types below the field (a struct of scalars = 0)"""
    form, inner = vs_unwrap(shape)
    if form is None:
        return -1
    return 1 + max([vs_depth(f["t"]) for f in inner["f"]] + [-1])


def go_type(shape):
    """the shape as Go source (evidence samples, replay readability)"""
    k = shape["k"]
    if k == "struct":
        return "struct{ " + "; ".join("%s %s `yaml:\"%s\"%s`" % (f["n"], go_type(f["t"]), f["y"],
                                      " validate:\"%s\"" % f["v"] if f["v"] else "") for f in shape["f"]) + " }"
    if k == "ptr":
        return "*" + go_type(shape["e"])
    if k == "slice":
        return "[]" + go_type(shape["e"])
    if k == "map":
        return "map[string]" + go_type(shape["e"])
    return {"float": "float64"}.get(k, k)


# ------------------------------------------------------------------------------------------------
# components with SEVERAL tagged fields (stream `multi`) and components that are post processors themselves (stream `pholder`).
# A field of such a component is one case of the single-field generators above (its own tag, type, constraints, expected expression
# text); the fields share one configuration: the expression fields are written against one scalar tree, every other field takes
# its value from its own key k1, k2, ...

FIELD_KEYS = ("tagkey", "tagtext", "ftype", "constraints", "hasvalidate", "expr", "shape", "gotype", "scalar", "mp", "vs")
STRUCT_FTYPES = ("struct", "pstruct", "nest", "pnest")


def as_field(sub, name, kind):
    f = {k: sub[k] for k in FIELD_KEYS if sub.get(k) is not None}
    f.setdefault("expr", None)
    f["name"], f["kind"] = name, kind
    return f


def fields_of(c):
    """the tagged fields of a case: `fields`, or the single field F described at the top level"""
    if c.get("fields"):
        return c["fields"]
    return [dict({k: c.get(k) for k in FIELD_KEYS}, name="F")]


def gen_fields(rng, n, kinds, p_validate=0.9):
    """n fields for one component: (fields, configuration tree)"""
    shared = {k: v for k, v in SCALARS.items() if rng.random() < 0.8}
    tree, fields, deep_used = dict(shared), [], False
    for i in range(1, n + 1):
        kind = rng.choice(kinds)
        ns = str(i)
        if kind == "expr":
            # one field of the component may use multi-pass placeholders (their helper keys q1, sel1 ... are per generator)
            deep = 0.0 if deep_used else rng.choice([0.0, 0.0, 0.2])
            sub = gen_expr_case(rng, 0, tree=shared, p_deep=deep, p_validate=p_validate)
            deep_used = deep_used or deep > 0
        elif kind == "scalar":
            sub = gen_validate_case(rng, 0, ns=ns, p_validate=p_validate,
                                    ftypes=["string", "string", "int", "int", "float", "bool", "strs", "ints", "pstring", "pint", "map"])
        elif kind == "struct":
            sub = gen_validate_case(rng, 0, ns=ns, ftypes=list(STRUCT_FTYPES), p_validate=0.95, prefer_valid=rng.random() < 0.6)
        else:
            sub = gen_vstruct_case(rng, 0, ns=ns)
        for k, v in sub["tree"].items():
            if k not in shared:
                tree[k] = v
        fields.append(as_field(sub, "F%d" % i, kind))
    return fields, tree


def gen_multi_case(rng, cid):
    """ONE component with 2-4 tagged fields, most of them validated: scalars bound from literals / prefix sections, #{} expressions
    over ${} placeholders, fixed struct types (struct / *struct, nested), generated struct-valued targets - each independently
    valid or violating, in every order"""
    n = rng.choice([2, 2, 2, 3, 3, 4])
    fields, tree = gen_fields(rng, n, ["scalar", "scalar", "expr", "expr", "struct", "struct", "struct", "vstruct"])
    rng.shuffle(fields)
    for i, f in enumerate(fields):
        f["name"] = "F%d" % (i + 1)
    return {"id": cid, "stream": "multi", "config": P.cfg_json(tree), "tree": tree, "fields": fields}


# holders: the component that carries the validated field(s) is a plain component or ITSELF a container.ComponentPostProcessor -
# unordered / Ordered / Priority-ordered, lazy or not (harness/cmd/c18: cores phPlain phU phO phP phUL phOL phPL), with a
# name that sorts before or after the names of the built-in processors ("github.com/go-kid/ioc/container/processors/...")
HOLDER_VARIANTS = ["U", "U", "U", "U", "O", "O", "O", "P", "P", "UL", "OL", "PL", "plain"]
NAMES_BEFORE = ["auditProcessor", "Audit", "aaa", "0first", "github.com/acme/audit/processor", "github.com/go-kid/a", "a-checker"]
NAMES_AFTER = ["zz-audit", "verifZ", "~last", "github.com/go-kid/ioc/z", "github.com/zz/p", "", "limits"]
# Order() values between and around the Orders in use (priority 2 4 8 16 + observers 3 5 9 17; ordered 2 4 8 + observer 9)
HOLDER_ORDERS = [-1000, -1, 0, 1, 6, 7, 10, 12, 15, 18, 20, 100, 2 ** 31 - 1]
BUILTIN_PREFIX = "github.com/go-kid/ioc/container/processors/"


def name_class(name):
    if name == "":
        return "type_id(sorts_after)"
    return "sorts_before_builtin_processors" if name < BUILTIN_PREFIX else "sorts_after_builtin_processors"


def gen_pholder_case(rng, cid):
    """a validated field (sometimes two or three) on a component that is a post processor itself"""
    variant = rng.choice(HOLDER_VARIANTS)
    n = rng.choice([1, 1, 1, 1, 2, 3])
    fields, tree = gen_fields(rng, n, ["scalar", "scalar", "scalar", "expr", "expr", "struct"], p_validate=0.95)
    lazy = variant.endswith("L")
    holder = {"key": "H%d" % cid, "variant": variant, "name": rng.choice(NAMES_BEFORE + NAMES_AFTER),
              "ord": rng.choice(HOLDER_ORDERS) if variant[0] in "OP" else 0,
              # a lazy component is created only when somebody asks for it: most lazy holders are wired into a plain component
              "dep": lazy and rng.random() < 0.75}
    return {"id": cid, "stream": "pholder", "config": P.cfg_json(tree), "tree": tree, "fields": fields, "holder": holder}


GO_FTYPE = {"int": "int", "float": "float64", "bool": "bool", "any": "any", "strs": "[]string", "ints": "[]int", "pstring": "*string",
            "pint": "*int", "map": "map[string]any", "struct": "VS", "pstruct": "*VS", "nest": "VNest", "pnest": "*VNest",
            "string": "string"}


def go_quote(b):
    """a Go interpreted string literal for the bytes b"""
    out = []
    for ch in b:
        if ch == 0x22:
            out.append('\\"')
        elif ch == 0x5c:
            out.append("\\\\")
        elif 0x20 <= ch < 0x7f:
            out.append(chr(ch))
        else:
            out.append("\\x%02x" % ch)
    return '"' + "".join(out) + '"'


def holder_source(cases):
    """Go source declaring one holder type per case with a `holder` and registering its constructor"""
    out = ["// Code generated by tools/props/c18.py. DO NOT EDIT.", "package main", ""]
    reg = []
    for c in cases:
        h = c.get("holder")
        if not h:
            continue
        tname = "P" + h["key"]
        out.append("type %s struct {" % tname)
        out.append("\tph%s" % {"plain": "Plain"}.get(h["variant"], h["variant"]))
        for f in fields_of(c):
            gt = go_type(f["shape"]) if f["ftype"] == "dyn" else GO_FTYPE[f["ftype"]]
            tag = f["tagkey"].encode() + b":" + go_quote(unhx(f["tagtext"])).encode()
            out.append("\t%s %s %s" % (f["name"], gt, go_quote(tag)))
        out.append("}")
        dep = "nil"
        if h.get("dep"):
            out.append("type %sUser struct {\n\tH *%s `wire:\"\"`\n}" % (tname, tname))
            dep = "&%sUser{}" % tname
        out.append("")
        reg.append("\tstaticHolders[%s] = func(name string, ord int) (any, any) {\n\t\th := &%s{}\n\t\th.phName, h.phOrd = name, ord\n"
                   "\t\treturn h, %s\n\t}" % (go_quote(h["key"].encode()), tname, dep))
    out.append("func init() {")
    out += reg
    out.append("}")
    return "\n".join(out) + "\n"


def build_driver(ctx, cases, tag):
    """copy the driver next to the generated holder types (under the harness module, git-ignored) and build it"""
    import os
    import shutil
    rel = os.path.join("work", "c18_%s_%s%s" % (ctx.tier, tag, getattr(ctx, "worktag", "")))
    d = os.path.join(vlib.HARNESS, rel)
    shutil.rmtree(d, ignore_errors=True)
    os.makedirs(d)
    shutil.copy(os.path.join(vlib.HARNESS, "cmd", "c18", "main.go"), os.path.join(d, "main.go"))
    open(os.path.join(d, "gen_holders.go"), "w").write(holder_source(cases))
    return vlib.go_build(ctx, "./" + rel, out=ctx.wpath("bin_c18_" + tag))


def retuple(v):
    """a tree read back from a replay file: JSON turned the float values ("dec", m, e) into lists"""
    if isinstance(v, list):
        if len(v) == 3 and v[0] == "dec":
            return tuple(v)
        return [retuple(x) for x in v]
    if isinstance(v, dict):
        return {k: retuple(x) for k, x in v.items()}
    return v


def corpus():
    cs = []

    def add(tree, tagkey, text, ftype, cons="", hasv=False, expr=None, stream="corpus", mp=None, shape=None, vs=None):
        cs.append({"stream": stream, "config": P.cfg_json(tree), "tree": tree, "tagkey": tagkey, "tagtext": hx(text), "ftype": ftype,
                   "constraints": cons, "hasvalidate": hasv, "expr": expr,
                   "mp": {"n": mp[0], "feats": {f: 1 for f in mp[1:]}, "dependent": True} if mp else None})
        if shape:
            cs[-1].update({"shape": shape, "gotype": go_type(shape), "vs": {k: 1 for k in vs or []}})

    # fixtures of /repo/unittest/configure (expression_tag_test.go, validate_test.go)
    add({"a": 2}, "value", "#{${a}+${b:1}}", "int", expr="2+1")
    add({}, "value", "#{1+2}", "int", expr="1+2")
    add({}, "value", "#{1/2}", "float", expr="1/2")
    add({"s": "dev"}, "value", "#{'${s}' == 'dev' ? 'D' : 'P'}", "string", expr="'dev' == 'dev' ? 'D' : 'P'")
    add({}, "value", "abc,validate=eq=abc", "string", "eq=abc", True)
    add({}, "value", "abc,validate=eq=abcd", "string", "eq=abcd", True)
    add({}, "value", "123,validate=eq=123 number", "string", "eq=123 number", True)
    add({}, "value", "abc,validate=eq=abc number=true", "string", "eq=abc number=true", True)
    add({}, "value", "map[s:abc n:5],validate", "pstruct", "", True)
    add({}, "value", "map[s:abd n:5],validate", "pstruct", "", True)
    add({}, "value", "map[s:abd n:5],validate", "struct", "", True)
    add({}, "value", "true,validate=required", "bool", "required", True)
    add({"test": {"port2": None}}, "value", "${test.port2:[1,2,3]},required=true,validate=required min=3 max=20", "ints",
        "required min=3 max=20", True)
    # known finding witnesses: string results whose text is re-parsed
    add({}, "value", "#{'007'}", "string", expr="'007'")
    add({}, "value", "#{nil}", "any", expr="nil")
    add({}, "value", "#{''}", "string", expr="''")
    add({}, "value", "#{2097152.0 * 2.5}", "int", expr="2097152.0 * 2.5")
    # a float64 of large magnitude through the ${} stage (1e+06 before the repair D-C17g, 1000000 after it), alone and inside an expression
    add({"a": P.norm_dec(1, 6)}, "value", "${a}", "string")
    add({"a": P.norm_dec(1, 6), "c": P.norm_dec(1, -5)}, "value", "#{${a}+${c}}", "float")
    # placeholders inside an expression that need more than one substitution pass (fixed witnesses of the class gen_expr_case(multipass=True)
    # draws from): key built from a placeholder, configured value that is a placeholder (one hop, two hops), default that is a placeholder
    lim = {"tier": "gold", "limits": {"silver": 3, "gold": 5}, "base": 10, "quota": "${base}", "q2": "${quota}", "lang": "en",
           "greeting": {"en": "hello"}}
    add(lim, "value", "#{${limits.${tier}}*2}", "int", expr="5*2", mp=(1, "nested_key"))
    add(lim, "value", "#{'${greeting.${lang}}' + ' ' + 'world'}", "string", expr="'hello' + ' ' + 'world'", mp=(1, "nested_key"))
    add(lim, "value", "#{${limits.${tier}} > ${limits.silver}}", "bool", expr="5 > 3", mp=(1, "nested_key"))
    add(lim, "value", "#{${quota}+1}", "int", expr="10+1", mp=(1, "indirect_1_level"))
    add(lim, "value", "#{${q2} - ${quota}}", "int", expr="10 - 10", mp=(2, "indirect_1_level", "indirect_2plus_levels"))
    add(lim, "value", "#{${nope:${base}} / 4}", "float", expr="10 / 4", mp=(1, "default_with_placeholder"))
    add(lim, "value", "#{${limits.${nope:${tier}}} == 5 ? 'g' : 's'}", "string", expr="5 == 5 ? 'g' : 's'",
        mp=(1, "nested_key", "default_with_placeholder"))
    # `required` on struct values (fixed witnesses of the class gen_vstruct_case draws from): a validated configuration struct with
    # a nested non-pointer section marked required - present, missing, all-zero; the same behind a pointer; a slice / map of
    # structs under `required dive required` without and with a zero element
    pool = sh_struct([sh_field("Size", {"k": "int"}), sh_field("Name", {"k": "string"})])
    db = sh_struct([sh_field("Url", {"k": "string"}, "required"), sh_field("Pool", pool, "required")])
    dbp = sh_struct([sh_field("Url", {"k": "string"}, "required"), sh_field("Pool", {"k": "ptr", "e": pool}, "required")])
    full = {"url": "postgres://localhost/app", "pool": {"size": 4, "name": "main"}}
    nopool = {"url": "postgres://localhost/app"}
    zpool = {"url": "postgres://localhost/app", "pool": {"size": 0, "name": ""}}
    for shp, form in ((db, "struct"), (dbp, "ptr")):
        for sect, state in ((full, "present"), (nopool, "missing"), (zpool, "all_zero")):
            add({"db": sect}, "value", "${db},validate", "dyn", "", True, shape={"k": "ptr", "e": shp},
                vs=["%s[required]:%s" % (form, state), "bound_via_value"])
            add({"db": sect}, "prefix", "db,validate", "dyn", "", True, shape=shp, vs=["%s[required]:%s" % (form, state), "bound_via_prefix"])
    two = [{"size": 1, "name": "a"}, {"size": 2, "name": "b"}]
    zel = [{"size": 1, "name": "a"}, {"size": 0, "name": ""}]
    for elems, state in ((two, "elements_nonzero"), (zel, "zero_element")):
        add({"pools": elems}, "value", "${pools},validate=required dive required", "dyn", "required dive required", True,
            shape={"k": "slice", "e": pool}, vs=["top_slice[required+dive+required]:" + state, "bound_via_value"])
        add({"pools": dict(zip("ab", elems))}, "prefix", "pools,validate=required dive required", "dyn", "required dive required", True,
            shape={"k": "map", "e": pool}, vs=["top_map[required+dive+required]:" + state, "bound_via_prefix"])
    return cs + P.corpus_files("C18")


# ------------------------------------------------------------------------------------------------

FT = {"any": 0, "string": 1, "int": 2, "float": 3, "bool": 4}
ERR = {"ok": 0, "err": 1, "panic": 2, "hang": 3, "crash": 2, "setup": 1}


def coq_part(f):
    cls = {"P": "Prio (%d)%%Z" % f["ord"], "O": "Ord (%d)%%Z" % f["ord"], "U": "Unord"}[f["cls"]]
    return "mkPart %d (%s)" % (f["id"], cls)


def coq_opt_bytes(seen, h):
    return "(Some %s)" % P.coq_b(unhx(h)) if seen else "None"


def usable(v):
    """observed Val comparable as a cval?"""
    if v is None:
        return False
    t = v.get("t")
    if t == "other":
        return False
    if t == "float" and ("Inf" in v.get("n", "") or "NaN" in v.get("n", "") or v.get("n", "").startswith("-0e")):
        return False                 # outside the exact-decimal abstraction of float64 (Model/Strconv.v)
    if t == "list":
        return all(usable(x) for x in v.get("l") or [])
    if t == "map":
        return all(usable(x) for _, x in v.get("m") or [])
    return True


SPLICE_VARIANTS = {"1e+06": False, "1000000": True}


SEND_KEYS = ("name", "tagkey", "tagtext", "ftype", "constraints", "hasvalidate", "shape")
ID_HOLDER = 30


def cls_key(cls, ord_):
    """position of a class / Order() in the ordering contract: priority < ordered < unordered"""
    return {"P": (0, ord_), "O": (1, ord_)}.get(cls, (2, 0))


def holder_info(c, o, facts):
    """what the holder of a case is (class / Order() / laziness read from the VALUE by the driver; the generator's description when
    the run died) and where the ordering contract and the running code put it relative to the validate processor"""
    h = c.get("holder")
    if not h:
        return None
    hf = o.get("hfact")
    if not hf:
        v = h["variant"]
        hf = {"cls": "U" if v == "plain" else v[0], "ord": h["ord"], "lazy": v.endswith("L"), "pp": v != "plain"}
    info = {"cls": hf["cls"], "ord": hf["ord"], "lazy": hf["lazy"], "pp": hf["pp"], "dep": bool(h.get("dep")),
            "eager_pp": hf["pp"] and not hf["lazy"], "created": not (hf["lazy"] and not h.get("dep"))}
    vf = [f for f in facts if f["id"] == 4]
    info["tie"] = info["eager_pp"] and hf["cls"] in "PO" and any(f["cls"] == hf["cls"] and f["ord"] == hf["ord"] for f in facts)
    info["before_validate_by_contract"] = bool(info["eager_pp"] and vf and
                                               cls_key(hf["cls"], hf["ord"]) < cls_key(vf[0]["cls"], vf[0]["ord"]))
    seq = o.get("seq") if o.get("seqok") else None
    info["seq_before_holder"] = None
    if info["eager_pp"] and seq and ID_HOLDER in seq:
        info["seq_before_holder"] = [i for i in seq[:seq.index(ID_HOLDER)] if i != 99]
        info["before_validate_in_running_sequence"] = 4 in seq and 4 not in info["seq_before_holder"]
    return info


def evaluate(ctx, binp, cases, tag):
    send = []
    for c in cases:
        d = {"id": c["id"], "config": c["config"]}
        if c.get("fields"):
            d["fields"] = [{k: f[k] for k in SEND_KEYS if f.get(k) is not None} for f in c["fields"]]
        else:
            d.update({k: c[k] for k in SEND_KEYS if c.get(k) is not None})
        if c.get("holder"):
            d["holder"] = {k: c["holder"][k] for k in ("key", "name", "ord")}
        send.append(d)
    # facts probe: which variant of the ${} callback does the tree have?  value:"${k}" with k: 1000000.0, TagVal after the ${} stage:
    # "1e+06" = strconv2.FormatAny (unrepaired), "1000000" = repair D-C17g (Model/Strconv.v format_cfg, the model's parameter fx)
    probe_id = max([c["id"] for c in cases] + [0]) + 1
    send.append({"id": probe_id, "config": P.cfg_json({"k": P.norm_dec(1, 6)}), "tagkey": "value", "tagtext": hx("${k}"),
                 "ftype": "string", "constraints": "", "hasvalidate": False})
    # cases marked `verbose` run in a driver process of their own, under the logger that really formats every message (as under a
    # debug / trace log level): two invocations, one result
    loud = {c["id"] for c in cases if c.get("verbose")}

    def drive(verbose):
        part = [d for d in send if (d["id"] in loud) == verbose]
        if not part:
            return None
        doc = {"cases": part, "timeout_ms": 10000}
        if verbose:
            doc["verbose"] = True
        rc, r1, raw = vlib.run_json(binp, doc, timeout=3000)
        if r1 is None:
            raise vlib.GoBuildError("./cmd/c18 (run %s)" % tag, raw[-3000:])
        if bool(r1.get("verbose")) != verbose:
            raise vlib.GoBuildError("./cmd/c18 (run %s)" % tag, "the driver ran with verbose=%r, asked for %r" % (r1.get("verbose"), verbose))
        return r1

    from concurrent.futures import ThreadPoolExecutor
    with ThreadPoolExecutor(max_workers=2) as ex:
        parts = list(ex.map(drive, (False, True)))
    res, outs = parts[0], {}
    for r1 in parts:
        if r1:
            outs.update({o["id"]: o for o in r1["outs"]})
    po = outs.pop(probe_id, None) or {}
    splice = unhx(po.get("q", "")).decode("utf-8", "replace") if po.get("qseen") else "<outcome %s>" % po.get("outcome")
    if splice not in SPLICE_VARIANTS:
        raise vlib.GoBuildError("./cmd/c18 (facts)", "value:\"${k}\" with k: 1000000.0 left TagVal %r after the ${} processor; the model "
                                "knows \"1e+06\" (unrepaired callback) and \"1000000\" (repair D-C17g)" % (splice,))
    fix = SPLICE_VARIANTS[splice]
    ctx.float_fix, ctx.float_splice = fix, splice
    facts = (res.get("facts") or []) + (res.get("observers") or [])
    header = ("From Coq Require Import List NArith ZArith.\n"
              "From IocVerif Require Import Model.Sorter Model.Strconv Model.Placeholder Model.Pipeline Corr.Check_C18.\n"
              "Import ListNotations.\nDefinition facts : list participant := [%s].\nDefinition fixv : bool := %s.\n"
              % ("; ".join(coq_part(f) for f in facts), "true" if fix else "false"))
    terms, by_id, harness, outside = [], {}, [], []
    for c in cases:
        o = outs.get(c["id"]) or {"id": c["id"], "outcome": "crash", "evals": []}
        desc = {"case": dict(c), "observed": o}
        by_id[c["id"]] = desc
        flds = fields_of(c)
        fobs = o.get("flds") if c.get("fields") else [o]
        if not fobs or len(fobs) != len(flds):                 # the run died: nothing was observed of any field
            fobs = [{"evals": []} for _ in flds]
        hinfo = holder_info(c, o, facts)
        if hinfo:
            desc["holder"] = hinfo
        if not hinfo and (o["outcome"] == "setup" or (o["outcome"] in ("ok", "err") and not all(x.get("preseen") for x in fobs))):
            harness.append(c["id"])
            desc["harness"] = "the observer before the ${} processor never saw the field"
            continue
        if any(e["outcome"] == "ok" and not usable(e.get("val")) for x in fobs for e in x.get("evals") or []):
            desc["outside_fragment"] = "an expression result is Inf / NaN / -0 or of a kind outside cval"
            outside.append(c["id"])
            continue
        if hinfo and hinfo["tie"]:
            desc["outside_fragment"] = "the holder's class and Order() equal those of another processor: the sort keeps no order among them"
            outside.append(c["id"])
            continue
        tbl = P.flatten(c["tree"])
        fterms = []
        for f, x in zip(flds, fobs):
            evals = []
            for e in x.get("evals") or []:
                if e["outcome"] == "ok" and usable(e.get("val")):
                    evals.append("(%s, Ok %s)" % (P.coq_b(unhx(e["k"])), P.coq_val(P.obs_val(e["val"]))))
                elif e["outcome"] == "ok":
                    evals.append("(%s, Panic)" % P.coq_b(unhx(e["k"])))       # value kinds outside cval: never equal to an observation
                else:
                    evals.append("(%s, Err)" % P.coq_b(unhx(e["k"])))
            ft = FT.get(f["ftype"], 9)
            fv = "None"
            if x.get("field") is not None and ft != 9 and usable(x["field"]):
                fv = "(Some %s)" % P.coq_val(P.obs_val(x["field"]))
            if o["outcome"] in ("hang", "crash") or "tagstr" not in x:
                tagstr = unhx(f["tagtext"]).split(b",")[0]
            else:
                tagstr = unhx(x.get("tagstr", ""))
            expr_u = "(Some %s)" % P.coq_b(f["expr"]) if f.get("expr") is not None else "None"
            fterms.append("mkFld %d %s %s %s [%s] %d %s %s %s %s %s %s" % (
                0 if f["tagkey"] == "value" else 1, P.coq_b(tagstr),
                "true" if x.get("required", True) else "false", "true" if f["hasvalidate"] else "false",
                "; ".join(evals), ft, "true" if x.get("verdict", True) else "false",
                expr_u, coq_opt_bytes(x.get("qseen"), x.get("q", "")), coq_opt_bytes(x.get("eseen"), x.get("e", "")),
                "true" if x.get("bound") else "false", fv))
        cfacts, created, cseq = "facts", "true", "None"
        if hinfo:
            created = "true" if hinfo["created"] else "false"
            if hinfo["eager_pp"]:                             # the holder is a participant of the sorted sequence: created in its turn
                cfacts = "(facts ++ [%s])" % coq_part({"id": ID_HOLDER, "cls": hinfo["cls"], "ord": hinfo["ord"]})
                if hinfo["seq_before_holder"] is not None:
                    cseq = "(Some [%s])" % "; ".join("%d" % i for i in hinfo["seq_before_holder"])
        terms.append("mkCase %d %s %s fixv %s %s [%s] %d" % (c["id"], P.coq_cfg(tbl), cfacts, created, cseq, "; ".join(fterms),
                                                         ERR.get(o["outcome"], 1)))
    import random
    random.Random(len(terms)).shuffle(terms)
    out = vlib.coq_eval_sharded(ctx, "cases_c18_" + tag, header, terms,
                                {"M": "mismatches", "V": "violations", "NT": "count_nontrivial", "VF": "count_validate_fail",
                                 "KC": "kf_codes"}, shard=200)
    for i in range(0, len(out["KC"]) - 1, 2):
        by_id[out["KC"][i]]["kf_class"] = out["KC"][i + 1]
    M = sorted(set(out["M"]) | set(harness))
    json.dump({"by_id": by_id, "M": M, "V": out["V"]}, open(ctx.wpath("dump_%s.json" % tag), "w"))
    return by_id, M, out["V"], {"nt": sum(out["NT"]), "vf": sum(out["VF"]), "evals": len(terms), "outside": len(outside)}, res, facts


def facts_obligation(ctx, res):
    """instantiated obligation: staged / staged_classes on the class and Order() read from the real processor values"""
    facts = res.get("facts") or []
    if res.get("facts_panic") or len(facts) < 5:
        ctx.oblige("instantiated: staged (facts read from processors.New...()) = true", False, "facts could not be read")
        return False
    text = ("From Coq Require Import List ZArith.\nFrom IocVerif Require Import Model.Sorter Model.Pipeline.\nImport ListNotations.\n"
            "Definition facts : list participant := [%s].\n"
            "Definition F := Eval vm_compute in (if staged facts then 1 else 0)%%nat.\nPrint F.\n"
            "Definition FC := Eval vm_compute in (if staged_classes facts then 1 else 0)%%nat.\nPrint FC.\n"
            "Lemma facts_staged : staged facts = true. Proof. vm_compute. reflexivity. Qed.\n"
            % "; ".join(coq_part(f) for f in facts))
    ok, detail = True, ""
    try:
        out = vlib.coq_eval(ctx, "Facts_C18", text, ["F", "FC"])
        ok = out["F"] == [1] and out["FC"] == [1]
        detail = "staged=%s staged_classes=%s on %s" % (out["F"], out["FC"], [(f["name"], f["cls"], f["ord"]) for f in facts])
    except vlib.CoqEvalError as ex:
        ok, detail = False, "Facts_C18.v does not check: " + ex.out[-400:]
    ctx.oblige("instantiated: staged facts = true /\\ staged_classes facts = true (facts read from processors.New...())", ok, detail)
    if not ok:
        ctx.build_error = detail
    ctx.facts_detail = detail
    return ok


def multi_distribution(cases, by_id):
    """the class `one component, several validated properties`: volumes per shape of the component and per verdict pattern"""
    st = {"cases": 0, "cases_by_field_count": {}, "fields_by_kind": {}, "fields_by_type": {}, "fields_validated": 0,
          "cases_all_fields_bound": 0, "cases_no_property_violates": 0, "cases_some_property_violates": 0,
          "cases_by_number_of_violating_properties": {}, "cases_violating_property_is_first": 0, "cases_violating_property_is_last": 0,
          "cases_valid_struct_before_violating_property": 0, "of_these_same_tag_key": 0, "of_these_startup_failed": 0,
          "of_these_violating_is_scalar": 0, "of_these_violating_is_expression": 0, "of_these_violating_is_struct": 0,
          "cases_by_outcome": {}}
    keys = set()
    for c in cases:
        if not c.get("fields") or c.get("holder") or len(c["fields"]) < 2:
            continue
        o = by_id.get(c["id"], {}).get("observed", {})
        fobs = o.get("flds") or []
        st["cases"] += 1
        keys.add(vlib.stable_hash([c["config"], [[f["tagkey"], f["tagtext"], f["ftype"]] for f in c["fields"]]]))
        n = len(c["fields"])
        st["cases_by_field_count"][n] = st["cases_by_field_count"].get(n, 0) + 1
        for f in c["fields"]:
            for key, val in (("fields_by_kind", f.get("kind", "?")), ("fields_by_type", f["ftype"])):
                st[key][val] = st[key].get(val, 0) + 1
            st["fields_validated"] += 1 if f["hasvalidate"] else 0
        st["cases_by_outcome"][o.get("outcome")] = st["cases_by_outcome"].get(o.get("outcome"), 0) + 1
        if len(fobs) != n or not all(x.get("bound") for x in fobs):
            continue
        st["cases_all_fields_bound"] += 1
        viol = [f["hasvalidate"] and not x.get("verdict", True) for f, x in zip(c["fields"], fobs)]
        nv = sum(viol)
        st["cases_by_number_of_violating_properties"][nv] = st["cases_by_number_of_violating_properties"].get(nv, 0) + 1
        st["cases_some_property_violates" if nv else "cases_no_property_violates"] += 1
        if nv:
            st["cases_violating_property_is_first"] += 1 if viol[0] else 0
            st["cases_violating_property_is_last"] += 1 if viol[-1] else 0
        is_struct = [f["ftype"] in STRUCT_FTYPES or (f["ftype"] == "dyn" and f["shape"]["k"] in ("struct", "ptr")) for f in c["fields"]]
        first = next((i for i, v in enumerate(viol) if v), None)
        if first is not None:
            ahead = [i for i in range(first) if is_struct[i] and c["fields"][i]["hasvalidate"] and not viol[i]]
            if ahead:
                st["cases_valid_struct_before_violating_property"] += 1
                st["of_these_same_tag_key"] += 1 if any(c["fields"][i]["tagkey"] == c["fields"][first]["tagkey"] for i in ahead) else 0
                st["of_these_startup_failed"] += 1 if o.get("outcome") == "err" else 0
                k = "struct" if is_struct[first] else "expression" if c["fields"][first].get("expr") is not None else "scalar"
                st["of_these_violating_is_" + k] += 1
    st["distinct_cases"] = len(keys)
    return st


def holder_distribution(cases, by_id, V, classify_known):
    """the class `the validated field sits on a component that is a post processor`: volumes per kind of holder, name, position of
    the holder relative to the validate processor, and what start-up did when the bound value violates the constraints"""
    st = {"cases": 0, "cases_by_holder_kind": {}, "cases_by_name": {}, "cases_by_field_count": {},
          "eager_processor_holders_by_position": {}, "eager_unordered_by_name": {}, "lazy_holders": {"wired_into_a_component": 0, "alone_never_created": 0},
          "cases_probe_of_running_sequence_available": 0, "cases_outside_fragment_order_tie": 0,
          "cases_bound_value_violates": 0, "violating_startup_failed": 0, "violating_started_in_class_KF-C05a": 0,
          "violating_started_outside_the_class": 0, "violating_by_holder_kind": {}, "cases_by_outcome": {}}
    kinds = {"U": "unordered", "O": "ordered", "P": "priority_ordered", "UL": "unordered_lazy", "OL": "ordered_lazy",
             "PL": "priority_ordered_lazy", "plain": "plain_component"}
    keys = set()
    vset = set(V)
    for c in cases:
        h = c.get("holder")
        if not h:
            continue
        d = by_id.get(c["id"], {})
        o, info = d.get("observed", {}), d.get("holder") or {}
        st["cases"] += 1
        keys.add(vlib.stable_hash([c["config"], [h[k] for k in ("variant", "name", "ord", "dep")],
                                   [[f["tagkey"], f["tagtext"], f["ftype"]] for f in c["fields"]]]))
        kind = kinds[h["variant"]]
        for key, val in (("cases_by_holder_kind", kind), ("cases_by_name", name_class(h["name"])),
                         ("cases_by_field_count", len(c["fields"])), ("cases_by_outcome", o.get("outcome"))):
            st[key][val] = st[key].get(val, 0) + 1
        if info.get("tie"):
            st["cases_outside_fragment_order_tie"] += 1
        if info.get("lazy"):
            st["lazy_holders"]["wired_into_a_component" if info.get("dep") else "alone_never_created"] += 1
        if info.get("eager_pp"):
            pos = ("before_the_validate_processor(" + kind + ")" if info.get("before_validate_by_contract") else
                   "after_the_validate_processor(" + kind + ")")
            st["eager_processor_holders_by_position"][pos] = st["eager_processor_holders_by_position"].get(pos, 0) + 1
            if info.get("seq_before_holder") is not None:
                st["cases_probe_of_running_sequence_available"] += 1
            if h["variant"] == "U":
                nc = name_class(h["name"])
                st["eager_unordered_by_name"][nc] = st["eager_unordered_by_name"].get(nc, 0) + 1
        fobs = o.get("flds") or []
        violates = any(f["hasvalidate"] and x.get("bound") and not x.get("verdict", True) for f, x in zip(c["fields"], fobs))
        if violates and len(fobs) == len(c["fields"]) and all(x.get("bound") for x in fobs):
            st["cases_bound_value_violates"] += 1
            st["violating_by_holder_kind"][kind] = st["violating_by_holder_kind"].get(kind, 0) + 1
            if o.get("outcome") == "err":
                st["violating_startup_failed"] += 1
            elif c["id"] in vset and classify_known(d) == "KF-C05a":
                st["violating_started_in_class_KF-C05a"] += 1
            else:
                st["violating_started_outside_the_class"] += 1
    st["distinct_cases"] = len(keys)
    return st


def corpus_structured():
    """fixed witnesses of the two classes `several validated properties on one component` and `the component is a post processor`"""
    cs = []

    def fld(name, tagkey, text, ftype, cons="", hasv=True, expr=None, kind="scalar"):
        return {"name": name, "tagkey": tagkey, "tagtext": hx(text), "ftype": ftype, "constraints": cons, "hasvalidate": hasv,
                "expr": expr, "kind": kind}

    pool_ok, pool_bad = {"s": "abc", "n": 4}, {"s": "abd", "n": 4}
    base = {"pool": pool_ok, "spare": pool_bad, "port": {"base": 70000, "offset": 80}, "proto": "ftp", "audit": {"base": 3}}
    port = lambda n: fld(n, "value", "#{${port.base}+${port.offset}},validate=gte=1024 lte=65535", "int", "gte=1024 lte=65535",
                         expr="70000+80", kind="expr")
    proto = lambda n: fld(n, "value", "${proto},validate=eq=http|eq=https", "string", "eq=http|eq=https")
    pool = lambda n, key="pool", ft="pstruct": fld(n, "value", "${%s},validate" % key, ft, kind="struct")
    # a VALID validated struct / *struct in front of a violating scalar, behind it, between two; a valid struct before an invalid one
    for fields in ([pool("F1"), port("F2")], [port("F1"), pool("F2")], [pool("F1", ft="struct"), proto("F2")],
                   [pool("F1"), pool("F2", "spare")], [pool("F1", "spare"), pool("F2")],
                   [pool("F1"), fld("F2", "prefix", "pool,validate", "struct", kind="struct"), proto("F3")],
                   [pool("F1"), fld("F2", "value", "${audit.base},validate=gte=1", "int", "gte=1")]):
        cs.append({"stream": "corpus", "config": P.cfg_json(base), "tree": base, "fields": fields})
    # the validated field sits on a component that is a post processor itself: unordered with a name before / after the built-in
    # processors' names (created after every ordered processor: validated), Ordered behind OrderValidate (validated), Ordered in
    # front of it and Priority-ordered (created before the validate processor is active: KF-C05a), lazy and wired (validated)
    thr = lambda: [fld("F1", "value", "#{${audit.base}*2},validate=gte=10", "int", "gte=10", expr="3*2", kind="expr")]
    for variant, name, ord_, dep in (("U", "auditProcessor", 0, False), ("U", "zz-audit", 0, False), ("U", "github.com/acme/audit", 0, False),
                                     ("O", "auditProcessor", 100, False), ("O", "auditProcessor", 6, False), ("P", "zz-audit", 100, False),
                                     ("UL", "Audit", 0, True), ("PL", "Audit", 1, True), ("plain", "auditProcessor", 0, False)):
        cs.append({"stream": "corpus", "config": P.cfg_json(base), "tree": base, "fields": thr(),
                   "holder": {"variant": variant, "name": name, "ord": ord_, "dep": dep}})
    return cs


def verbose_share(c):
    """which cases run under the formatting logger: 3 in 5 of the stream `ordered`, 2 in 5 of every other stream (by id, so that a
    case keeps its mode when the generators change)"""
    return (c["id"] * 7919) % 5 < (3 if c.get("stream") == "ordered" else 2)


def ordered_distribution(cases, by_id):
    st = {"cases": 0, "under_formatting_logger": 0, "verdict_depends_on_constraint_order": 0,
          "verdict_depends_on_order_and_formatting_logger": 0, "by_route": {}, "by_field_type": {}, "by_constraints": {},
          "order_dependent_by_constraints": {}, "by_outcome": {}, "zero_valued": 0}
    for c in cases:
        oc = c.get("oc")
        if not oc:
            continue
        o = by_id.get(c["id"], {}).get("observed", {})
        st["cases"] += 1
        st["under_formatting_logger"] += bool(c.get("verbose"))
        st["zero_valued"] += bool(oc["zero_value"])
        dep = o.get("bound") and o.get("verdict") is not None and o.get("verdict") != o.get("verdict_sorted")
        st["verdict_depends_on_constraint_order"] += bool(dep)
        st["verdict_depends_on_order_and_formatting_logger"] += bool(dep and c.get("verbose"))
        for key, val in (("by_route", oc["route"]), ("by_field_type", c["ftype"]), ("by_constraints", oc["cons"]),
                         ("by_outcome", o.get("outcome"))):
            st[key][val] = st[key].get(val, 0) + 1
        if dep:
            st["order_dependent_by_constraints"][oc["cons"]] = st["order_dependent_by_constraints"].get(oc["cons"], 0) + 1
    st["distinct_cases"] = len({vlib.stable_hash([c["config"], c["tagtext"], c["ftype"], c.get("verbose")]) for c in cases if c.get("oc")})
    return st


def run(ctx):
    static_ok = vlib.static_obligations(ctx)
    rng = ctx.rng
    cases = [dict(c, id=i + 1) for i, c in enumerate(corpus() + corpus_structured() + corpus_ordered())]
    if ctx.replay:
        r = json.load(open(ctx.replay))
        rc = r.get("case", {}).get("case")
        if rc:
            cases = [dict(rc, id=1, tree=retuple(rc.get("tree")))]
    else:
        n_expr, n_mp, n_mixed, n_val, n_vs, n_multi, n_ph = ((900, 600, 200, 800, 700, 600, 500) if ctx.quick() else
                                                            (8000, 5000, 2000, 6000, 6000, 5000, 1500))
        n_ord = 500 if ctx.quick() else 4000
        cid = len(cases) + 1
        for _ in range(n_ord):
            cases.append(gen_ordered_case(rng, cid)); cid += 1
        for _ in range(n_expr):
            cases.append(gen_expr_case(rng, cid)); cid += 1
        for _ in range(n_mp):
            cases.append(gen_expr_case(rng, cid, multipass=True)); cid += 1
        for _ in range(n_mixed):
            cases.append(gen_mixed_case(rng, cid)); cid += 1
        for _ in range(n_val):
            cases.append(gen_validate_case(rng, cid)); cid += 1
        for _ in range(n_vs):
            cases.append(gen_vstruct_case(rng, cid)); cid += 1
        for _ in range(n_multi):
            cases.append(gen_multi_case(rng, cid)); cid += 1
        for _ in range(n_ph):
            cases.append(gen_pholder_case(rng, cid)); cid += 1
    for c in cases:
        if c.get("holder"):
            c["holder"]["key"] = "H%d" % c["id"]
        if "verbose" not in c:
            c["verbose"] = verbose_share(c)
    binp = build_driver(ctx, cases, "main")
    by_id, M, V, cnt, res, facts = evaluate(ctx, binp, cases, "main")
    facts_ok = facts_obligation(ctx, res)
    ctx.oblige("facts: the tree's ${} callback is one of the two modelled variants (a float64 spliced as strconv2.FormatAny writes it = "
               "unrepaired, or in plain digits = repair D-C17g)", True,
               "value:\"${k}\" with k: 1000000.0 gives TagVal %r; D-C17g applied: %s" % (ctx.float_splice, ctx.float_fix))
    ctx.log("cases=%d evaluations=%d nontrivial=%d validate_failures=%d mismatches=%d violations=%d facts_ok=%s" % (
        len(cases), cnt["evals"], cnt["nt"], cnt["vf"], len(M), len(V), facts_ok))

    def size_of(i):
        d = by_id.get(i, {}).get("case", {})
        return sum(len(f.get("tagtext") or "") for f in fields_of(d)) + len(d.get("config", "")) + (200 if d.get("holder") else 0)

    V.sort(key=size_of)
    M.sort(key=size_of)
    def classify(desc, mism):
        c = desc.get("case", {})
        if c.get("id") in mism or desc.get("observed", {}).get("outcome") in ("hang", "crash", "panic"):
            return None
        h = desc.get("holder")
        if h:
            # KF-C05a: an eager post-processor component is populated by the processors that are active when it is created.  The
            # class is narrow: the holder's OWN Priority / Order() puts it in front of the validate processor (an unordered holder
            # comes after every ordered processor and is never in the class), the running code's sorted sequence shows it there, and
            # the model of exactly that behaviour reproduces the whole observation (the case is not a mismatch)
            if (h["eager_pp"] and h["cls"] in ("P", "O") and h["before_validate_by_contract"]
                    and h.get("before_validate_in_running_sequence")):
                return "KF-C05a"
        return {1: "KF-C18a", 2: "KF-C18b"}.get(desc.get("kf_class"))

    def classify_known(desc):
        return classify(desc, M)

    def widen():
        import random
        found = []
        for extra in range(1, 3):
            r2 = random.Random(ctx.seed * 104729 + extra)
            more = []
            for i in range(1, 401):
                more.append(gen_expr_case(r2, i))
            for i in range(401, 801):
                more.append(gen_validate_case(r2, i))
            for i in range(801, 1201):
                more.append(gen_expr_case(r2, i, multipass=True))
            for i in range(1201, 1601):
                more.append(gen_vstruct_case(r2, i))
            for i in range(1601, 2001):
                more.append(gen_multi_case(r2, i))
            for i in range(2001, 2301):
                more.append(gen_pholder_case(r2, i))
            for i in range(2301, 2701):
                more.append(gen_ordered_case(r2, i))
            for c in more:
                c["verbose"] = verbose_share(c)
            b2, M2, V2, _, _, _ = evaluate(ctx, build_driver(ctx, more, "widen%d" % extra), more, "widen%d" % extra)
            for i in V2:
                d = b2[i]
                if not classify(d, M2):
                    found.append(d)
            if found:
                break
        return found[:3]

    streams, outcomes = {}, {}
    # the class `placeholders inside #{} that need more than one substitution pass`: cases and placeholders per feature
    mp = {"cases": 0, "cases_by_stream": {}, "placeholders": 0, "cases_with_several": 0, "cases_result_depends_on_inner_value": 0,
          "cases_by_feature": {}, "cases_by_outcome": {}, "cases_by_field_type": {}}
    for c in cases:
        if c.get("fields"):
            k = c.get("stream", "") + (":holder" if c.get("holder") else "") + ":%d_fields" % len(c["fields"])
        else:
            k = c.get("stream", "") + ":" + c["tagkey"] + ":" + c["ftype"]
        streams[k] = streams.get(k, 0) + 1
        m = c.get("mp")
        if m:
            mp["cases"] += 1
            mp["placeholders"] += m["n"]
            mp["cases_with_several"] += 1 if m["n"] >= 2 else 0
            mp["cases_result_depends_on_inner_value"] += 1 if m.get("dependent") else 0
            for f in m["feats"]:
                mp["cases_by_feature"][f] = mp["cases_by_feature"].get(f, 0) + 1
            oc = by_id.get(c["id"], {}).get("observed", {}).get("outcome")
            for key, val in (("cases_by_stream", c.get("stream", "")), ("cases_by_outcome", oc), ("cases_by_field_type", c.get("ftype"))):
                mp[key][val] = mp[key].get(val, 0) + 1
    mp["distinct_cases"] = len({vlib.stable_hash([c["config"], c["tagtext"], c["ftype"]]) for c in cases if c.get("mp")})
    ctx.log("multi-pass placeholder class: %d cases (%d distinct, %d placeholders, %d with several, %d result-dependent) %s" % (
        mp["cases"], mp["distinct_cases"], mp["placeholders"], mp["cases_with_several"], mp["cases_result_depends_on_inner_value"],
        json.dumps(mp["cases_by_feature"], sort_keys=True)))
    # the class `struct-valued validation targets`: cases per (form, tag, state of the section) and how many of them have a
    # verdict that `required` on a struct value decides (the reference verdict differs from that of an instance without
    # WithRequiredStructEnabled - a statistic, never compared)
    vs = {"cases": 0, "cases_with_validate_bound": 0, "startup_failed_in_validation": 0, "startup_ok": 0,
          "verdict_decided_by_required_on_struct_value": 0, "targets_by_form_tag_state": {}, "cases_by_top_type": {},
          "cases_by_binding": {}, "cases_by_type_depth": {}, "targets_by_level": {}}
    for c in cases:
        lab = c.get("vs")
        if lab is None:
            continue
        o = by_id.get(c["id"], {}).get("observed", {})
        vs["cases"] += 1
        if c["hasvalidate"] and o.get("bound"):
            vs["cases_with_validate_bound"] += 1
            vs["startup_failed_in_validation"] += 1 if o.get("outcome") == "err" else 0
            vs["startup_ok"] += 1 if o.get("outcome") == "ok" else 0
            if o.get("verdict") is False and o.get("verdict_lax") is True:
                vs["verdict_decided_by_required_on_struct_value"] += 1
        top = c["shape"]["k"] if c["shape"]["k"] != "slice" else ("slice_of_ptr" if c["shape"]["e"]["k"] == "ptr" else "slice")
        vs["cases_by_top_type"][top] = vs["cases_by_top_type"].get(top, 0) + 1
        for k, n in lab.items():
            key = ("cases_by_binding" if k.startswith("bound_via_") else "cases_by_type_depth" if k.startswith("type_depth_") else
                   "targets_by_level" if k.startswith("level") else "targets_by_form_tag_state")
            vs[key][k] = vs[key].get(k, 0) + n
    vs["distinct_cases"] = len({vlib.stable_hash([c["config"], c["tagkey"], c["tagtext"], c["shape"]]) for c in cases if c.get("vs") is not None})
    by_state = {}
    for k, n in vs["targets_by_form_tag_state"].items():
        form, state = k.split("[")[0].split(":")[0], k.rsplit(":", 1)[1]
        req = "required" in k and "omitempty" not in k
        kk = "%s%s:%s" % (form, "+required" if req else "", state)
        by_state[kk] = by_state.get(kk, 0) + n
    vs["targets_by_form_state"] = by_state
    ctx.log("struct-valued validation targets: %d cases (%d distinct, %d bound with validate: %d failed in validation, %d started; "
            "verdict decided by `required` on a struct value in %d) %s" % (
                vs["cases"], vs["distinct_cases"], vs["cases_with_validate_bound"], vs["startup_failed_in_validation"], vs["startup_ok"],
                vs["verdict_decided_by_required_on_struct_value"], json.dumps(by_state, sort_keys=True)))
    multi_stats = multi_distribution(cases, by_id)
    holder_stats = holder_distribution(cases, by_id, V, classify_known)
    ctx.log("components with several tagged fields: %d cases (%d distinct); a VALID validated struct in front of a violating property: %d "
            "(start-up failed in %d of them); some property violates: %d, none: %d" % (
                multi_stats["cases"], multi_stats["distinct_cases"], multi_stats["cases_valid_struct_before_violating_property"],
                multi_stats["of_these_startup_failed"], multi_stats["cases_some_property_violates"],
                multi_stats["cases_no_property_violates"]))
    ctx.log("validated fields on post-processor components: %d cases (%d distinct) by kind %s; bound value violates: %d, of these start-up "
            "failed %d, started in known-finding class KF-C05a %d, started otherwise %d" % (
                holder_stats["cases"], holder_stats["distinct_cases"], json.dumps(holder_stats["cases_by_holder_kind"], sort_keys=True),
                holder_stats["cases_bound_value_violates"], holder_stats["violating_startup_failed"],
                holder_stats["violating_started_in_class_KF-C05a"], holder_stats["violating_started_outside_the_class"]))
    ord_stats = ordered_distribution(cases, by_id)
    loud_stats = {"cases_under_formatting_logger": sum(1 for c in cases if c.get("verbose")), "by_stream": {}}
    for c in cases:
        if c.get("verbose"):
            loud_stats["by_stream"][c.get("stream", "")] = loud_stats["by_stream"].get(c.get("stream", ""), 0) + 1
    ctx.log("formatting logger (debug/trace arguments really evaluated): %d of %d cases %s" % (
        loud_stats["cases_under_formatting_logger"], len(cases), json.dumps(loud_stats["by_stream"], sort_keys=True)))
    ctx.log("order-sensitive constraint lists through ${} / #{}: %d cases (%d distinct), %d under the formatting logger; the verdict "
            "depends on the order of the constraints in %d (%d of them under the formatting logger) %s" % (
                ord_stats["cases"], ord_stats["distinct_cases"], ord_stats["under_formatting_logger"],
                ord_stats["verdict_depends_on_constraint_order"], ord_stats["verdict_depends_on_order_and_formatting_logger"],
                json.dumps(ord_stats["by_route"], sort_keys=True)))
    for d in by_id.values():
        oc = d["observed"].get("outcome")
        outcomes[oc] = outcomes.get(oc, 0) + 1

    def counts_as_distinct(c):
        if c.get("stream") in ("validate", "vstruct", "multi", "pholder", "ordered"):
            return True
        return any(f.get("expr") is not None and "${" in unhx(f["tagtext"]).decode("latin1") for f in fields_of(c))

    distinct = len({vlib.stable_hash([c["config"], c.get("holder") and [c["holder"][k] for k in ("variant", "name", "ord", "dep")],
                                      [[f["tagkey"], f["tagtext"], f["ftype"]] for f in fields_of(c)]])
                    for c in cases if counts_as_distinct(c)})
    samples = [by_id[i] for i in sorted(by_id) if by_id[i]["case"].get("stream") == "expr"][:2]
    samples += [by_id[i] for i in sorted(by_id) if by_id[i]["case"].get("stream") == "multipass"][:3]
    samples += [by_id[i] for i in sorted(by_id) if by_id[i]["case"].get("stream") == "validate"][:2]
    samples += [by_id[i] for i in sorted(by_id) if by_id[i]["case"].get("stream") == "vstruct"][:3]
    samples += [by_id[i] for i in sorted(by_id) if by_id[i]["case"].get("stream") == "multi"][:2]
    samples += [by_id[i] for i in sorted(by_id) if by_id[i]["case"].get("stream") == "pholder"][:3]
    samples += [by_id[i] for i in sorted(by_id) if by_id[i]["case"].get("stream") == "ordered"][:3]
    cov = {
        "evaluations": cnt["evals"],
        "distinct_nontrivial": min(cnt["nt"], distinct),
        "rule": "real App.Run starts: (a) value tags `#{expr}` with generated arithmetic / boolean / string / conditional / membership "
                "expressions over literals and ${} placeholders (present keys, absent keys with defaults), field types any/string/int/"
                "float64/bool, optionally a validate argument; (a') the same with placeholders that need more than one substitution "
                "pass (stream multipass, and about one placeholder in eight of the other streams): keys built from placeholders "
                "${limits.${tier}}, configured values that contain placeholders (one, two and more hops, with text around), defaults "
                "that contain placeholders, several per expression, and expressions that are injective in the inner value; (b) mixed texts with several expressions; (c) value x constraint pairs for "
                "validate on scalars, pointers, slices, maps and (nested) structs, bound from literals and through prefix; boundaries; "
                "unbound fields; (d) struct-valued validation targets (stream vstruct, field types built by the driver from generated "
                "shapes): nested non-pointer structs, pointers to structs, slices / maps of structs and of pointers to structs, tagged "
                "required / dive,required / required,dive,required / min=1,dive,required / omitempty / not at all, one and two levels "
                "deep next to constrained scalars, as the field itself or inside a validated struct, with the section present, missing, "
                "all-zero, empty or holding a zero element, bound through prefix and through a ${} value; (e) ONE component with 2-4 "
                "tagged fields of the kinds (a) (c) (d) - scalars, expressions, struct / *struct, struct-valued targets - each independently "
                "valid or violating, in every order (stream multi): start-up fails in validation iff at least one bound value violates; "
                "(f) the validated field(s) on a generated component type that is itself a container.ComponentPostProcessor - unordered / "
                "Ordered / Priority-ordered with Orders around those of the built-in processors, lazy (alone or wired into a plain component) "
                "or not, named before / after the built-in processors' names (stream pholder): the model applies the processors that the "
                "sorted sequence (class / Order() read from the holder value; cross-checked against the factory's sequence read from the "
                "running code) places before the holder, the oracle is the property; (g) order-sensitive, not lexically sorted constraint lists "
                "(`max=2 dive min=3`, `omitempty gte=10`, ...) on scalars and lists bound through ${} (configured value, default) and "
                "#{} (stream ordered), values chosen so that the verdict of the written order differs from that of the sorted order in "
                "about half of them. About 2 in 5 of all cases (3 in 5 of stream ordered) run under a logger that really formats every "
                "debug / trace message of the container (hx.FmtLogger, output discarded): observations and oracles are the same "
                "either way. non-trivial = (a) with at least one placeholder inside the expression, or a case with a validate "
                "argument whose binding stage was reached; distinct = distinct (configuration, tag, field type)",
        "samples": samples,
        "traces_validated_against_impl": len(cases),
        "input_distribution": {"streams": streams, "outcomes": outcomes, "multipass_placeholders": mp,
                               "struct_valued_validation_targets": vs,
                               "components_with_several_validated_properties": multi_stats,
                               "validated_fields_on_postprocessor_components": holder_stats,
                               "order_sensitive_constraint_lists": ord_stats,
                               "formatting_logger": loud_stats},
        "nontrivial_cases": cnt["nt"],
        "validate_failures_observed": cnt["vf"],
        "cases_outside_modelled_fragment": cnt["outside"],
        "facts": getattr(ctx, "facts_detail", ""),
        "callback_variant": {"float_splice_probe": ctx.float_splice, "D-C17g_applied": ctx.float_fix},
    }
    return vlib.decide(ctx, static_ok and facts_ok, by_id, M, V, cov, classify_known=classify_known, widen=widen,
                       assumptions=["expr-lang (Compile+Run) and go-playground/validator are oracles: called directly by the driver on the "
                                    "substituted expression text / the final field value; the reference validator is built by the driver "
                                    "with WithRequiredStructEnabled (`required` on a struct value = not the zero struct), independently of "
                                    "the instance inside container/processors",
                                    "user processors do not modify TagVal or the field of a configuration property",
                                    "holders whose class and Order() equal those of another registered processor are not generated (the sort "
                                    "keeps no order among equals); a case where it happens anyway is counted as outside the fragment",
                                    "mapstructure decoding is modelled for scalar field types only (harness comparison, not theorems)"])
