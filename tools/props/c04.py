"""C04 — singleton cache protocol: one early reference, final publication, clean failure.

(a) generated op scripts driven against the real support.DefaultSingletonComponentRegistry() (creations nested through
    real callbacks), (b) real app.Run starts with failing lazy components and later GetComponentByName lookups, with the
    factory's registry calls traced, (c) thorough tier: every script up to a length over two names.
The executed histories and what every call returned are evaluated in Coq against Model/Registry.v (rrun repaired) and
by the boolean oracles of Model/RegistryProto.v that the theorems of Properties/C04.v are about.
"""
import itertools
import json
import os

import vlib

MANIFEST = {
    "level": "proof",
    "text": "Rocq theorems over Model/Registry.v + Model/RegistryProto.v by induction over arbitrary registry op lists (all "
            "names, all nesting depths): one early reference per creation window and at most one early-factory run that "
            "returns one; the published instance is final until removed; after a failed creation nothing of the name is "
            "left (repaired registry; refuted with a witness for the unrepaired one). The model is tied to the code on "
            "every run: generated op scripts are executed on the real singleton registry with creations nested through "
            "real callbacks, real app.Run starts with failing lazy components are traced at the registry interface, and "
            "Coq evaluates model outputs and the theorems' oracles on the executed histories (vm_compute). Factory level: "
            "Model/FactoryTrace.v computes the registry history of a whole start; c04_factory_conforms proves, for every "
            "scenario and both variants of the code, that it is in the strict protocol language (so the three parts hold "
            "of every start), with erasure and replay theorems tying the traced model to Model/Factory.v; the recorded "
            "registry calls of real starts of generated wiring scenarios are compared with the model history op by op; the registry history of whole starts of the extended model conforms to the strict protocol (c04_factory_conforms_extended) and leaves the registry clean (c04_start_leaves_registry_clean_extended)",
    "design_ref": "DESIGN.md 5 C04, Appendix A",
    "note": "trusted: Coq kernel + vm_compute; hand-written model of singleton_component_registry.go; Go driver (script "
            "executor, tracing wrapper installed by reflection), Python generators; hand-written Model/Factory.v + "
            "Model/FactoryTrace.v (IsSingletonCurrentlyInCreation queries are left out of the compared histories)",
    "technique": "Rocq proof (induction over op lists with a per-name view of the state) + vm_compute correspondence against "
                 "the Go implementation (direct scripts, traced real starts, exhaustive small scripts in the thorough tier); factory "
                 "histories: induction on the recursion fuel of the traced factory model (erasure, replay, protocol) + op-by-op "
                 "comparison with traced real starts",
}

HEADER = ("From Coq Require Import List Arith Bool NArith.\n"
          "From IocVerif Require Import Model.Registry Model.RegistryProto Corr.Check_C04.\nImport ListNotations.\n")


# ------------------------------------------------------------------------------------------------
# script generators (tree form, see harness/cmd/c04/main.go)

def count_ops(ops):
    n = 0
    for o in ops:
        n += 1
        if o["k"] in ("c", "dg"):
            n += 1 + count_ops(o["b"]) + (1 if o["k"] == "dg" else 0)
    return n


class Gen:
    def __init__(self, rng, nnames, budget):
        self.rng = rng
        self.names = list(range(nnames))
        self.budget = budget
        self.nextf = 0

    def tok(self, n, weird=0.15):
        r = self.rng.random()
        if r < 1 - weird:
            return [n, 0]
        if r < 1 - weird / 3:
            return [n, self.rng.randint(1, 2)]
        return [self.rng.choice(self.names), self.rng.randint(0, 2)]

    def newf(self):
        self.nextf += 1
        return self.nextf

    def af(self, n):
        out = self.tok(n) if self.rng.random() < 0.8 else None
        return {"k": "af", "n": n, "f": self.newf(), "o": out}

    def take(self, k=1):
        self.budget -= k
        return self.budget >= 0

    # -- like factory.go: doGetComponent / createComponent / doCreateComponent
    def doget(self, n, open_, depth):
        rng = self.rng
        body = []
        if not self.take(3):
            return {"k": "g", "n": n, "e": True}
        early_exposure = rng.random() < 0.9
        if early_exposure:
            body.append({"k": "ic", "n": n})
            body.append(self.af(n))
            self.take(2)
        ndeps = rng.choice([0, 1, 1, 2, 2, 3]) if depth < 6 else 0
        for _ in range(ndeps):
            if self.budget <= 0:
                break
            m = rng.choice(self.names)
            if m in open_ + [n] and not early_exposure and rng.random() < 0.8:
                continue  # would recurse forever in the real factory
            body.append(self.doget(m, open_ + [n], depth + 1))
        if early_exposure and rng.random() < 0.85:
            body.append({"k": "g", "n": n, "e": False})
            self.take()
            for d in rng.sample(self.names, rng.choice([0, 0, 1, 2]) if len(self.names) > 1 else 0):
                body.append({"k": "ic", "n": d})
                self.take()
        ok = rng.random() < 0.7
        return {"k": "dg", "n": n, "b": body, "ok": ok, "v": self.tok(n, 0.1), "p": True}

    def factorylike(self):
        ops = []
        while self.budget > 0:
            r = self.rng.random()
            n = self.rng.choice(self.names)
            if r < 0.75:
                ops.append(self.doget(n, [], 0))
            elif r < 0.9:
                ops.append({"k": "ic", "n": n})
                self.take()
            elif r < 0.95:
                ops.append({"k": "g", "n": n, "e": self.rng.random() < 0.5})
                self.take()
            else:
                ops.append({"k": "rm", "n": n})
                self.take()
        return ops

    # -- anything in the protocol language (more than the factory does)
    def conforming(self, open_, depth):
        rng = self.rng
        ops = []
        steps = rng.randint(1, 8) if depth else 99
        while self.budget > 0 and steps > 0:
            steps -= 1
            n = rng.choice(self.names)
            r = rng.random()
            if r < 0.30:
                ops.append({"k": "g", "n": n, "e": rng.random() < 0.65})
                self.take()
            elif r < 0.40:
                ops.append({"k": "ic", "n": n})
                self.take()
            elif r < 0.55:
                if open_:
                    ops.append(self.af(rng.choice(open_)))
                    self.take()
            elif r < 0.62:
                if n not in open_:
                    ops.append({"k": "rm", "n": n})
                    self.take()
            elif r < 0.67:
                if n not in open_:
                    ops.append({"k": "as", "n": n, "v": self.tok(n)})
                    self.take()
            else:
                if n not in open_ and depth < 7 and self.take(2):
                    kind = "dg" if rng.random() < 0.5 else "c"
                    if kind == "dg":
                        self.take()
                    body = self.conforming(open_ + [n], depth + 1)
                    ops.append({"k": kind, "n": n, "b": body, "ok": rng.random() < 0.65, "v": self.tok(n),
                                "p": rng.random() < 0.5})
        return ops

    # -- anything at all
    def arbitrary(self, depth):
        rng = self.rng
        ops = []
        steps = rng.randint(0, 7) if depth else 99
        while self.budget > 0 and steps > 0:
            steps -= 1
            n = rng.choice(self.names)
            r = rng.random()
            if r < 0.25:
                ops.append({"k": "g", "n": n, "e": rng.random() < 0.6})
                self.take()
            elif r < 0.35:
                ops.append({"k": "ic", "n": n})
                self.take()
            elif r < 0.50:
                ops.append(self.af(n))
                self.take()
            elif r < 0.60:
                ops.append({"k": "rm", "n": n})
                self.take()
            elif r < 0.70:
                ops.append({"k": "as", "n": n, "v": self.tok(n, 0.3)})
                self.take()
            elif depth < 7 and self.take(2):
                kind = "dg" if rng.random() < 0.3 else "c"
                if kind == "dg":
                    self.take()
                ops.append({"k": kind, "n": n, "b": self.arbitrary(depth + 1), "ok": rng.random() < 0.6,
                            "v": self.tok(n, 0.3), "p": rng.random() < 0.3})
        return ops


def gen_script(rng, flavour=None):
    flavour = flavour or rng.choice(["factory", "factory", "conforming", "conforming", "arbitrary"])
    budget = rng.choice([5, 10, 18, 28, 36, 36])
    for _try in range(20):
        g = Gen(rng, rng.choice([1, 2, 2, 3, 4, 6]), budget)
        if flavour == "factory":
            ops = g.factorylike()
        elif flavour == "conforming":
            ops = g.conforming([], 0)
        else:
            ops = g.arbitrary(0)
        if count_ops(ops) <= 40:  # at most 40 registry calls when nothing is skipped
            break
        budget = max(4, budget - 4)
    return {"kind": "script", "flavour": flavour, "ops": ops}


def gen_e2e(rng):
    slots = sorted(rng.sample(range(4), rng.choice([1, 2, 2, 3, 3, 4])))
    comps = []
    for s in slots:
        others = [j for j in range(4) if j != s]
        mask = 0
        for bit, j in enumerate(others):
            # mostly point at registered components; sometimes at a name nobody registered (required point: creation fails)
            p = 0.45 if j in slots else 0.04
            if rng.random() < p:
                mask |= 1 << bit
        fail = lambda: rng.choice([0, 0, 0, 1, 1, 2, -1])
        which = rng.random()
        comps.append({"slot": s, "mask": mask, "lazy": rng.random() < 0.75,
                      "failAPS": fail() if which < 0.25 else 0, "failInit": fail() if 0.2 < which < 0.7 else 0})
    lookups = [rng.choice(slots) for _ in range(rng.randint(2, 6))]
    if rng.random() < 0.5:  # second and third lookups of the same name
        s = rng.choice(slots)
        lookups = [s, s, s] + lookups[:3]
    return {"kind": "e2e", "comps": comps, "lookups": lookups}


# canonical witnesses, always run first
def _c(n, body, ok=True, v=None, kind="dg", p=True):
    return {"k": kind, "n": n, "b": body, "ok": ok, "v": v if v is not None else [n, 0], "p": p}


CORPUS = [
    # D-C04 at the registry: failing creation after the early factory was installed; lookups after it
    {"kind": "script", "flavour": "corpus", "ops": [
        _c(0, [{"k": "ic", "n": 0}, {"k": "af", "n": 0, "f": 7, "o": [0, 0]}], ok=False),
        {"k": "g", "n": 0, "e": True}, {"k": "ic", "n": 0}, {"k": "g", "n": 0, "e": False},
        _c(0, [{"k": "ic", "n": 0}, {"k": "af", "n": 0, "f": 8, "o": [0, 0]}, {"k": "g", "n": 0, "e": False}])]},
    # the early reference taken by a nested creation (cycle), then the outer creation fails
    {"kind": "script", "flavour": "corpus", "ops": [
        _c(0, [{"k": "ic", "n": 0}, {"k": "af", "n": 0, "f": 1, "o": [0, 0]},
               _c(1, [{"k": "ic", "n": 1}, {"k": "af", "n": 1, "f": 2, "o": [1, 0]},
                      _c(0, []), {"k": "g", "n": 0, "e": True}, {"k": "g", "n": 1, "e": False}])], ok=False),
        {"k": "g", "n": 0, "e": True}, {"k": "g", "n": 0, "e": False}, {"k": "ic", "n": 0}, {"k": "g", "n": 1, "e": True},
        _c(0, [{"k": "ic", "n": 0}, {"k": "af", "n": 0, "f": 3, "o": [0, 1]}, _c(1, []), {"k": "g", "n": 0, "e": False}])]},
    # the history of Properties/C04.v (c04_history), as a script
    {"kind": "script", "flavour": "corpus", "ops": [
        _c(0, [{"k": "ic", "n": 0}, {"k": "af", "n": 0, "f": 10, "o": [0, 0]},
               _c(1, [{"k": "ic", "n": 1}, {"k": "af", "n": 1, "f": 11, "o": [1, 0]},
                      _c(0, []), {"k": "g", "n": 0, "e": True}, {"k": "g", "n": 1, "e": False}]),
               {"k": "g", "n": 0, "e": False}]),
        _c(2, [{"k": "ic", "n": 2}, {"k": "af", "n": 2, "f": 12, "o": [2, 0]}, _c(0, []),
               _c(3, [{"k": "ic", "n": 3}, {"k": "af", "n": 3, "f": 13, "o": [3, 0]}, _c(2, []),
                      {"k": "g", "n": 3, "e": False}])], ok=False),
        {"k": "g", "n": 2, "e": True}, {"k": "ic", "n": 2},
        _c(2, [{"k": "ic", "n": 2}, {"k": "af", "n": 2, "f": 14, "o": [2, 0]}, _c(0, []), _c(3, [])], ok=False),
        {"k": "g", "n": 2, "e": False}, {"k": "g", "n": 0, "e": True}, {"k": "ic", "n": 0},
        {"k": "c", "n": 1, "b": [], "ok": True, "v": [1, 0]}]},
    # failing early factory; re-entrant creation; publication from outside in the middle of a creation (non-conforming)
    {"kind": "script", "flavour": "corpus", "ops": [
        _c(0, [{"k": "af", "n": 0, "f": 1, "o": None}, {"k": "g", "n": 0, "e": True}, {"k": "g", "n": 0, "e": True},
               {"k": "af", "n": 0, "f": 2, "o": [0, 1]}, {"k": "g", "n": 0, "e": True}, {"k": "g", "n": 0, "e": True},
               {"k": "c", "n": 0, "b": [{"k": "as", "n": 0, "v": [0, 2]}, {"k": "g", "n": 0, "e": True}], "ok": True,
                "v": [0, 0]},
               {"k": "rm", "n": 0}, {"k": "g", "n": 0, "e": True}, {"k": "ic", "n": 0}], kind="c", p=False)]},
    # D-C04 end to end: lazy component whose Init fails once; three lookups
    {"kind": "e2e", "comps": [{"slot": 0, "mask": 0, "lazy": True, "failAPS": 0, "failInit": 1}], "lookups": [0, 0, 0]},
    # failure in AfterPropertiesSet, always
    {"kind": "e2e", "comps": [{"slot": 1, "mask": 0, "lazy": True, "failAPS": -1, "failInit": 0}], "lookups": [1, 1, 1]},
    # failure in a dependency of the lazy component (c0 -> c1, c1.Init fails twice)
    {"kind": "e2e", "comps": [{"slot": 0, "mask": 1, "lazy": True, "failAPS": 0, "failInit": 0},
                              {"slot": 1, "mask": 0, "lazy": True, "failAPS": 0, "failInit": 2}],
     "lookups": [0, 0, 1, 0, 0]},
    # nested two levels (c0 -> c1 -> c2, c2 fails), with an eager bystander c3 that needs nothing
    {"kind": "e2e", "comps": [{"slot": 0, "mask": 1, "lazy": True, "failAPS": 0, "failInit": 0},
                              {"slot": 1, "mask": 2, "lazy": True, "failAPS": 0, "failInit": 0},
                              {"slot": 2, "mask": 0, "lazy": True, "failAPS": 1, "failInit": 1},
                              {"slot": 3, "mask": 0, "lazy": False, "failAPS": 0, "failInit": 0}],
     "lookups": [0, 0, 0, 1, 2, 3]},
    # cycle c0 <-> c1, c0 fails once: c1 is published holding c0's early reference
    {"kind": "e2e", "comps": [{"slot": 0, "mask": 1, "lazy": True, "failAPS": 0, "failInit": 1},
                              {"slot": 1, "mask": 1, "lazy": True, "failAPS": 0, "failInit": 0}],
     "lookups": [0, 1, 0, 0, 1]},
    # required point at a name nobody registered: creation fails in populate, every time
    {"kind": "e2e", "comps": [{"slot": 0, "mask": 4, "lazy": True, "failAPS": 0, "failInit": 0}], "lookups": [0, 0]},
]


# ------------------------------------------------------------------------------------------------
# events -> Coq terms

def ver(t):
    if t is None:
        return "None"
    return "(Some (%s))" % ver_raw(t)


def ver_raw(t):
    return "VOrig %d" % t[0] if t[1] == 0 else "VProxy %d %d" % (t[0], t[1])


def ev_terms(e):
    """one executed event -> (rop term, iobs term)"""
    op, n = e["op"], e["n"]
    inv = vlib.coq_list(str(x) for x in e.get("inv") or [])
    ret = ver(e.get("ret"))
    err = vlib.coq_bool(e.get("err", False))
    if op == "af":
        return "OAddFactory %d %d" % (n, e.get("f", 0)), "IUnit"
    if op == "rm":
        return "ORemove %d" % n, "IUnit"
    if op == "as":
        return "OAddSingleton %d (%s)" % (n, ver_raw(e["v"])), "IUnit"
    if op == "g":
        o = "OGet %d %s %s" % (n, vlib.coq_bool(e.get("e", False)), ver(e.get("fout")))
        return o, ("IErr %s" % inv if e.get("err") else "IVal %s %s" % (ret, inv))
    if op == "ic":
        return "OIsCreating %d" % n, "IBool %s" % vlib.coq_bool(e.get("b", False))
    if op == "b":
        return "OBegin %d" % n, ("IErr []" if e.get("err") else "IVal %s []" % ret)
    if op == "eo":
        return "OEndOk %d (%s)" % (n, ver_raw(e["v"])), "IRet %s %s" % (ret, err)
    if op == "ee":
        return "OEndErr %d" % n, "IRet %s %s" % (ret, err)
    raise ValueError(op)


def lookup_term(l):
    built = l["initOK"] >= 1 and l["apsOK"] >= 1 and l["depsSet"]
    return "mkLk %s %s %s" % (vlib.coq_bool(l["err"]), vlib.coq_bool(l["same"]), vlib.coq_bool(built))


class EventTable:
    """names every distinct (op, observation) pair once: `Definition ev12 := (OGet 1 true None, IVal None []).`
    (elaborating a shared name is several times cheaper than elaborating the term again in every case)"""

    def __init__(self):
        self.names = {}
        self.defs = []

    def name(self, e):
        o, i = ev_terms(e)
        key = "(%s, %s)" % (o, i)
        n = self.names.get(key)
        if n is None:
            n = "ev%d" % len(self.names)
            self.names[key] = n
            self.defs.append("Definition %s : rop * iobs := %s." % (n, key))
        return n


def case_term(tbl, cid, kind, trace, lookups):
    return "mkCaseE %d%%N %d %s %s" % (cid, kind, vlib.coq_list(tbl.name(e) for e in trace),
                                      vlib.coq_list(lookup_term(l) for l in lookups))


def evaluate(ctx, binp, cases, tag, shard=1000):
    """cases: list of script / e2e descriptions. Runs the implementation, then Coq.
    Returns (by_id, M, V, nontrivial, conforming, strict)."""
    scripts = [{"id": i, "ops": c["ops"]} for i, c in enumerate(cases) if c["kind"] == "script"]
    e2e = [{"id": i, "comps": c["comps"], "lookups": c["lookups"]} for i, c in enumerate(cases) if c["kind"] == "e2e"]
    rc, res, raw = vlib.run_json(binp, {"scripts": scripts, "e2e": e2e}, timeout=1800)
    if res is None:
        raise vlib.GoBuildError("./cmd/c04 (run)", raw[-3000:])
    by_id, terms, tbl = {}, [], EventTable()
    for o in res["scripts"]:
        c = cases[o["id"]]
        cid = o["id"] + 1
        by_id[cid] = {"case": c, "executed": o["trace"], "panic": o["panic"]}
        tr = o["trace"] if not o["panic"] else o["trace"] + [{"op": "ic", "n": 4999, "b": True}]  # a panic never matches
        terms.append(case_term(tbl, cid, 0, tr, []))
    for o in res["e2e"]:
        c = cases[o["id"]]
        cid = o["id"] + 1
        by_id[cid] = {"case": c, "executed": o["trace"], "names": o["names"], "lookups": o["lookups"],
                      "run_failed": o["runErr"], "traced": o["traced"], "panic": o["panic"]}
        tr = o["trace"] if not o["panic"] else o["trace"] + [{"op": "ic", "n": 4999, "b": True}]
        terms.append(case_term(tbl, cid, 1, tr, o["lookups"]))
    out = vlib.coq_eval_sharded(ctx, "cases_c04_" + tag, HEADER + "\n".join(tbl.defs) + "\n", terms,
                                {"M": "mismatches", "V": "violations", "NT": "count_nontrivial", "CF": "count_conforming"},
                                shard=shard)
    cf = out["CF"]
    return by_id, sorted(out["M"]), sorted(out["V"]), sum(out["NT"]), sum(cf[0::2]), sum(cf[1::2])


# ------------------------------------------------------------------------------------------------
# thorough tier: every script up to a length over two names

def enum_scripts(lengths, conforming=False, names=(0, 1)):
    """All tree scripts whose flat length (a creation counts 2: its begin and its end) is in `lengths`, over the alphabet
    af(ok|err) rm as g(early|not) ic c(ok|err), names 0/1, canonical values (factory result / creation result = the
    original of the name, AddSingleton publishes a proxy).  conforming=True: only scripts in the protocol language
    (af only for an open name, rm/as/c only for a name that is not open)."""
    def atoms(open_):
        res = []
        for n in names:
            if not conforming or n in open_:
                res += [lambda f, n=n: {"k": "af", "n": n, "f": f, "o": [n, 0]},
                        lambda f, n=n: {"k": "af", "n": n, "f": f, "o": None}]
            if not conforming or n not in open_:
                res += [lambda f, n=n: {"k": "rm", "n": n},
                        lambda f, n=n: {"k": "as", "n": n, "v": [n, 1]}]
            res += [lambda f, n=n: {"k": "g", "n": n, "e": True},
                    lambda f, n=n: {"k": "g", "n": n, "e": False},
                    lambda f, n=n: {"k": "ic", "n": n}]
        return res

    def seqs(k, open_):
        """all op lists of flat length exactly k"""
        if k == 0:
            yield []
            return
        for a in atoms(open_):
            for rest in seqs(k - 1, open_):
                yield [a] + rest
        if k >= 2:
            for n in names:
                if conforming and n in open_:
                    continue
                for ok in (True, False):
                    for inner in range(0, k - 1):
                        for body in seqs(inner, open_ | {n}):
                            for rest in seqs(k - 2 - inner, open_):
                                yield [("c", n, ok, body)] + rest

    def build(s, ctr):
        ops = []
        for a in s:
            if isinstance(a, tuple):
                _, n, ok, body = a
                ops.append({"k": "c", "n": n, "b": build(body, ctr), "ok": ok, "v": [n, 0], "p": False})
            else:
                ctr[0] += 1
                ops.append(a(ctr[0]))
        return ops

    for k in lengths:
        for s in seqs(k, frozenset()):
            yield {"kind": "script", "flavour": "exhaustive", "ops": build(s, [0])}


# ------------------------------------------------------------------------------------------------

def shrink_ops(ops):
    """candidate smaller scripts: drop one op (with its subtree), or replace a creation by its body"""
    for i in range(len(ops)):
        yield ops[:i] + ops[i + 1:]
        o = ops[i]
        if o["k"] in ("c", "dg"):
            yield ops[:i] + o["b"] + ops[i + 1:]
            for b in shrink_ops(o["b"]):
                yield ops[:i] + [dict(o, b=b)] + ops[i + 1:]


from wiring import Profile
WPROFILES = [Profile(p_wrap=0.5, n_procs=(1, 2), p_cycle_bias=0.85, fields=(1, 4), p_lazy=0.3, p_init=0.8, p_initget=0.3, p_short=0.2),
             Profile(p_wrap=0.2, n_procs=(0, 2), p_fault=0.7, n_faults=(1, 2), p_cycle_bias=0.8, p_lazy=0.3, p_valid=0.7)]


def run(ctx):
    static_ok = vlib.static_obligations(ctx, extra_targets=["Corr/WiringFacts.vo"])
    binp = vlib.go_build(ctx, "./cmd/c04")
    rng = ctx.rng
    cases = [dict(c) for c in CORPUS]
    cdir = os.path.join(vlib.VERIF, "corpus", "C04")
    if os.path.isdir(cdir):
        for f in sorted(os.listdir(cdir)):
            if f.endswith(".json"):
                cases.append(json.load(open(os.path.join(cdir, f))))
    if ctx.replay:
        r = json.load(open(ctx.replay))
        c = r.get("case", {}).get("case")
        cases = [c] if c else cases
    else:
        ns, ne = (4000, 300) if ctx.quick() else (30000, 1500)
        cases += [gen_script(rng) for _ in range(ns)]
        cases += [gen_e2e(rng) for _ in range(ne)]
        if ctx.quick():  # the smallest scripts, all of them (the thorough tier goes further, below)
            cases += list(enum_scripts(range(1, 4)))
    wonly = None
    if ctx.replay and cases and cases[0].get("kind") == "wiring":
        wonly, cases = cases[0]["scenario"], []
    by_id, M, V, nt, ncf, nstrict = evaluate(ctx, binp, cases, "main") if cases else ({}, [], [], 0, 0, 0)
    # factory histories: wiring scenarios (cycles, substituting post-processors, faults) started for real with the
    # registry tracer; the recorded calls are compared op by op with the traced model and checked against C04
    import wiring
    WBASE = 10 ** 7
    if wonly is not None:
        wscns = [wonly]
    else:
        nw = 150 if ctx.quick() else 1500
        wscns = [wiring.gen_scenario(rng, i, WPROFILES[i % len(WPROFILES)]) for i in range(nw)]
    for i, s in enumerate(wscns):
        s["id"], s["trace"] = i, True
    wb, wout, _ = wiring.evaluate(ctx, wscns, "fw", "Corr.Check_C04w",
                                  {"M": "mismatches", "V": "violations", "NT": "count_nontrivial"})
    wnt = sum(wout["NT"])
    for i, e in wb.items():
        by_id[WBASE + i] = {"case": {"kind": "wiring", "scenario": e["scenario"]},
                            "executed": (e["observation"].get("trace") or []) + (e["observation"].get("traceaft") or []),
                            "observation": e["observation"], "names": e["names"]}
    M += [WBASE + i for i in wout["M"]]
    V += [WBASE + i for i in wout["V"]]
    wtraced = sum(1 for e in wb.values() if e["observation"].get("traced"))
    ctx.log("factory histories: scenarios=%d traced=%d nontrivial=%d mismatches=%d violations=%d" % (
        len(wb), wtraced, wnt, len(wout["M"]), len(wout["V"])))
    if wb and wtraced < len(wb):
        ctx.notes.append("registry tracer could not be installed in %d of %d wiring starts" % (len(wb) - wtraced, len(wb)))
    ctx.log("cases=%d nontrivial=%d conforming=%d strict=%d mismatches=%d violations=%d" % (
        len(cases), nt, ncf, nstrict, len(M), len(V)))
    nexh = 0
    exh_note = ""
    if not ctx.quick() and not ctx.replay:
        from concurrent.futures import ThreadPoolExecutor
        full = int(os.environ.get("VERIF_C04_EXHAUSTIVE", "5"))
        conf = int(os.environ.get("VERIF_C04_EXHAUSTIVE_CONF", "6"))
        base = len(cases)

        def batches():
            batch = []
            for sc in itertools.chain(enum_scripts(range(1, full + 1)),
                                      enum_scripts(range(full + 1, conf + 1), conforming=True)):
                batch.append(sc)
                if len(batch) == 40000:
                    yield batch
                    batch = []
            if batch:
                yield batch

        def one(arg):
            k, batch = arg
            b2, M2, V2, _, _, _ = evaluate(ctx, binp, batch, "exh%d" % k, shard=8000)
            return k, len(batch), {i: b2[i] for i in M2 + V2}, M2, V2

        with ThreadPoolExecutor(max_workers=2) as ex:
            pending = []
            for k, batch in enumerate(batches()):
                pending.append(ex.submit(one, (k, batch)))
                while len(pending) >= 3:  # bound memory: at most three batches in flight
                    k2, n2, bad, M2, V2 = pending.pop(0).result()
                    for i in bad:
                        by_id[base + k2 * 40000 + i] = bad[i]
                    M += [base + k2 * 40000 + i for i in M2]
                    V += [base + k2 * 40000 + i for i in V2]
                    nexh += n2
            for fut in pending:
                k2, n2, bad, M2, V2 = fut.result()
                for i in bad:
                    by_id[base + k2 * 40000 + i] = bad[i]
                M += [base + k2 * 40000 + i for i in M2]
                V += [base + k2 * 40000 + i for i in V2]
                nexh += n2
        exh_note = ("every script of flat length <= %d over 2 names (full alphabet), and every protocol-conforming "
                    "script of flat length %d..%d" % (full, full + 1, conf))
        ctx.log("exhaustive: %d scripts (%s); mismatches=%d violations=%d" % (nexh, exh_note, len(M), len(V)))

    def size(i):
        return len(by_id[i]["executed"]) + 10 * len(by_id[i]["case"].get("comps", []))

    V.sort(key=size)
    M.sort(key=size)

    def shrink(c):
        cur = c
        if cur["case"]["kind"] != "script":
            return cur
        for _round in range(15):
            cands = [dict(cur["case"], ops=o) for o in itertools.islice(shrink_ops(cur["case"]["ops"]), 400)]
            if not cands:
                return cur
            b2, _, V2, _, _, _ = evaluate(ctx, binp, cands, "shrink")
            if not V2:
                return cur
            V2.sort(key=lambda i: len(b2[i]["executed"]))
            cur = b2[V2[0]]
        return cur

    def widen():
        ctx.rng.seed(ctx.seed + 4099)
        more = [gen_script(ctx.rng) for _ in range(12000)] + [gen_e2e(ctx.rng) for _ in range(600)]
        b2, _, V2, _, _, _ = evaluate(ctx, binp, more, "widen")
        V2.sort(key=lambda i: len(b2[i]["executed"]))
        return [b2[i] for i in V2[:3]]

    def hsh(c):
        return vlib.stable_hash(c.get("ops") if c["kind"] == "script" else [c["comps"], c["lookups"]])

    distinct = len({hsh(c) for c in cases})
    flav, sizes, depth = {}, {}, {}
    for i, c in enumerate(cases):
        k = c["kind"] if c["kind"] == "e2e" else c.get("flavour", "script")
        flav[k] = flav.get(k, 0) + 1
        ex = by_id[i + 1]["executed"]
        b = min(len(ex) // 10 * 10, 60)
        sizes[b] = sizes.get(b, 0) + 1
        d = dmax = 0
        for e in ex:
            if e["op"] == "b" and "ret" not in e:
                d += 1
                dmax = max(dmax, d)
            elif e["op"] in ("eo", "ee"):
                d -= 1
        depth[min(dmax, 6)] = depth.get(min(dmax, 6), 0) + 1
    e2e_ids = [i for i in by_id if by_id[i]["case"]["kind"] == "e2e"]
    traced = sum(1 for i in e2e_ids if by_id[i].get("traced"))
    half = sum(1 for i in e2e_ids for l in by_id[i]["lookups"] if not l["err"] and l["halfDeps"] > 0)
    if half:
        ctx.notes.append("observation (not asserted by C04's lookup oracle): %d lookups returned a fully initialised "
                         "component one of whose injection points holds an instance whose Init never succeeded (it took "
                         "the early reference of a creation that failed afterwards)" % half)
    if e2e_ids and traced < len(e2e_ids):
        ctx.notes.append("registry tracer could not be installed in %d of %d real starts (factory struct changed?)" % (
            len(e2e_ids) - traced, len(e2e_ids)))
    samples = [by_id[i] for i in sorted(by_id)[:1]] + [by_id[i] for i in sorted(by_id)[-1:]]
    cov = {
        "evaluations": len(cases) + nexh + len(wb),
        "factory_histories": {"scenarios": len(wb), "traced": wtraced, "with_early_reference_or_failed_creation": wnt},
        "distinct_nontrivial": min(nt, distinct),
        "rule": "executed registry histories (direct scripts on support.DefaultSingletonComponentRegistry with creations "
                "nested through real callbacks; traced registry calls of real app.Run starts and later lookups); "
                "non-trivial = the history contains a creation nested inside another one or a failing creation; distinct "
                "= distinct script trees / scenarios. Exhaustive scripts of the thorough tier are counted in evaluations only",
        "samples": samples,
        "traces_validated_against_impl": traced,
        "input_distribution": {"flavours": flav, "executed_length_buckets": sizes, "max_nesting_depth": depth,
                               "in_protocol_language": ncf, "in_strict_language": nstrict,
                               "exhaustive_scripts": nexh, "exhaustive_scope": exh_note},
        "nontrivial_cases": nt,
        "distinct_cases": distinct,
    }
    return vlib.decide(ctx, static_ok, by_id, M, V, cov, widen=widen, shrink=shrink,
                       assumptions=["early-factory outcomes and callback outcomes are inputs of a history (op arguments)",
                                    "single-threaded histories (concurrency is C20)"])
