#!/bin/bash
# usage: tools/run_all.sh quick|thorough   — runs every claimed check once, prints one summary line per check
tier=${1:-quick}
cd "$(dirname "$0")/.."
python3 tools/check.py setup > /dev/null 2>&1
for p in C01 C02 C03 C04 C05 C06 C07 C08 C09 C10 C11 C12 C13 C14 C15 C16 C17 C18 C19 C20; do
  s=$(date +%s)
  out=$(timeout 7200 python3 tools/check.py $p --tier $tier 2>&1)
  rc=$?
  echo "$p tier=$tier rc=$rc wall=$(( $(date +%s) - s ))s $(echo "$out" | grep -c '^KNOWN-FINDING') known; $(echo "$out" | grep '^VIOLATION' | head -2 | tr '\n' ' ')"
done
