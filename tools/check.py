#!/usr/bin/env python3
"""Entry point of every MANIFEST command:  python3 tools/check.py <ID> --tier quick|thorough [--replay f]

exit 0  = the property held on everything explored (KNOWN-FINDING lines may have been printed)
exit 1  = `VIOLATION property=<id> replay=<path>[ no-failing-input-found]` was printed
"""
import argparse
import importlib
import json
import os
import sys
import traceback

sys.path.insert(0, os.path.dirname(os.path.abspath(__file__)))
import vlib  # noqa: E402


def main():
    ap = argparse.ArgumentParser()
    ap.add_argument("id")
    ap.add_argument("--tier", default=os.environ.get("VERIF_TIER", "quick"), choices=["quick", "thorough"])
    ap.add_argument("--replay", default=None)
    ap.add_argument("--seed", type=int, default=None)
    a = ap.parse_args()
    if a.id == "setup":
        ok, out = vlib.coq_make()
        print(out[-4000:])
        sys.exit(0 if ok else 2)
    if a.id == "audit":
        import audit
        sys.exit(audit.main())
    seed = a.seed if a.seed is not None else int(os.environ.get("VERIF_SEED", "1") or 1)
    pid = a.id.upper()
    ctx = vlib.Ctx(pid, a.tier, seed, a.replay)
    try:
        mod = importlib.import_module("props." + pid.lower())
    except ImportError:
        print("no check for", pid)
        sys.exit(2)
    try:
        rc = mod.run(ctx)
    except (vlib.GoBuildError, vlib.CoqEvalError) as ex:
        # the harness no longer builds against the tree / the generated cases no longer type-check:
        # the correspondence cannot be established -> the property is no longer shown to hold
        detail = getattr(ex, "out", "")[-4000:]
        ctx.log(str(ex))
        print(detail)
        ctx.oblige("correspondence", False, str(ex))
        rp = vlib.write_replay(ctx, "broken", {"property": pid, "broken": str(ex), "detail": detail,
                                               "note": "correspondence check could not run; no failing input found"})
        vlib.write_evidence(ctx, {"evaluations": 0, "distinct_nontrivial": 0, "samples": [],
                                  "explanation": "harness failed: " + str(ex)}, 1)
        vlib.violation(ctx, rp, nofail=True)
        rc = 1
    except Exception:
        traceback.print_exc()
        rc = 2
    sys.exit(rc)


if __name__ == "__main__":
    main()
