"""Shared machinery for the per-property checks (see DESIGN.md section 3 and tools/DEV.md).

Everything a MANIFEST command does goes through check.py -> a plugin in tools/props/ -> this file.
"""
import hashlib
import json
import os
import random
import re
import shutil
import subprocess
import sys
import time

VERIF = os.path.dirname(os.path.dirname(os.path.abspath(__file__)))
COQ = os.path.join(VERIF, "coq")
HARNESS = os.path.join(VERIF, "harness")

ALLOWED_AXIOMS = set()  # stdlib axioms a theorem may depend on; none are expected (DESIGN.md 7)

TRUSTED_BASE = [
    "Coq 8.16.1 kernel and vm_compute (no native_compute, no extraction)",
    "Print Assumptions of every property theorem: Closed under the global context (checked on every run)",
    "hand-written Gallina model under coq/Model (tied to /repo by the correspondence check of this run)",
    "correspondence harness: Python generators (tools/), Go drivers (harness/), cases_*.v emitter",
    "Go toolchain, reflect, runtime; third-party modules in the module cache are modelled, not verified",
]


def repo_path():
    return os.environ.get("VERIF_REPO", "/repo")


GOCACHE_CAP = 6 << 30
_GOCACHE_LOCK = None


def _private_gocache():
    """Every run compiles freshly generated Go packages, and the Go build cache keeps each of them for days (this
    development filled 100 GB that way).  The checks therefore use a build cache of their own under work/ and empty it
    when it has grown past GOCACHE_CAP; the user's cache is left alone.  VERIF_GOCACHE=default opts out."""
    if os.environ.get("VERIF_GOCACHE") == "default":
        return None
    d = os.environ.get("VERIF_GOCACHE") or os.path.join(VERIF, "work", "gocache")
    os.makedirs(d, exist_ok=True)
    global _GOCACHE_LOCK
    if _GOCACHE_LOCK is not None:
        return d
    # Checks may run side by side.  Every check process holds a SHARED lock on the cache for as long as it lives; the
    # cache is emptied only by a process that gets the lock EXCLUSIVELY, i.e. while no other check is using it (emptying
    # it under a running `go build` made that build fail: three false "broken" reports in a parallel sweep).
    import fcntl
    lock = open(d + ".lock", "a+")
    stamp = os.path.join(d, ".size_checked")
    try:
        if not os.path.exists(stamp) or time.time() - os.path.getmtime(stamp) > 600:
            try:
                fcntl.flock(lock, fcntl.LOCK_EX | fcntl.LOCK_NB)
            except OSError:
                pass                                   # somebody is building: leave the cache alone this time
            else:
                open(stamp, "w").write("")
                total = 0
                for root, _dirs, files in os.walk(d):
                    for f in files:
                        try:
                            total += os.path.getsize(os.path.join(root, f))
                        except OSError:
                            pass
                if total > GOCACHE_CAP:
                    shutil.rmtree(d, ignore_errors=True)
                    os.makedirs(d, exist_ok=True)
    except OSError:
        pass
    try:
        fcntl.flock(lock, fcntl.LOCK_SH)               # replaces the exclusive lock, if we held it
    except OSError:
        pass
    _GOCACHE_LOCK = lock                               # kept open (and locked) until the process ends
    return d


def go_env():
    e = dict(os.environ)
    e.update({"GOFLAGS": "-mod=mod", "GOPROXY": "off", "GOSUMDB": "off", "GOTOOLCHAIN": "local",
              "CGO_ENABLED": e.get("CGO_ENABLED", "0")})
    gc = _private_gocache()
    if gc:
        e["GOCACHE"] = gc
    return e


def _big_stack():
    # coqc prints/reads back unary nat values (case ids of the thorough tiers reach 10^5) recursively: with the default
    # 8 MB stack that is a "Stack overflow".  Raise the soft limit as far as the hard limit allows (at most 4 GB).
    import resource
    soft, hard = resource.getrlimit(resource.RLIMIT_STACK)
    want = 4 << 30
    if hard != resource.RLIM_INFINITY:
        want = min(want, hard)
    if soft == resource.RLIM_INFINITY or soft >= want:
        return
    try:
        resource.setrlimit(resource.RLIMIT_STACK, (want, hard))
    except (ValueError, OSError):
        pass


def sh(cmd, timeout=600, cwd=None, env=None, inp=None):
    """Run a command; returns (rc, stdout+stderr). rc = 124 on timeout."""
    try:
        p = subprocess.run(cmd, cwd=cwd, env=env, input=inp, stdout=subprocess.PIPE, stderr=subprocess.STDOUT,
                           timeout=timeout, shell=isinstance(cmd, str), preexec_fn=_big_stack)
        return p.returncode, p.stdout.decode("utf-8", "replace")
    except subprocess.TimeoutExpired as ex:
        out = ex.stdout.decode("utf-8", "replace") if ex.stdout else ""
        return 124, out + "\n[timeout after %ss]" % timeout


class Ctx:
    def __init__(self, pid, tier, seed, replay=None):
        self.id = pid
        self.tier = tier
        self.seed = seed
        self.replay = replay
        self.repo = repo_path()
        self.t0 = time.time()
        self.rng = random.Random(seed * 1000003 + sum(ord(c) for c in pid))
        # VERIF_WORKTAG keeps concurrent runs of one check (e.g. against different scratch trees) out of each other's way
        self.worktag = os.environ.get("VERIF_WORKTAG", "")
        self.work = os.path.join(VERIF, "work", "%s-%s%s" % (pid, tier, self.worktag))
        if os.path.isdir(self.work):
            shutil.rmtree(self.work, ignore_errors=True)
        os.makedirs(self.work, exist_ok=True)
        self.notes = []          # free-text lines for evidence
        self.obligations = []    # (name, ok, detail)
        self.known_printed = []

    def quick(self):
        return self.tier == "quick"

    def log(self, *a):
        print("[%s %6.1fs]" % (self.id, time.time() - self.t0), *a, flush=True)

    def wpath(self, *p):
        return os.path.join(self.work, *p)

    def oblige(self, name, ok, detail=""):
        self.obligations.append((name, bool(ok), detail))


# ------------------------------------------------------------------------------------------------
# Coq

def gen_coqproject():
    """_CoqProject lists every .v under coq/ except scratch; regenerated so files are never forgotten."""
    files = []
    for d in ("Base", "Model", "Proofs", "Corr", "Properties"):
        dd = os.path.join(COQ, d)
        if not os.path.isdir(dd):
            continue
        for root, _, fs in os.walk(dd):
            for f in sorted(fs):
                if f.endswith(".v"):
                    files.append(os.path.relpath(os.path.join(root, f), COQ))
    files.sort()
    text = "-Q . IocVerif\n-arg -w -arg -notation-overridden,-deprecated\n" + "\n".join(files) + "\n"
    p = os.path.join(COQ, "_CoqProject")
    old = open(p).read() if os.path.exists(p) else None
    if old != text:
        open(p, "w").write(text)
        return True
    return False


def coq_make(targets=None, timeout=3000):
    """Full .vo build (never -vos). targets: list of .vo paths relative to coq/ or None for all."""
    changed = gen_coqproject()
    if changed or not os.path.exists(os.path.join(COQ, "Makefile")):
        rc, out = sh(["coq_makefile", "-f", "_CoqProject", "-o", "Makefile"], cwd=COQ)
        if rc != 0:
            return False, out
    cmd = ["make", "-j16"] + (targets or [])
    rc, out = sh(cmd, cwd=COQ, timeout=timeout)
    return rc == 0, out


def theorems_of(pid):
    p = os.path.join(COQ, "Properties", pid + ".v")
    if not os.path.exists(p):
        return []
    src = open(p).read()
    src = re.sub(r"\(\*.*?\*\)", "", src, flags=re.S)
    return re.findall(r"^\s*(?:Theorem|Corollary)\s+([A-Za-z0-9_']+)", src, flags=re.M)


def coq_assumptions(ctx, theorems, module=None):
    """Print Assumptions for each theorem, freshly on every run. Returns {thm: text}."""
    module = module or ("Properties." + ctx.id)
    lines = ["From IocVerif Require Import %s." % module]
    for t in theorems:
        lines.append('Goal True. idtac "@@BEGIN %s". exact I. Qed.' % t)
        lines.append("Print Assumptions %s." % t)
    lines.append('Goal True. idtac "@@END". exact I. Qed.')
    f = ctx.wpath("Assumptions_%s.v" % ctx.id)
    open(f, "w").write("\n".join(lines) + "\n")
    rc, out = sh(["coqc", "-Q", COQ, "IocVerif", f], cwd=ctx.work, timeout=600)
    res = {}
    if rc != 0:
        return None, out
    cur = None
    buf = []
    for ln in out.splitlines():
        m = re.match(r"@@BEGIN (\S+)", ln)
        if m or ln.startswith("@@END"):
            if cur:
                res[cur] = "\n".join(buf).strip()
            cur = m.group(1) if m else None
            buf = []
        elif cur:
            buf.append(ln)
    return res, out


def axioms_ok(text):
    if "Closed under the global context" in text:
        return True, []
    names = re.findall(r"^([A-Za-z0-9_.']+)\s*:", text, flags=re.M)
    bad = [n for n in names if n not in ALLOWED_AXIOMS]
    return (len(bad) == 0 and len(names) > 0), names


def static_obligations(ctx, extra_targets=None):
    """Build the property's theorem file (and everything it needs); re-check its assumptions.
    Records one obligation per theorem. Returns True when all are discharged."""
    import glob
    more = [os.path.relpath(f, COQ) + "o" for f in glob.glob(os.path.join(COQ, "Corr", "Check_%s*.v" % ctx.id))]
    targets = sorted(set(["Properties/%s.vo" % ctx.id, "Corr/Check_%s.vo" % ctx.id] + more + (extra_targets or [])))
    targets = [t for t in targets if os.path.exists(os.path.join(COQ, t[:-1]))]
    ok, out = coq_make(targets)
    open(ctx.wpath("make.log"), "w").write(out)
    thms = theorems_of(ctx.id)
    if not ok:
        m = re.findall(r'File "([^"]+)", line (\d+)', out)
        where = "%s:%s" % m[-1] if m else "see make.log"
        for t in thms or ["build"]:
            ctx.oblige("theorem " + t, False, "coq build failed at " + where)
        ctx.log("coq build FAILED at", where)
        ctx.build_error = out[-3000:]
        return False
    if not thms:
        ctx.log("static obligations: no theorem file for", ctx.id)
        return True
    res, out = coq_assumptions(ctx, thms)
    if res is None:
        for t in thms:
            ctx.oblige("theorem " + t, False, "Print Assumptions failed")
        ctx.build_error = out[-3000:]
        return False
    allok = True
    ctx.axioms = {}
    for t in thms:
        txt = res.get(t, "")
        good, names = axioms_ok(txt)
        ctx.axioms[t] = names
        ctx.oblige("theorem " + t, good, "axioms: %s" % (names or "none (closed under the global context)"))
        allok = allok and good
    ctx.log("static obligations: %d theorems, all closed=%s" % (len(thms), allok))
    return allok


def coq_eval(ctx, name, vtext, defs, timeout=1800):
    """Compile a generated cases file; returns {def: [ints]} parsed from `Print def.` outputs, or raises."""
    f = ctx.wpath(name + ".v")
    open(f, "w").write(vtext)
    rc, out = sh(["coqc", "-Q", COQ, "IocVerif", f], cwd=ctx.work, timeout=timeout)
    if rc != 0:
        raise CoqEvalError(name, out)
    flat = " ".join(out.split())
    res = {}
    for d in defs:
        m = re.search(r"\b%s = (.*?)(?: : [A-Za-z(]|$)" % re.escape(d), flat)
        if not m:
            raise CoqEvalError(name, "no output for %s\n%s" % (d, out[-2000:]))
        body = m.group(1)
        res[d] = [int(x) for x in re.findall(r"-?\d+", body)]
    return res


class CoqEvalError(Exception):
    def __init__(self, name, out):
        Exception.__init__(self, "coq evaluation of %s failed" % name)
        self.out = out


def coq_eval_sharded(ctx, basename, header, case_terms, defs_tpl, shard=400, timeout=1800):
    """case_terms: list of Coq terms of type `case`. defs_tpl: {name: 'fn'} evaluated as `fn cases`.
    Returns {name: [ints]} concatenated over shards (each fn returns list of ids / a singleton count)."""
    from concurrent.futures import ThreadPoolExecutor
    shards = [case_terms[i:i + shard] for i in range(0, len(case_terms), shard)] or [[]]

    def one(ix):
        body = [header, "Definition cases : list case := ["]
        body.append(";\n".join(shards[ix]))
        body.append("].")
        for n, fn in defs_tpl.items():
            body.append("Definition %s := Eval vm_compute in %s cases.\nPrint %s." % (n, fn, n))
        return coq_eval(ctx, "%s_%d" % (basename, ix), "\n".join(body) + "\n", list(defs_tpl), timeout)

    with ThreadPoolExecutor(max_workers=8) as ex:
        parts = list(ex.map(one, range(len(shards))))
    res = {n: [] for n in defs_tpl}
    for p in parts:
        for n in defs_tpl:
            res[n].extend(p[n])
    return res


# ------------------------------------------------------------------------------------------------
# Go

def repo_tree_hash(repo=None):
    repo = repo or repo_path()
    h = hashlib.sha256()
    for root, dirs, files in os.walk(repo):
        dirs[:] = sorted(d for d in dirs if d not in (".git",))
        for f in sorted(files):
            if f.endswith(".go") or f in ("go.mod", "go.sum"):
                p = os.path.join(root, f)
                h.update(os.path.relpath(p, repo).encode())
                h.update(open(p, "rb").read())
    return h.hexdigest()[:16]


def go_modfile(ctx):
    """The harness module's go.mod points at /repo; for VERIF_REPO overrides write an alternate modfile."""
    src = open(os.path.join(HARNESS, "go.mod")).read()
    mod = ctx.wpath("go.mod")
    open(mod, "w").write(src.replace("=> /repo", "=> " + ctx.repo))
    shutil.copy(os.path.join(ctx.repo, "go.sum"), ctx.wpath("go.sum"))
    return mod


def go_build(ctx, pkg, out=None, tags="verif", race=False, timeout=900):
    """pkg: path relative to harness/ (e.g. ./cmd/c12). Returns binary path or raises GoBuildError."""
    out = out or ctx.wpath("bin_" + re.sub(r"\W+", "_", pkg))
    cmd = ["go", "build", "-modfile=" + go_modfile(ctx), "-tags", tags, "-o", out]
    env = go_env()
    if race:
        cmd.insert(2, "-race")
        env["CGO_ENABLED"] = "1"
    cmd.append(pkg)
    rc, o = sh(cmd, cwd=HARNESS, env=env, timeout=timeout)
    if rc != 0:
        raise GoBuildError(pkg, o)
    return out


class GoBuildError(Exception):
    def __init__(self, pkg, out):
        Exception.__init__(self, "go build %s failed" % pkg)
        self.out = out


def run_json(binpath, obj, timeout=600, args=None, env=None):
    """Run a driver: JSON on stdin, JSON on stdout (last line starting with '{' or '[' wins)."""
    rc, out = sh([binpath] + (args or []), inp=json.dumps(obj).encode(), timeout=timeout, env=env)
    for ln in reversed(out.splitlines()):
        ln = ln.strip()
        if ln.startswith("@@JSON "):
            return rc, json.loads(ln[7:]), out
    return rc, None, out


def verbose_pick(i, share=(2, 5)):
    """position i of a batch runs under the formatting logger (a fixed share, spread over the batch)"""
    return (i * 7919 + 3) % share[1] < share[0]


def run_json_verbose_share(ctx, binpath, obj, key="cases", out_key="outs", share=(2, 5), quiet_only=(), timeout=600, pick=None):
    """Run a driver of harness/cmd twice and merge: the items of obj[key] at the positions chosen by `pick` (default:
    verbose_pick, 2 in 5) go to a process of their own whose input carries `"verbose": true` - hx.ReadInput then installs the
    logger that really FORMATS every debug / trace message of the container and discards the text (stringification side
    effects of the library's log statements are exercised; outcomes as under hx.Quiet()).  The driver must answer one element
    of result[out_key] per item, in input order; every other key of the result is taken from the quiet run; the keys in
    `quiet_only` are sent to the quiet run only.  Returns (rc, result, raw, positions_run_verbose); result is None when
    either run produced none.  A note for the evidence file is appended to ctx.notes."""
    from concurrent.futures import ThreadPoolExecutor
    items = obj[key]
    pick = pick or (lambda i: verbose_pick(i, share))
    loud = [i for i in range(len(items)) if pick(i)]
    loudset = set(loud)
    quiet = [i for i in range(len(items)) if i not in loudset]

    def one(verbose):
        idx = loud if verbose else quiet
        if verbose and not idx:
            return 0, {out_key: []}, ""
        doc = dict(obj)
        doc[key] = [items[i] for i in idx]
        if verbose:
            doc["verbose"] = True
            for k in quiet_only:
                if k in doc:
                    doc[k] = []
        return run_json(binpath, doc, timeout=timeout)

    with ThreadPoolExecutor(max_workers=2) as ex:
        (rcq, rq, rawq), (rcv, rv, rawv) = list(ex.map(one, (False, True)))
    if os.environ.get("VERIF_HX_TRACE") == "1":      # diagnostics: how many driver processes of each run installed the formatting logger
        ctx.log("hx trace (%s): formatting logger installed in %d processes of the verbose run, %d of the quiet run" % (
            os.path.basename(binpath), rawv.count("@@HXVERBOSE"), rawq.count("@@HXVERBOSE")))
    if rq is None or rv is None:
        return (rcq or rcv or 1), None, (rawq if rq is None else rawv), loud
    oq, ov = rq.get(out_key) or [], rv.get(out_key) or []
    if len(oq) != len(quiet) or len(ov) != len(loud):
        return (rcq or rcv or 1), None, ("driver answered %d+%d outs for %d+%d cases\n" % (len(oq), len(ov), len(quiet), len(loud))
                                        + rawq[-1500:] + rawv[-1500:]), loud
    merged = [None] * len(items)
    for i, o in zip(quiet, oq):
        merged[i] = o
    for i, o in zip(loud, ov):
        merged[i] = o
    res = dict(rq)
    res[out_key] = merged
    ctx.notes.append("%d of %d driver cases (%s) ran under a logger that formats every debug / trace message of the container "
                     "(hx.FmtLogger, output discarded); observations and oracles are the same as under the quiet logger"
                     % (len(loud), len(items), os.path.basename(binpath)))
    return rcq or rcv, res, rawq + rawv, loud


# ------------------------------------------------------------------------------------------------
# Coq term rendering helpers

def coq_z(n):
    return "(%d)%%Z" % n


def coq_nat(n):
    return "%d%%nat" % n


def coq_list(items):
    return "[" + "; ".join(items) + "]"


def coq_bool(b):
    return "true" if b else "false"


def coq_bytes(bs):
    """byte string -> list of N literals (robust for arbitrary bytes)"""
    if isinstance(bs, str):
        bs = bs.encode("utf-8", "surrogateescape")
    return "[" + ";".join(str(b) for b in bs) + "]%N"


def coq_string(s):
    """Coq string literal for printable ASCII only (callers must guarantee)"""
    return '"' + s.replace('"', '""') + '"%string'


# ------------------------------------------------------------------------------------------------
# known findings, evidence, verdict

def load_known(pid):
    p = os.path.join(VERIF, "known_findings.json")
    if not os.path.exists(p):
        return []
    data = json.load(open(p))
    return [f for f in data.get("findings", []) if pid in f.get("properties", [f.get("property")])]


def write_replay(ctx, name, obj):
    d = os.path.join(VERIF, "work", "replay")
    os.makedirs(d, exist_ok=True)
    blob = json.dumps(obj, indent=1, sort_keys=True)
    h = hashlib.sha256(blob.encode()).hexdigest()[:10]
    p = os.path.join(d, "%s-%s-%s.json" % (ctx.id, name, h))
    open(p, "w").write(blob)
    return p


def write_evidence(ctx, coverage, violations, assumptions=None, level="proof"):
    obl = ctx.obligations
    cov = {
        "obligations": len(obl),
        "discharged": sum(1 for o in obl if o[1]),
        "checker_cmd": "coq_makefile -f _CoqProject -o Makefile && make -j16 (full .vo) ; coqc Assumptions_%s.v ; coqc cases_*.v (vm_compute)" % ctx.id,
        "trusted_base": TRUSTED_BASE + getattr(ctx, "extra_trusted", []),
        "obligation_list": [{"name": n, "discharged": ok, "detail": d} for n, ok, d in obl],
    }
    cov.update(coverage)
    # the obligation counts always come from the obligations actually recorded on this run
    cov["obligations"] = len(obl)
    cov["discharged"] = sum(1 for o in obl if o[1])
    cov.setdefault("evaluations", 0)
    cov.setdefault("distinct_nontrivial", 0)
    cov.setdefault("samples", [])
    ev = {
        "property_id": ctx.id,
        "tier": ctx.tier,
        "seed": ctx.seed,
        "level": level,
        "coverage": cov,
        "assumptions": (assumptions or []) + ctx.notes,
        "wall_s": round(time.time() - ctx.t0, 2),
        "violations": violations,
        "repo_tree": repo_tree_hash(ctx.repo),
        "repo": ctx.repo,
    }
    # evidence/<id>.json describes runs against /repo itself; a run against a scratch tree (VERIF_REPO, used to try
    # the checks on seeded changes) leaves it alone and writes under work/
    if os.path.realpath(ctx.repo) == os.path.realpath("/repo"):
        edir = os.path.join(VERIF, "evidence")
    else:
        edir = os.path.join(VERIF, "work", "evidence-scratch")
    os.makedirs(edir, exist_ok=True)
    p = os.path.join(edir, ctx.id + ".json")
    tmp = p + ".tmp%d" % os.getpid()
    open(tmp, "w").write(json.dumps(ev, indent=1))
    os.replace(tmp, p)
    return p


def violation(ctx, replay_path, nofail=False):
    print("VIOLATION property=%s replay=%s%s" % (ctx.id, replay_path, " no-failing-input-found" if nofail else ""),
          flush=True)


def known_finding(ctx, kf):
    print("KNOWN-FINDING: property=%s %s: %s" % (ctx.id, kf["id"], kf["what"]), flush=True)
    ctx.known_printed.append(kf["id"])


def stable_hash(obj):
    return hashlib.sha256(json.dumps(obj, sort_keys=True).encode()).hexdigest()[:12]


# ------------------------------------------------------------------------------------------------
# generic verdict

def decide(ctx, static_ok, cases_by_id, mismatches, violations, coverage, classify_known=None,
           widen=None, shrink=None, assumptions=None):
    """cases_by_id: {coq case id: json-able description incl. implementation observation}.
    mismatches / violations: lists of case ids (model!=impl / oracle fails on impl observation).
    classify_known(case) -> known-finding id or None.  widen() -> list of failing case descriptions found by a
    deeper search (used when only a proof or the correspondence broke).  shrink(case) -> smaller failing case."""
    known = {k["id"]: k for k in load_known(ctx.id)}
    unknown = []
    known_hit = {}
    for cid in violations:
        c = cases_by_id.get(cid, {"id": cid})
        k = classify_known(c) if classify_known else None
        if k and k in known and known[k].get("status", "open") == "open":
            known_hit.setdefault(k, []).append(cid)
        else:
            unknown.append(cid)
    for k in sorted(known_hit):
        known_finding(ctx, known[k])
    # canonical witnesses of open findings are part of the corpus; a finding whose witness no longer fails is stale
    stale = [k for k in known if known[k].get("status", "open") == "open" and k not in known_hit
             and known[k].get("expect_witness", True)]
    if stale:
        ctx.notes.append("stale known findings (witness did not fail on this tree): %s" % stale)
    nviol = 0
    rc = 0
    ctx.oblige("correspondence mismatches = [] (%s)" % ctx.id, not mismatches,
               "%d disagreeing cases" % len(mismatches))
    ctx.oblige("property oracle holds on every implementation observation (%s)" % ctx.id, not unknown,
               "%d failing, %d in known-finding classes" % (len(unknown), len(violations) - len(unknown)))
    if unknown:
        c = cases_by_id.get(unknown[0], {"id": unknown[0]})
        if shrink:
            try:
                c = shrink(c) or c
            except Exception as ex:  # shrinking is best effort
                ctx.log("shrink failed:", ex)
        rp = write_replay(ctx, "viol", {"property": ctx.id, "kind": "oracle fails on implementation observation",
                                        "case": c, "all_failing_ids": unknown[:50], "seed": ctx.seed,
                                        "tier": ctx.tier})
        violation(ctx, rp)
        nviol = len(unknown)
        rc = 1
    elif mismatches or not static_ok:
        found = []
        if widen:
            ctx.log("proof/correspondence broken without a failing observation: widening the search")
            try:
                found = widen() or []
            except Exception as ex:
                ctx.log("widen failed:", ex)
        broken = [n for n, ok, _ in ctx.obligations if not ok]
        if found:
            rp = write_replay(ctx, "viol", {"property": ctx.id, "kind": "found by widened search", "case": found[0],
                                            "broken": broken})
            violation(ctx, rp)
        else:
            rp = write_replay(ctx, "broken", {
                "property": ctx.id, "broken": broken,
                "build_error": getattr(ctx, "build_error", None),
                "disagreeing_cases": [cases_by_id.get(i, {"id": i}) for i in mismatches[:10]],
                "note": "no input violating the property's oracle was found; the named theorem/correspondence no longer checks"})
            violation(ctx, rp, nofail=True)
        nviol = max(1, len(mismatches))
        rc = 1
    coverage = dict(coverage)
    coverage["known_findings_reported"] = sorted(known_hit)
    write_evidence(ctx, coverage, nviol, assumptions)
    ctx.log("done rc=%d (%d obligations, %d discharged)" % (
        rc, len(ctx.obligations), sum(1 for o in ctx.obligations if o[1])))
    return rc
