#!/usr/bin/env python3
"""Regenerates MANIFEST.json from the MANIFEST constants of tools/props/*.py (claimed properties) and
tools/not_applicable.json (properties not claimed, with reasons)."""
import importlib
import json
import os
import sys

HERE = os.path.dirname(os.path.abspath(__file__))
VERIF = os.path.dirname(HERE)
sys.path.insert(0, HERE)

props = [json.loads(l) for l in open(os.path.join(VERIF, "properties.jsonl")) if l.strip()]
checks = []
na = []
na_reasons = {}
p = os.path.join(HERE, "not_applicable.json")
if os.path.exists(p):
    na_reasons = json.load(open(p))
for pr in props:
    pid = pr["id"]
    try:
        mod = importlib.import_module("props." + pid.lower())
        m = mod.MANIFEST
    except ImportError:
        na.append({"property_id": pid, "reason": na_reasons.get(pid, "check not built yet (work in progress; see DESIGN.md 9)")})
        continue
    checks.append({
        "property_id": pid,
        "quick_cmd": "python3 tools/check.py %s --tier quick" % pid,
        "thorough_cmd": "python3 tools/check.py %s --tier thorough" % pid,
        "evidence_file": "/verif/evidence/%s.json" % pid,
        "replay_cmd_template": "python3 tools/check.py %s --tier quick --replay {path}" % pid,
        "engine": "rocq-model+correspondence",
        "level_claimed": {"category": m["level"], "text": m["text"], "design_ref": m["design_ref"]},
        "level_note": m["note"],
        "technique": m["technique"],
    })
hooks_commits = []
hp = os.path.join(HERE, "hook_commits.json")
if os.path.exists(hp):
    hooks_commits = json.load(open(hp))
man = {
    "version": 1,
    "setup_cmd": "python3 tools/check.py setup",
    "hooks": {
        "guard": "verif",
        "enable": "go build -tags verif (harness module replaces github.com/go-kid/ioc => /repo)",
        "baseline_off_cmd": "cd /repo && GOFLAGS=-mod=mod GOPROXY=off GOSUMDB=off GOTOOLCHAIN=local go test -vet=off -count=1 ./...",
        "source_commits": hooks_commits,
        "add_only": True,
    },
    "engines": [{
        "name": "rocq-model+correspondence",
        "path": "/verif/coq + /verif/tools + /verif/harness",
        "serves_properties": [c["property_id"] for c in checks],
        "kind_free_text": "hand-written executable Gallina model with machine-checked theorems (Coq 8.16.1); tied to /repo on every run by a "
                          "correspondence check that runs the Go implementation and the model (vm_compute) on the same generated inputs",
    }],
    "checks": checks,
    "not_applicable": na,
    "notes": "see DESIGN.md; known findings in known_findings.json; seeded mutants in seeded/",
}
open(os.path.join(VERIF, "MANIFEST.json"), "w").write(json.dumps(man, indent=1) + "\n")
print("claimed:", [c["property_id"] for c in checks])
print("not claimed:", [n["property_id"] for n in na])
