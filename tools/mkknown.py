#!/usr/bin/env python3
"""Merges known_findings.d/*.json (written by the per-property developers) into known_findings.json (the single
committed known-findings file the checks read). Run by hand when an entry is added; never at check time."""
import glob, json, os
V = os.path.dirname(os.path.dirname(os.path.abspath(__file__)))
main = json.load(open(os.path.join(V, "known_findings.json")))
byid = {}
for f in sorted(glob.glob(os.path.join(V, "known_findings.d", "*.json"))):
    for e in json.load(open(f)).get("findings", []):
        byid[e["id"]] = e
for e in main.get("findings", []):
    byid.setdefault(e["id"], e)
main["findings"] = [byid[k] for k in sorted(byid)]
json.dump(main, open(os.path.join(V, "known_findings.json"), "w"), indent=1)
print("findings:", sorted(byid))
