#!/usr/bin/env python3
"""A stranger's audit of the Rocq development:  python3 tools/check.py audit
1. grep for Admitted / admit / Axiom / Parameter / Conjecture / disabled checks in coq/**/*.v
2. full rebuild from clean (make clean; make -j16, .vo, never -vos)
3. Print Assumptions of every theorem of every Properties file
4. coqchk -silent -o on every Properties module (independent re-check; lists axioms)   [VERIF_AUDIT_COQCHK=0 skips]
Writes work/audit.json and prints a summary; exit 0 iff everything is clean."""
import glob, json, os, re, subprocess, sys, time
sys.path.insert(0, os.path.dirname(os.path.abspath(__file__)))
import vlib

BAD = re.compile(r"\b(Admitted|admit|Axiom|Axioms|Parameter|Parameters|Conjecture|Hypothesis|Variable|bypass_check|Unset Guard Checking|"
                 r"Unset Positivity Checking|Unset Universe Checking|type-in-type|impredicative-set|native_compute|Program Fixpoint|"
                 r"Admit Obligations)\b")


def strip_comments(src):
    out, depth, i = [], 0, 0
    while i < len(src):
        if src.startswith("(*", i):
            depth += 1; i += 2
        elif src.startswith("*)", i) and depth:
            depth -= 1; i += 2
        else:
            if not depth:
                out.append(src[i])
            i += 1
    return "".join(out)


def section_depth_ok(src, pos):
    """Variable/Hypothesis are allowed inside a Section only"""
    opened = len(re.findall(r"^\s*Section\s+\w+", src[:pos], flags=re.M))
    closed = len(re.findall(r"^\s*End\s+\w+\s*\.", src[:pos], flags=re.M))
    return opened > closed


def main():
    t0 = time.time()
    report = {"grep": [], "assumptions": {}, "coqchk": None}
    for f in sorted(glob.glob(os.path.join(vlib.COQ, "**", "*.v"), recursive=True)):
        src = strip_comments(open(f).read())
        for m in BAD.finditer(src):
            w = m.group(1)
            if w in ("Variable", "Hypothesis") and section_depth_ok(src, m.start()):
                continue
            line = src[:m.start()].count("\n") + 1
            report["grep"].append("%s:%d %s" % (os.path.relpath(f, vlib.VERIF), line, w))
    print("grep: %d suspicious occurrences" % len(report["grep"]))
    for g in report["grep"]:
        print("  ", g)
    subprocess.run("make clean >/dev/null 2>&1; rm -f .Makefile.d Makefile Makefile.conf", shell=True, cwd=vlib.COQ)
    ok, out = vlib.coq_make()
    print("clean rebuild:", "ok" if ok else "FAILED", "(%.0f s)" % (time.time() - t0))
    if not ok:
        print(out[-3000:])
        return 1
    bad_ax = 0
    nthm = 0
    for f in sorted(glob.glob(os.path.join(vlib.COQ, "Properties", "C*.v"))):
        pid = os.path.basename(f)[:-2]
        ctx = vlib.Ctx(pid, "audit", 0)
        thms = vlib.theorems_of(pid)
        res, o = vlib.coq_assumptions(ctx, thms)
        if res is None:
            print(pid, "Print Assumptions failed"); bad_ax += 1; continue
        for t in thms:
            nthm += 1
            good, names = vlib.axioms_ok(res.get(t, ""))
            report["assumptions"]["%s.%s" % (pid, t)] = names or "closed"
            if not good or names:
                bad_ax += 1
                print("  axioms:", pid, t, names)
    print("Print Assumptions: %d theorems, %d not closed under the global context" % (nthm, bad_ax))
    rc = 0
    if os.environ.get("VERIF_AUDIT_COQCHK", "1") != "0":
        mods = ["IocVerif.Properties." + os.path.basename(f)[:-2] for f in sorted(glob.glob(os.path.join(vlib.COQ, "Properties", "C*.v")))]
        t1 = time.time()
        p = subprocess.run(["coqchk", "-silent", "-o", "-Q", vlib.COQ, "IocVerif"] + mods, stdout=subprocess.PIPE,
                           stderr=subprocess.STDOUT, timeout=7200)
        txt = p.stdout.decode("utf-8", "replace")
        report["coqchk"] = {"rc": p.returncode, "tail": txt[-3000:], "wall_s": round(time.time() - t1)}
        print("coqchk rc=%d (%.0f s)" % (p.returncode, time.time() - t1))
        print(txt[-1500:])
        rc = p.returncode
    os.makedirs(os.path.join(vlib.VERIF, "work"), exist_ok=True)
    json.dump(report, open(os.path.join(vlib.VERIF, "work", "audit.json"), "w"), indent=1)
    return 0 if (not report["grep"] and bad_ax == 0 and rc == 0) else 1


if __name__ == "__main__":
    sys.exit(main())
