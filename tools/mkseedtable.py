#!/usr/bin/env python3
"""Writes seeded/README.md: one row per seeded change (confirmed conditions, which checks report it)."""
import glob, json, os
V = os.path.dirname(os.path.dirname(os.path.abspath(__file__)))
rows = []
for d in sorted(glob.glob(os.path.join(V, "seeded", "*", ""))):
    mp = os.path.join(d, "meta.json")
    if not os.path.exists(mp):
        continue
    m = json.load(open(mp))
    ok = all(v for k, v in m["confirmed"].items() if k != "suite_output")
    ran = ", ".join("%s:%s" % (c, {0: "pass", 1: "VIOLATION", 2: "error"}.get(r["rc"], r["rc"])) for c, r in m["checks"].items())
    rows.append((os.path.basename(d[:-1]), m["property"], "yes" if ok else "NO", ", ".join(m["caught_by"]) or "—", ran,
                 (m.get("summary") or "").replace("|", "/")[:160], (m.get("needs") or "").replace("|", "/")[:160]))
out = ["# Seeded changes", "",
       "Each directory holds `patch.diff` (the change, written by an independent sub-agent that saw only the property text and a",
       "scratch worktree of go-kid/ioc), `demo_test.go` (fails with the change, passes without), `meta.json` (what it needs to",
       "manifest, what was confirmed here: patch applies, builds, the whole existing suite passes with it, the demo fails with it and",
       "passes without it; and the outcome of the quick checks run against a scratch worktree carrying the change) and the replay",
       "file of the first check that reported it.", "",
       "| change | property | confirmed | reported by | quick checks run | summary | needs |", "|---|---|---|---|---|---|---|"]
for r in rows:
    out.append("| %s | %s | %s | %s | %s | %s | %s |" % r)
caught = sum(1 for r in rows if r[3] != "—")
out += ["", "%d changes, %d reported by at least one quick check at the time of the run recorded in meta.json." % (len(rows), caught), ""]
open(os.path.join(V, "seeded", "README.md"), "w").write("\n".join(out))
print(len(rows), caught)
