"""Wiring scenarios: generator, Go code generator, runner and Coq rendering shared by the checks of the
wiring family (C01 C02 C03 C05 C06 C07 C08 C09 C10 C13).  See DESIGN.md 4.3.

A scenario describes Go struct TYPES (static: fields with tags, marker methods, interfaces) and component
INSTANCES of those types (dynamic: custom name, qualifier, failing callbacks, Order, processor behaviour).
The types are emitted as Go source, compiled against /repo's current tree and run in a child process that
executes the real container; the same scenario is rendered as a Coq term of type Model.Factory.scenario.
"""
import json
import os
import shutil
import subprocess

import vlib

BUILTIN_KINDS = {
    "loggerAwarePostProcessors": "BLogger",
    "configQuoteAwarePostProcessors": "BQuote",
    "expressionTagAwarePostProcessors": "BExpr",
    "propertiesAwarePostProcessors": "BProps",
    "valueAwarePostProcessors": "BValue",
    "validateAwarePostProcessors": "BValidate",
    "dependencyAwarePostProcessors": "BWire",
    "dependencyFurtherMatchingPostProcessors": "BFurther",
    "dependencyFunctionAwarePostProcessors": "BFunc",
}
IRUN, ICLOSE = 1000, 1001
APP_TYPE = 9999
PKG = "main"


class Profile:
    """knobs of the generator; every check sets the ones it cares about"""

    def __init__(self, **kw):
        self.min_types, self.max_types = 2, 6
        self.p_crowd_big = 0.0           # non-zero: scenario 7 of a run carries a crowd of 55..57 members
        self.p_proc_crowd = 0.0          # a scenario with 10..15 further Ordered user post-processors of pairwise different
        #                                  Order, all behind the built-in ones: more Ordered processors than sort.Slice sorts by insertion
        self.p_crowd = 0.02              # a scenario with one naming type instantiated 24..36 times: more singletons than any
                                         # batch size or table capacity a maintainer would pick (the App and the ten built-in
                                         # processors come on top)
        self.max_ifaces = 3
        self.p_extra_instance = 0.25     # second instance of a type (needs a custom name)
        self.p_naming = 0.35
        self.p_empty_custom = 0.1        # type has Naming() but returns ""
        self.p_qual = 0.3
        self.p_primary = 0.15
        self.p_lazy = 0.2
        self.p_aps, self.p_init = 0.3, 0.6
        self.p_runner, self.p_closer = 0.2, 0.1
        self.n_procs = (0, 2)            # user post-processor components
        self.p_wrap = 0.0                # a processor wraps components
        self.p_fault = 0.0               # a callback fault somewhere
        self.n_faults = (1, 1)
        self.fields = (0, 4)
        self.kind_weights = {"ptr": 4, "iface": 4, "sptr": 2, "siface": 3, "name": 3, "any": 0.3, "func": 1, "other": 0.05}
        self.p_optional = 0.2
        self.p_pointqual = 0.15
        self.p_absent_name = 0.15
        self.p_wrongtype_name = 0.1
        self.p_cfg = 0.15
        self.p_cfg_unsat = 0.1
        self.p_cycle_bias = 0.5          # prefer edges that close cycles
        self.p_loader_fail = 0.0
        self.p_valid = 0.85              # make required points satisfiable
        self.proc_points = 0.0           # processors with injection points (KF-C05a)
        self.p_case_variant = 0.15       # custom names differing only in letter case
        self.p_twin = 0.15               # a type with exactly the field layout of another one (convertible pointer types)
        self.p_generic = 0.08            # two instantiations of ONE generic type (G[int], G[string]): default names that differ in
        #                                  the type arguments only
        self.n_bare = (0, 1)             # types without wx.Base: no methods at all (or only unexported ones), zero-size or not
        self.p_sealed = 0.15             # an interface whose only method is unexported ("sealed")
        self.p_name_placeholder = 0.1    # a by-name point whose name comes from configuration: wire:"${key}" / "${nokey:name}"
        self.p_embed_points = 0.1        # injection points declared in an embedded struct of an unexported type
        self.p_local_twins = 0.08        # two "modules" of function-local types with the SAME type names (distinct Go types that print alike)
        self.p_foreign_twins = 0.08      # components of two library types from different packages with one package NAME and one
                                         # type name (text/template.Template, html/template.Template): they print alike
        self.p_reqspell = 0.12           # a required point spells the argument out (`required`, `required=True`, `required=no`, ...)
        self.p_initget = 0.0             # a component's Init asks the container for other components (extras: Model/FactoryX.v)
        self.p_short = 0.0               # a processor short-circuits the instantiation of some components (extras)
        self.p_qual_api = 0.0            # a point's qualifier set is not written in its tag: the scenario's PriorityOrdered user
                                         # post-processor adds it through Property.AddArg("qualifier", ...) (needs such a processor)
        self.perms = 1
        self.__dict__.update(kw)


QUALS = ["qa", "qb", "qc", "", "QA", "qB"]
# (import alias, import path, type name): pairs whose reflect.Type.String() coincide
FOREIGN_PAIRS = [(("texttemplate", "text/template", "Template"), ("htmltemplate", "html/template", "Template")),
                 (("textscanner", "text/scanner", "Scanner"), ("goscanner", "go/scanner", "Scanner"))]
FOREIGN_IMPORTS = "".join('import %s "%s"\n' % (a, p) for pair in FOREIGN_PAIRS for a, p, _ in pair) + \
    "var _ = []any{%s}\n" % ", ".join("(*%s.%s)(nil)" % (a, n) for pair in FOREIGN_PAIRS for a, _, n in pair)
RETS = ["red", "blue", "green"]
NAME_POOLS = ["a", "h", "m", "z"]


def gen_scenario(rng, sid, pf):
    nt = rng.randint(pf.min_types, pf.max_types)
    nif = rng.randint(1, max(1, pf.max_ifaces))
    sealed = [rng.random() < pf.p_sealed for _ in range(nif)]
    types = []
    for ti in range(nt):
        k = rng.choice([0, 1, 1, 2, nif]) if nif else 0
        t = {
            "ifaces": sorted(rng.sample(range(nif), min(k, nif))),
            "naming": rng.random() < pf.p_naming,
            "qual": rng.random() < pf.p_qual,
            "primary": rng.random() < pf.p_primary,
            "lazy": rng.random() < pf.p_lazy,
            "aps": rng.random() < pf.p_aps,
            "init": rng.random() < pf.p_init,
            "runner": rng.choice("POUUM") if rng.random() < pf.p_runner else None,
            "closer": rng.random() < pf.p_closer,
            "proc": None,
            "methods": [],
            "fields": [],
            "cfields": [],
        }
        for m in range(2):
            if rng.random() < 0.3:
                t["methods"].append(("F%d" % m, False))
            if rng.random() < 0.3:
                t["methods"].append(("G%d" % m, True))
        if (sid + ti) % 4 == 0:
            # a method WITH parameters: a func point names a method, it does not say what the method takes (never combined
            # with `returns`, which would call it)
            t["methods"].append(("H0", False))
        types.append(t)
    nprocs = rng.randint(*pf.n_procs)
    for _ in range(nprocs):
        types.append({"ifaces": [], "naming": True, "qual": False, "primary": False,
                      "lazy": rng.random() < 0.15, "aps": False, "init": rng.random() < 0.3, "runner": None,
                      "closer": False, "proc": rng.choice("POUUM"), "methods": [], "fields": [], "cfields": []})
    if pf.p_proc_crowd and rng.random() < pf.p_proc_crowd:
        for _ in range(rng.randint(10, 15)):
            types.append({"ifaces": [], "naming": True, "qual": False, "primary": False, "lazy": False, "aps": False, "init": False,
                          "runner": None, "closer": False, "proc": "O", "pcrowd": True, "methods": [], "fields": [], "cfields": []})
    comps = []
    used_names = set()
    nbare = rng.randint(*pf.n_bare)

    def fresh_name():
        while True:
            n = rng.choice(NAME_POOLS) + str(rng.randint(0, 99))
            if used_names and rng.random() < pf.p_case_variant:
                # a name that differs from an existing one only in letter case (byte order still separates them)
                base = rng.choice(sorted(used_names))
                n = rng.choice([base.upper() if base != base.upper() else base.lower(),
                                base.strip() + " ", " " + base.strip()])   # letter case, or a blank at an edge
            if n not in used_names:
                used_names.add(n)
                return n

    for _ in range(nbare):
        # no wx.Base, no exported method (unless it announces a constant name): only `any` points, by-name points and
        # sealed interfaces can be served by such a component; "zero" ones are zero-size (they all share one address)
        cn = fresh_name() if rng.random() < 0.25 else None
        bt = {"ifaces": [i for i in range(nif) if sealed[i] and rng.random() < 0.6], "naming": cn is not None,
              "qual": False, "primary": False, "lazy": rng.random() < pf.p_lazy, "aps": False, "init": False,
              "runner": None, "closer": False, "proc": None, "methods": [], "fields": [], "cfields": [],
              "bare": rng.choice(["zero", "zero", "sized"]), "const_name": cn}
        if rng.random() < 0.35:
            # a component whose type is not a struct at all (`type T int`, a named slice, a named channel) but has the
            # methods of a runner and/or a closer
            bt["bare"] = "sized"
            bt["nonstruct"] = rng.choice(["int", "[]string", "chan struct{}", "map[string]int"])
            bt["runner"] = rng.choice("POU") if rng.random() < 0.7 else None
            bt["closer"] = rng.random() < 0.5
        types.append(bt)
    if pf.p_generic and rng.random() < pf.p_generic:
        base = len(types)
        gi = [i for i in range(nif) if sealed[i] and rng.random() < 0.6]
        gl = rng.random() < pf.p_lazy
        for arg in ("int", "string"):
            types.append({"ifaces": list(gi), "naming": False, "qual": False, "primary": False, "lazy": gl, "aps": False, "init": False,
                          "runner": None, "closer": False, "proc": None, "methods": [], "fields": [], "cfields": [],
                          "bare": "sized", "const_name": None, "generic": (base, arg)})
    crowd = rng.random() < pf.p_crowd
    # a big crowd costs the oracles minutes: exactly one scenario of a run carries one, whatever the tier
    big_crowd = bool(pf.p_crowd_big) and sid == 7
    crowd = crowd or big_crowd
    crowd_type = None
    if crowd:
        cands = [ti for ti, t in enumerate(types) if not t.get("bare") and not t["proc"]]
        if cands:
            crowd_type = rng.choice(cands)
            types[crowd_type]["naming"] = True
            # not a runner: more than 12 participants are sorted by pdqsort, whose order among equal keys the model
            # (a stable sort; DESIGN 0.6) does not reproduce
            types[crowd_type]["runner"] = None
    for ti, t in enumerate(types):
        ninst = 1
        if t.get("bare"):
            comps.append({"type": ti, "name": t["const_name"] or "", "qual": "", "apsFail": False, "initFail": False,
                          "runFail": False, "closeErr": False,
                          "ord": rng.choice([-3, 0, 1, 2, 5, 9, -(2 ** 63), 2 ** 63 - 1]) if t.get("nonstruct") else 0,
                          "rets": {}, "proc": None})
            continue
        if t["naming"] and not t["proc"] and rng.random() < pf.p_extra_instance:
            ninst = 2
        if t["naming"] and not t["proc"] and crowd and ti == crowd_type:
            ninst = rng.randint(24, 36)
            if big_crowd:
                ninst = rng.randint(55, 57)       # with the built-in components: more than 64 singletons
        for j in range(ninst):
            name = ""
            if t["naming"]:
                name = fresh_name()
                if ninst == 1 and not t["proc"] and rng.random() < pf.p_empty_custom:
                    name = ""
                if ninst == 2 and j == 1 and rng.random() < 0.3:
                    # named and unnamed instances of one type side by side: the unnamed one sits under the type's own id
                    name = ""
            c = {"type": ti, "name": name, "qual": rng.choice(QUALS) if t["qual"] else "",
                 "apsFail": False, "initFail": False, "runFail": False, "closeErr": False,
                 "ord": rng.choice([-3, 0, 1, 1, 2, 3, 5, 9, 17, 100, -(2 ** 63), 2 ** 63 - 1, -1, 2 ** 62]),
                 "rets": {m: rng.choice(RETS) for m, r in t["methods"] if r}, "proc": None}
            if t["proc"]:
                c["proc"] = {"early": {}, "after": {}, "faults": []}
            comps.append(c)

    # the processors of a processor crowd: pairwise different Orders that no other participant has (equal keys among more
    # than 12 elements are not kept in place by sort.Slice, and the model's sort is stable)
    pc = [c for c in comps if types[c["type"]].get("pcrowd")]
    if pc:
        # ... and so do the scenario's other Ordered post-processors (two of them with one Order were swapped by the real
        # sort once the crowd had made the group larger than 12: a false alarm of the clean tree, seed 1)
        pc = [c for c in comps if types[c["type"]].get("pcrowd") or types[c["type"]]["proc"] == "O"]
        taken = {c["ord"] for c in comps if c not in pc}
        free = [o for o in range(10, 90) if o not in taken]
        for c, o in zip(pc, rng.sample(free, len(pc))):
            c["ord"] = o

    def regname(ci):
        c = comps[ci]
        g = types[c["type"]].get("generic")
        if g and not c["name"]:
            return "%s/G%d_%d[%s]" % (PKG, sid, g[0], g[1])
        return c["name"] if c["name"] else "%s/T%d_%d" % (PKG, sid, c["type"])

    # fields
    plain = [ti for ti, t in enumerate(types) if not t["proc"]]
    for ti, t in enumerate(types):
        if t.get("bare") or (t["proc"] and rng.random() >= pf.proc_points):
            continue
        t["embed"] = rng.random() < pf.p_embed_points
        nf = rng.randint(*pf.fields)
        kinds = list(pf.kind_weights)
        wire, func = [], []
        for _ in range(nf):
            kind = rng.choices(kinds, [pf.kind_weights[k] for k in kinds])[0]
            p = {"slice": False, "target": None, "sel": ("type",), "quals": None,
                 "required": rng.random() >= pf.p_optional}
            valid = rng.random() < pf.p_valid
            # a target type: prefer lower/higher index to close cycles
            tt = rng.choice(plain) if plain else ti
            if rng.random() < pf.p_cycle_bias and plain:
                tt = rng.choice([x for x in plain if x != ti] or plain)
            if kind in ("ptr", "sptr"):
                p["target"] = ("ptr", tt)
                p["slice"] = kind == "sptr"
            elif kind in ("iface", "siface"):
                impl = [i for i in range(nif) if any(i in types[x]["ifaces"] for x in plain if x != ti)]
                pool = impl if (valid and impl) else list(range(nif))
                p["target"] = ("iface", rng.choice(pool))
                p["slice"] = kind == "siface"
            elif kind == "any":
                p["target"] = ("any",)
                p["slice"] = rng.random() < 0.5
            elif kind == "other":
                p["target"] = ("other",)
                # a tagged field of a kind the container does not inject: an int, or a fixed-size ARRAY of interfaces /
                # pointers (arrays are not collections: no candidates, so a required one fails the start cleanly)
                p["other_go"] = rng.choice(["int", "[2]any", "[1]*wx.Base", "[3]error", "map[string]any", "func()"])
            elif kind == "name":
                tk = rng.choice(["ptr", "iface", "any"])
                ci = rng.randrange(len(comps))
                r = rng.random()
                if r < pf.p_absent_name:
                    p["sel"] = ("name", "nope%d" % rng.randint(0, 9))
                    p["target"] = {"ptr": ("ptr", tt), "iface": ("iface", rng.randrange(nif)), "any": ("any",)}[tk]
                else:
                    p["sel"] = ("name", regname(ci))
                    if rng.random() < pf.p_name_placeholder:
                        p["via"] = rng.choice(["cfg", "dflt", "part"])
                    cty = comps[ci]["type"]
                    if r < pf.p_absent_name + pf.p_wrongtype_name:
                        p["target"] = {"ptr": ("ptr", rng.choice(plain)), "iface": ("iface", rng.randrange(nif)),
                                       "any": ("any",)}[tk]
                    else:
                        if tk == "iface" and types[cty]["ifaces"]:
                            p["target"] = ("iface", rng.choice(types[cty]["ifaces"]))
                        elif tk == "any":
                            p["target"] = ("any",)
                        else:
                            p["target"] = ("ptr", cty)
                if rng.random() < 0.05:
                    p["slice"] = True
            elif kind == "func":
                withm = [(x, m) for x in plain for m in types[x]["methods"]]
                if withm and valid:
                    x, (mn, hasret) = rng.choice(withm)
                else:
                    mn, hasret = rng.choice([("F0", False), ("G0", True), ("F1", False), ("G1", True)])
                    x = tt
                rets = None
                if hasret or rng.random() < 0.2:
                    rets = rng.sample(RETS + ["*"], rng.randint(1, 2))
                if mn.startswith("H"):
                    rets = None
                p["sel"] = ("func", mn, rets)
                if types[x]["ifaces"] and rng.random() < 0.5:
                    p["target"] = ("iface", rng.choice(types[x]["ifaces"]))
                else:
                    p["target"] = ("ptr", x)
                p["slice"] = rng.random() < 0.4
            if rng.random() < pf.p_pointqual:
                p["quals"] = rng.sample(QUALS, rng.randint(1, 2))
            if p["sel"][0] == "type" and p["target"][0] != "other" and rng.random() < pf.p_name_placeholder * 0.6:
                p["via_empty"] = True
            if p["required"] and rng.random() < pf.p_reqspell:
                p["reqspell"] = rng.choice(["", "=true", "=True", "=1", "=yes", "=FALSE", "=no"])
            (func if kind == "func" else wire).append(p)
        t["fields"] = wire + func
        if rng.random() < pf.p_cfg or (crowd and ti == crowd_type):      # the crowd always carries a non-wire tag
            for _ in range(rng.randint(1, 2)):
                t["cfields"].append({"prefix": rng.random() < 0.4, "required": rng.random() >= pf.p_optional,
                                     "sat": rng.random() >= pf.p_cfg_unsat})
    # layout twins: same fields, same embedded mixins => *T_a is convertible (not assignable) to *T_b
    import copy as _copy
    twins = {}
    for ti in plain:
        if ti > 0 and rng.random() < pf.p_twin and not types[ti].get("bare"):
            src = rng.choice([x for x in plain if x < ti and not types[x].get("bare")] or [ti])
            if src != ti and types[src]["runner"] == types[ti]["runner"]:
                types[ti]["embed"] = types[src].get("embed", False)
                types[ti]["fields"] = _copy.deepcopy(types[src]["fields"])
                types[ti]["cfields"] = _copy.deepcopy(types[src]["cfields"])
                twins[ti] = src
                twins.setdefault(src, ti)
    if twins:
        # point some by-name fields at a component of the twin type (present, incompatible, same layout)
        for ti, t in enumerate(types):
            for p in t["fields"]:
                if p["sel"][0] == "name" and p["target"][0] == "ptr" and rng.random() < 0.5:
                    named = [ci for ci in range(len(comps)) if regname(ci) == p["sel"][1]]
                    if named and comps[named[0]]["type"] in twins:
                        p["target"] = ("ptr", twins[comps[named[0]]["type"]])
    # processors' behaviour
    targets = [i for i, c in enumerate(comps) if not types[c["type"]]["proc"] and not types[c["type"]].get("bare")]
    for ci, c in enumerate(comps):
        if c["proc"] is None or not targets:
            continue
        if rng.random() < pf.p_wrap:
            for tci in rng.sample(targets, rng.randint(1, min(3, len(targets)))):
                mode = rng.choice(["early", "after", "both", "bothfresh", "springy"])
                if mode == "early":
                    c["proc"]["early"][tci] = 1
                elif mode == "after":
                    c["proc"]["after"][tci] = 1
                elif mode == "both":
                    c["proc"]["early"][tci] = 1
                    c["proc"]["after"][tci] = 2
                elif mode == "bothfresh":
                    c["proc"]["early"][tci] = 1
                    c["proc"]["after"][tci] = 1
                else:
                    c["proc"]["early"][tci] = 1
                    c["proc"]["after"][tci] = 3
    # function-local twin modules: in each, a provider type `L` and a holder type `H` with `*L` / `[]*L` points; the two
    # L (and the two H) are different Go types whose reflect.Type.String() is the same
    if rng.random() < pf.p_local_twins:
        for g in range(2):
            li = len(types)
            types.append({"ifaces": [], "naming": True, "qual": False, "primary": False, "lazy": False, "aps": False,
                          "init": False, "runner": None, "closer": False, "proc": None, "methods": [], "fields": [],
                          "cfields": [], "bare": "sized", "local": g, "lname": "L"})
            opt = rng.random() < 0.3
            types.append({"ifaces": [], "naming": True, "qual": False, "primary": False, "lazy": False,
                          "aps": False, "init": False, "runner": None, "closer": False, "proc": None, "methods": [],
                          "fields": [{"slice": False, "target": ("ptr", li), "sel": ("type",), "quals": None, "required": not opt},
                                     {"slice": True, "target": ("ptr", li), "sel": ("type",), "quals": None, "required": not opt}],
                          "cfields": [], "bare": "sized", "local": g, "lname": "H"})
            for ti in (li, li + 1):
                comps.append({"type": ti, "name": fresh_name(), "qual": "", "apsFail": False, "initFail": False,
                              "runFail": False, "closeErr": False, "ord": 0, "rets": {}, "proc": None})
    # foreign twins: one component of each type of a pair, and a holder with `*T` / `[]*T` points for both
    if rng.random() < pf.p_foreign_twins:
        pair = rng.choice(FOREIGN_PAIRS)
        fis = []
        for f in pair:
            fis.append(len(types))
            types.append({"ifaces": [], "naming": False, "qual": False, "primary": False, "lazy": False, "aps": False,
                          "init": False, "runner": None, "closer": False, "proc": None, "methods": [], "fields": [],
                          "cfields": [], "bare": "sized", "foreign": list(f)})
            comps.append({"type": fis[-1], "name": "", "qual": "", "apsFail": False, "initFail": False,
                          "runFail": False, "closeErr": False, "ord": 0, "rets": {}, "proc": None})
        opt = rng.random() < 0.3
        hf = []
        for fi in rng.sample(fis, 2):
            hf.append({"slice": False, "target": ("ptr", fi), "sel": ("type",), "quals": None, "required": not opt})
            if rng.random() < 0.6:
                hf.append({"slice": True, "target": ("ptr", fi), "sel": ("type",), "quals": None, "required": not opt})
        if rng.random() < 0.5:
            hf.append({"slice": False, "target": ("ptr", fis[0]), "sel": ("name", "%s/%s" % (pair[0][1], pair[0][2])),
                       "quals": None, "required": not opt})
        types.append({"ifaces": [], "naming": False, "qual": False, "primary": False, "lazy": False, "aps": False,
                      "init": rng.random() < 0.5, "runner": None, "closer": False, "proc": None, "methods": [],
                      "fields": hf, "cfields": []})
        comps.append({"type": len(types) - 1, "name": "", "qual": "", "apsFail": False, "initFail": False,
                      "runFail": False, "closeErr": False, "ord": 0, "rets": {}, "proc": None})
    # extras (outside the assumptions of the Model/Factory.v theorems; modelled by Model/FactoryX.v)
    for ci, c in enumerate(comps):
        t = types[c["type"]]
        if t["init"] and not t.get("bare") and not t["proc"] and rng.random() < pf.p_initget:
            others = [k for k in range(len(comps)) if k != ci and not types[comps[k]["type"]]["proc"]]
            if others:
                # prefer lazy components and components that point back at this one
                back = [k for k in others if any(p["target"] == ("ptr", c["type"]) or
                                                 (p["target"][0] == "iface" and p["target"][1] in t["ifaces"])
                                                 for p in types[comps[k]["type"]]["fields"])]
                lazy = [k for k in others if types[comps[k]["type"]]["lazy"]]
                pool = (back * 3 + lazy * 2 + others)
                c["initGet"] = [rng.choice(pool) for _ in range(rng.randint(1, 2))]
        if c["proc"] is not None and targets and rng.random() < pf.p_short:
            c["proc"]["short"] = sorted(set(rng.sample(targets, rng.randint(1, min(2, len(targets))))))
    scn = {"id": sid, "nif": nif, "sealed": sealed, "types": types, "comps": comps, "loaderFail": rng.random() < pf.p_loader_fail,
           "regorder": list(range(len(comps)))}
    if rng.random() < pf.p_valid:
        make_valid(rng, scn)
    if rng.random() < pf.p_fault:
        add_faults(rng, scn, rng.randint(*pf.n_faults))
    rng.shuffle(scn["regorder"])
    if pf.p_qual_api and has_priority_proc(scn):
        # the model knows the point by its qualifier set; HOW the set reaches the point is the implementation's business
        for t in types:
            if t["proc"] or t.get("bare") or t.get("nonstruct") or t.get("local") is not None or t.get("foreign"):
                continue
            for p in t["fields"]:
                if p["quals"] is not None and p["sel"][0] != "func" and rng.random() < pf.p_qual_api:
                    p["qual_api"] = True
    return scn


def has_priority_proc(scn):
    """a user post-processor that is PriorityOrdered: it sees every property before the Ordered built-in processors do"""
    return any(c["proc"] is not None and scn["types"][c["type"]]["proc"] == "P" for c in scn["comps"])


def qual_api_points(scn):
    """(type index, field index) of the points whose qualifier set is added programmatically in this scenario"""
    if not has_priority_proc(scn):
        return []
    return [(ti, k) for ti, t in enumerate(scn["types"]) for k, p in enumerate(t["fields"])
            if p.get("qual_api") and p["quals"] is not None]


def py_candidates(scn, hci, p):
    """rough candidate set (generator steering only; never used for a verdict)"""
    types, comps = scn["types"], scn["comps"]
    sel, tgt = p["sel"], p["target"]

    def type_ok(ci):
        t = types[comps[ci]["type"]]
        if tgt[0] == "ptr":
            return comps[ci]["type"] == tgt[1]
        if tgt[0] == "iface":
            return tgt[1] in t["ifaces"]
        return tgt[0] == "any"

    if tgt[0] == "other":
        return []
    if sel[0] == "type":
        cs = [ci for ci in range(len(comps)) if type_ok(ci)]
    elif sel[0] == "name":
        if p["slice"]:
            return []
        cs = [ci for ci in range(len(comps)) if regname_of(scn, ci) == sel[1] and type_ok(ci)]
    else:
        cs = []
        for ci in range(len(comps)):
            t = types[comps[ci]["type"]]
            ms = dict(t["methods"])
            if not type_ok(ci) or sel[1] not in ms:
                continue
            if sel[2] is None:
                if not ms[sel[1]]:
                    cs.append(ci)
            elif "*" in sel[2] or (ms[sel[1]] and comps[ci]["rets"].get(sel[1]) in sel[2]):
                cs.append(ci)
    cs = [ci for ci in cs if ci != hci]
    if p["quals"] is not None:
        cs = [ci for ci in cs if types[comps[ci]["type"]]["qual"] and comps[ci]["qual"] in p["quals"]]
    return cs


def make_valid(rng, scn):
    """make required points satisfiable (mostly-valid stream): relax what cannot be satisfied"""
    types, comps = scn["types"], scn["comps"]
    for ti, t in enumerate(types):
        holders = [ci for ci, c in enumerate(comps) if c["type"] == ti]
        for p in t["fields"]:
            if not p["required"]:
                continue
            if all(py_candidates(scn, h, p) for h in holders):
                continue
            if p["quals"] is not None:
                p["quals"] = None
                if all(py_candidates(scn, h, p) for h in holders):
                    continue
            p["required"] = False
        for cp in t["cfields"]:
            if cp["required"]:
                cp["sat"] = True


def fault_sites(scn):
    """every place where a callback can fail"""
    sites = []
    types, comps = scn["types"], scn["comps"]
    for ci, c in enumerate(comps):
        t = types[c["type"]]
        if t["aps"]:
            sites.append(("aps", ci))
        if t["init"]:
            sites.append(("init", ci))
        if t["runner"]:
            sites.append(("run", ci))
        if c["proc"] is not None:
            for tci, tc in enumerate(comps):
                for ph in (0, 1, 2):
                    sites.append(("proc", ci, ph, tci))
    sites.append(("loader",))
    return sites


def apply_fault(scn, site):
    comps = scn["comps"]
    if site[0] == "aps":
        comps[site[1]]["apsFail"] = True
    elif site[0] == "init":
        comps[site[1]]["initFail"] = True
    elif site[0] == "run":
        comps[site[1]]["runFail"] = True
    elif site[0] == "proc":
        comps[site[1]]["proc"]["faults"].append((site[2], site[3]))
    elif site[0] == "loader":
        scn["loaderFail"] = True


def add_faults(rng, scn, n):
    sites = fault_sites(scn)
    for s in rng.sample(sites, min(n, len(sites))):
        apply_fault(scn, s)
    scn["faults"] = n


# ------------------------------------------------------------------------------------------------
# Go code generation

def go_type_name(sid, ti):
    return "T%d_%d" % (sid, ti)


def name_key(sid, ti, k):
    return "wn%d_%d_%d" % (sid, ti, k)


def tag_of(p, key=None, qual_api=False):
    sel = p["sel"]
    args = ""
    if p["quals"] is not None and not qual_api:
        args += ",qualifier=" + " ".join(p["quals"])
    if not p["required"]:
        args += ",required=false"
    elif p.get("reqspell") is not None:
        args += ",required" + p["reqspell"]      # legal spellings that all mean "required": only the value `false` opts out
    if sel[0] == "func":
        if sel[2] is not None:
            args = ",returns=" + " ".join(sel[2]) + args
        return 'func:"%s%s"' % (sel[1], args)
    val = sel[1] if sel[0] == "name" else ""
    if sel[0] == "type" and p.get("via_empty") and key:
        val = "${%s_absent:}" % key     # a name taken from configuration that resolves to nothing: the point is filled by type
    if sel[0] == "name" and p.get("via") and key and val:
        # the name comes from configuration: whole value, default of an absent key, or a part of the name
        if p["via"] == "cfg":
            val = "${%s}" % key
        elif p["via"] == "dflt":
            val = "${%s_absent:%s}" % (key, val)
        else:
            val = val[:1] + "${%s}" % key
    return 'wire:"%s%s"' % (val, args)


def go_field_type(sid, p, types=None):
    t = p["target"]
    if t[0] == "ptr" and types is not None and types[t[1]].get("foreign"):
        f = types[t[1]]["foreign"]
        return ("[]" if p["slice"] else "") + "*%s.%s" % (f[0], f[2])
    base = {"ptr": lambda: "*" + go_type_name(sid, t[1]), "iface": lambda: "I%d_%d" % (sid, t[1]),
            "any": lambda: "any", "other": lambda: p.get("other_go", "int"), "app": lambda: "*app.App"}[t[0]]()
    return ("[]" if p["slice"] else "") + base


def gen_go(scn):
    sid = scn["id"]
    out = []
    qapi = set(qual_api_points(scn))
    sealed = scn.get("sealed") or [False] * scn["nif"]
    mname = lambda i: ("mI%d_%d" if sealed[i] else "MI%d_%d") % (sid, i)
    for i in range(scn["nif"]):
        out.append("type I%d_%d interface{ %s() }" % (sid, i, mname(i)))
    locals_ = {}
    for ti, t in enumerate(scn["types"]):
        if t.get("local") is not None:
            locals_.setdefault(t["local"], []).append(ti)
    for g, tis in sorted(locals_.items()):
        body = []
        for ti in tis:
            t = scn["types"][ti]
            flds = ["\t\twx.NameMix", "\t\tX int"]
            for k, p in enumerate(t["fields"]):
                lt = scn["types"][p["target"][1]]["lname"]
                flds.append("\t\tW%d %s*%s `%s`" % (k, "[]" if p["slice"] else "", lt, tag_of(p)))
            body.append("\ttype %s struct {\n%s\n\t}" % (t["lname"], "\n".join(flds)))
        for ti in tis:
            t = scn["types"][ti]
            body.append('\twx.Ctors["%s"] = func(b wx.Base) any { return &%s{NameMix: wx.NameMix{N: b.C.Name}} }'
                        % (go_type_name(sid, ti), t["lname"]))
        out.append("func init() {\n%s\n}" % "\n".join(body))
    for ti, t in enumerate(scn["types"]):
        tn = go_type_name(sid, ti)
        if t.get("local") is not None:
            continue
        if t.get("foreign"):
            f = t["foreign"]
            out.append('func init() {\n\twx.Ctors["%s"] = func(b wx.Base) any { return &%s.%s{} }\n}' % (tn, f[0], f[2]))
            continue
        if t.get("nonstruct"):
            ord_ = [c["ord"] for c in scn["comps"] if c["type"] == ti][0]
            out.append("type %s %s" % (tn, t["nonstruct"]))
            for i in t["ifaces"]:
                out.append("func (t *%s) %s() {}" % (tn, mname(i)))
            if t.get("const_name"):
                out.append('func (t *%s) Naming() string { return "%s" }' % (tn, t["const_name"]))
            if t["lazy"]:
                out.append("func (t *%s) LazyInit() {}" % tn)
            if t["runner"]:
                out.append('func (t *%s) Run() error { return wx.GlobalEvent("run", t) }' % tn)
                if t["runner"] in ("P", "O"):
                    out.append("func (t *%s) Order() int { return %d }" % (tn, ord_))
                if t["runner"] == "P":
                    out.append("func (t *%s) Priority() {}" % tn)
            if t["closer"]:
                out.append('func (t *%s) Close() error { return wx.GlobalEvent("close", t) }' % tn)
            mk = {"int": "v := %s(0)", "[]string": "v := %s{}", "chan struct{}": "v := make(%s)", "map[string]int": "v := %s{}"}[t["nonstruct"]] % tn
            out.append('func init() {\n\twx.Ctors["%s"] = func(b wx.Base) any { %s; return &v }\n}' % (tn, mk))
            continue
        if t.get("generic"):
            base, arg = t["generic"]
            gn = "G%d_%d" % (sid, base)
            if ti == base:
                out.append("type %s[X any] struct{ V X }" % gn)
                for i in t["ifaces"]:
                    out.append("func (t *%s[X]) %s() {}" % (gn, mname(i)))
                if t["lazy"]:
                    out.append("func (t *%s[X]) LazyInit() {}" % gn)
            out.append("type %s = %s[%s]" % (tn, gn, arg))
            out.append('func init() {\n\twx.Ctors["%s"] = func(b wx.Base) any { return &%s{} }\n}' % (tn, tn))
            continue
        if t.get("bare"):
            out.append("type %s struct {%s}" % (tn, " X int " if t["bare"] == "sized" else ""))
            for i in t["ifaces"]:
                out.append("func (t *%s) %s() {}" % (tn, mname(i)))
            if t.get("const_name"):
                out.append('func (t *%s) Naming() string { return "%s" }' % (tn, t["const_name"]))
            if t["lazy"]:
                out.append("func (t *%s) LazyInit() {}" % tn)
            out.append('func init() {\n\twx.Ctors["%s"] = func(b wx.Base) any { return &%s{} }\n}' % (tn, tn))
            continue
        emb = t.get("embed") and t["fields"]
        if emb:
            out.append("type e%s struct {" % tn)
            for k, p in enumerate(t["fields"]):
                out.append("\tW%d %s `%s`" % (k, go_field_type(sid, p, scn["types"]), tag_of(p, name_key(sid, ti, k), (ti, k) in qapi)))
            out.append("}")
        out.append("type %s struct {\n\tb wx.Base" % tn)
        if emb:
            out.append("\te%s" % tn)
        binds = []
        if t["proc"]:
            out.append("\twx.ProcCore")
            binds.append("t.ProcCore.Bind(&t.b)")
        cls = t["proc"] or t["runner"]
        if cls in ("P", "O"):
            out.append("\twx.OrdM")
            binds.append("t.OrdM.BindOrd(&t.b)")
        if cls in ("P", "M"):        # M: the Priority() marker WITHOUT Order(): such a participant is not Ordered
            out.append("\twx.PrioM")
        if not t["proc"] and (sid * 5 + ti * 3) % 9 < 2:
            # an ordinary component that is also a (do-nothing) factory / definition-registry post-processor
            out.append("\twx.%s" % ["FactoryAware", "RegistryAware"][(sid * 5 + ti * 3) % 9])
        for k, p in enumerate(t["fields"]):
            if not emb:
                out.append("\tW%d %s `%s`" % (k, go_field_type(sid, p, scn["types"]), tag_of(p, name_key(sid, ti, k), (ti, k) in qapi)))
        for k, cp in enumerate(t["cfields"]):
            key = "k%d_%d_%d" % (sid, ti, k)
            out.append("\tV%d string `%s`" % (k, cfield_tag(cp, key, (sid * 7 + ti * 3 + k) % 6)))
        out.append("}")
        out.append("func (t *%s) WxBase() *wx.Base { return &t.b }" % tn)
        out.append("type P%s struct {\n\t*%s\n\tPid int\n}" % (tn, tn))
        out.append("func (p *P%s) WxTarget() any { return p.%s }" % (tn, tn))
        out.append("func (t *%s) WxProxy(pid int) any { return &P%s{t, pid} }" % (tn, tn))
        for i in t["ifaces"]:
            out.append("func (t *%s) %s() {}" % (tn, mname(i)))
        if t["naming"]:
            out.append("func (t *%s) Naming() string { return t.b.C.Name }" % tn)
        if t["qual"]:
            out.append("func (t *%s) Qualifier() string { return t.b.C.Qual }" % tn)
        if t["primary"]:
            out.append("func (t *%s) Primary() {}" % tn)
        if t["lazy"]:
            out.append("func (t *%s) LazyInit() {}" % tn)
        if t["aps"]:
            out.append("func (t *%s) AfterPropertiesSet() error { return t.b.DoAPS() }" % tn)
        if t["init"]:
            out.append("func (t *%s) Init() error { return t.b.DoInit() }" % tn)
        if t["runner"]:
            out.append("func (t *%s) Run() error { return t.b.DoRun() }" % tn)
        if t["closer"]:
            out.append("func (t *%s) Close() error { return t.b.DoClose() }" % tn)
        for m, hasret in t["methods"]:
            if hasret:
                out.append('func (t *%s) %s() string { return t.b.Ret("%s") }' % (tn, m, m))
            elif m.startswith("H"):
                out.append("func (t *%s) %s(x int, ys ...string) {}" % (tn, m))
            else:
                out.append("func (t *%s) %s() {}" % (tn, m))
        out.append('func init() {\n\twx.Ctors["%s"] = func(b wx.Base) any {\n\t\tt := &%s{b: b}\n\t\t%s\n\t\treturn t\n\t}\n}'
                   % (tn, tn, "\n\t\t".join(binds)))
    return "\n".join(out) + "\n"


def regname_of(scn, ci):
    c = scn["comps"][ci]
    f = scn["types"][c["type"]].get("foreign")
    if f and not c["name"]:
        return "%s/%s" % (f[1], f[2])
    g = scn["types"][c["type"]].get("generic")
    if g and not c["name"]:
        return "%s/G%d_%d[%s]" % (PKG, scn["id"], g[0], g[1])
    return c["name"] if c["name"] else "%s/%s" % (PKG, go_type_name(scn["id"], c["type"]))


def cfield_tag(cp, key, dflt_variant):
    """the tag of a configuration point.  The model knows a point by (prefix | value, required, satisfiable); the tag
    spells that in one of six ways (kept in the scenario as cp["tagv"]): the value route also as the prop shorthand, and
    the Required argument alone, last, first or in the middle of further arguments that are harmless on a string field
    (custom ones, validate=omitempty ..., mapper=json) - an optional point never fails, whatever else its tag carries"""
    v = cp.setdefault("tagv", dflt_variant)
    opt = "" if cp["required"] else ",required=false"
    if cp["prefix"]:
        return 'prefix:"%s%s"' % (key, [opt, opt, ",x=1" + opt, opt + ",note=a b", ",x=1" + opt + ",y=2", opt][v])
    return ['value:"${%s}%s"' % (key, opt),
            'prop:"%s%s"' % (key, opt),
            'prop:"%s,x=1%s"' % (key, opt),
            'prop:"%s%s,note=a b"' % (key, opt),
            'value:"${%s},validate=omitempty%s,x=1"' % (key, opt),
            'prop:"%s,validate=omitempty min=1%s,mapper=json"' % (key, opt)][v]


def config_yaml(scn):
    lines = []
    sid = scn["id"]
    for ti, t in enumerate(scn["types"]):
        for k, cp in enumerate(t["cfields"]):
            if cp["sat"]:
                lines.append("k%d_%d_%d: v%d" % (sid, ti, k, k))
        for k, p in enumerate(t["fields"]):
            if p["sel"][0] == "name" and p.get("via") and p["sel"][1]:
                val = p["sel"][1] if p["via"] == "cfg" else p["sel"][1][1:]
                if p["via"] != "dflt":
                    lines.append('%s: "%s"' % (name_key(sid, ti, k), val))
    return "\n".join(lines) + ("\n" if lines else "")


# ------------------------------------------------------------------------------------------------
# name ranks and the runtime description

def rank_names(scn, facts):
    """all registered names sorted bytewise -> rank; returns (names sorted, rank of each comp) or None if duplicate"""
    names = [f["name"] for f in facts]
    mine = [regname_of(scn, ci) for ci in range(len(scn["comps"]))]
    allnames = names + mine
    if len(set(allnames)) != len(allnames):
        return None
    srt = sorted(allnames, key=lambda s: s.encode())
    rank = {n: i for i, n in enumerate(srt)}
    return srt, rank


def rank_names_shared(scn, facts):
    """like rank_names for a scenario in which several components announce ONE name (the registration is expected to be
    refused): every component still gets a rank of its own (ties in generation order), the name map points at the first"""
    mine = [(regname_of(scn, ci).encode(), 1, ci) for ci in range(len(scn["comps"]))]
    allk = sorted([(f["name"].encode(), 0, i) for i, f in enumerate(facts)] + mine)
    rank, crank, srt = {}, {}, []
    for r, (nm, own, i) in enumerate(allk):
        rank.setdefault(nm.decode(), r)
        if own:
            crank[i] = r
        if not srt or srt[-1] != nm.decode():
            srt.append(nm.decode())
    return srt, rank, [crank[ci] for ci in range(len(scn["comps"]))]


def runtime_cfg(scn, facts, lookups="all", shared_names=False):
    rk = rank_names(scn, facts)
    if rk is None and not shared_names:
        return None
    if rk is None:
        srt, rank0, crank = rank_names_shared(scn, facts)
    else:
        srt, rank0 = rk
        crank = [rank0[regname_of(scn, ci)] for ci in range(len(scn["comps"]))]

    rank = rank0
    comps = []
    for ci, c in enumerate(scn["comps"]):
        r = crank[ci]
        rc = {"ctor": go_type_name(scn["id"], c["type"]), "rank": r, "name": c["name"], "qual": c["qual"],
              "apsFail": c["apsFail"], "initFail": c["initFail"], "runFail": c["runFail"], "closeErr": c["closeErr"],
              "ord": c["ord"], "rets": c["rets"], "proc": None}
        if c["proc"] is not None:
            rc["proc"] = {
                "short": [crank[int(k)] for k in c["proc"].get("short", [])],
                "early": {str(crank[int(k)]): v for k, v in c["proc"]["early"].items()},
                "after": {str(crank[int(k)]): v for k, v in c["proc"]["after"].items()},
                "faults": [[ph, crank[int(k)]] for ph, k in c["proc"]["faults"]],
            }
        rc["initGet"] = [regname_of(scn, k) for k in c.get("initGet", [])]
        comps.append(rc)
    lk = srt if lookups == "all" else [regname_of(scn, ci) for ci in range(len(scn["comps"]))]
    # names nobody registered are looked up too: other spellings of a registered name (letter case) and a stranger;
    # in the model they are the ranks past the population (no definition: the lookup fails and leaves nothing behind)
    rank = dict(rank)
    lk = list(lk)
    if lookups == "all" and not shared_names:
        known = set(rank)
        extra = []
        for ci in range(len(scn["comps"])):
            n = regname_of(scn, ci)
            for v in (n.swapcase(), n.lower(), n.upper()):
                if v not in known and v not in extra and len(extra) < 2:
                    extra.append(v)
        for ci, c in enumerate(scn["comps"]):
            # the type-derived name of a component that announces another name: nobody is registered under it
            tid = "%s/%s" % (PKG, go_type_name(scn["id"], c["type"]))
            if c["name"] and tid not in known and tid not in extra and len(extra) < 3:
                extra.append(tid)
        extra.append("zz-nobody-%d" % scn["id"])
        for i, v in enumerate(extra):
            rank[v] = len(srt) + i
        pos = min(len(lk), 1 + scn["id"] % (len(lk) + 1))
        lk[pos:pos] = extra
    return {"id": scn["id"], "comps": comps, "regorder": scn["regorder"], "names": rank, "config": config_yaml(scn),
            # qualifier sets that are not written in the tag: every user post-processor adds them to the property it is shown
            # with Property.AddArg("qualifier", ...) - the spelling tags use -; the PriorityOrdered one among them does so before
            # the built-in processors read the argument
            "qualapi": {"%s/W%d" % (go_type_name(scn["id"], ti), k): scn["types"][ti]["fields"][k]["quals"]
                        for ti, k in qual_api_points(scn)},
            "loaderFail": scn["loaderFail"], "lookups": lk, "dup": scn.get("dup", []),
            # the factory's registry calls are traced in two scenarios out of three (the third runs without the wrapper)
            "trace": scn.get("trace", scn["id"] % 3 != 0),
            # one scenario in five is started twice on the same instances (the second start must look like the first)
            "twice": scn.get("twice", scn["id"] % 5 == 4),
            # every other one of those RESTARTS the same App value (Run again with a fresh registry, factory and configure)
            "sameapp": bool(scn.setdefault("sameapp", scn["id"] % 10 == 9)),
            # one scenario in four comes after ANOTHER App of the same worker process, over instances of its own of the same
            # types, in which an application-defined post-processor rewrote the tag arguments (qualifier, required, values in
            # place) of every injection point: a start is independent of earlier starts, the scenario must look as always
            "foreign": foreign_first(scn, True),
            # one scenario in six has ANOTHER App started between its start and its lookups (which create its lazy
            # components), over fresh instances of every other component: two Apps of one process share nothing
            "later": later_app(scn, True),
            # one scenario in three ends with Factory.GetComponents(): every component in name order through the same
            # path as a lookup by name
            "bulk": bool(scn.setdefault("bulk", scn["id"] % 3 == 1))}


def later_app(scn, keep=False):
    f = bool(scn.get("later", scn["id"] % 6 == 2))
    if keep:
        scn["later"] = f
    return f


def foreign_first(scn, keep=False):
    f = bool(scn.get("foreign", scn["id"] % 4 == 1))
    if keep:
        scn["foreign"] = f       # part of the scenario from now on: replays and shrunk variants run the same way
    return f


# ------------------------------------------------------------------------------------------------
# Coq rendering

def _opt(x, f=str):
    return "None" if x is None else "(Some %s)" % f(x)


class Ids:
    def __init__(self):
        self.q = {}
        self.m = {}
        self.r = {"*": 0}

    def qual(self, s):
        return self.q.setdefault(s, len(self.q) + 1)

    def meth(self, s):
        return self.m.setdefault(s, len(self.m))

    def ret(self, s):
        return self.r.setdefault(s, len(self.r))


def coq_point(scn, p, rank, ids):
    t = p["target"]
    tgt = {"ptr": lambda: "(TPtr %d)" % t[1], "iface": lambda: "(TIface %d)" % t[1], "any": lambda: "TAny",
           "other": lambda: "TOther", "app": lambda: "(TPtr %d)" % APP_TYPE}[t[0]]()
    sel = p["sel"]
    if sel[0] == "type":
        s = "SByType"
    elif sel[0] == "name":
        s = "(SByName %s)" % _opt(rank.get(sel[1]))
    else:
        rets = None if sel[2] is None else vlib.coq_list(str(ids.ret(r)) for r in sel[2])
        s = "(SFunc %d %s)" % (ids.meth(sel[1]), _opt(rets))
    quals = None if p["quals"] is None else vlib.coq_list(str(ids.qual(q)) for q in p["quals"])
    return "(mkPoint %s %s %s %s %s)" % (vlib.coq_bool(p["slice"]), tgt, s, _opt(quals), vlib.coq_bool(p["required"]))


def coq_pclass(cls, o):
    return {"P": "(Prio %s)" % vlib.coq_z(o), "O": "(Ord %s)" % vlib.coq_z(o), "U": "Unord", "M": "Unord"}[cls]


def coq_scenario(scn, facts, oracle=None):
    """returns (coq term of type scenario, rank dict, sorted names)"""
    srt, rank = rank_names(scn, facts)
    ids = Ids()
    sid = scn["id"]
    by_rank = {}
    app_rank = None
    for bi, f in enumerate(facts):
        r = rank[f["name"]]
        if f["isapp"]:
            app_rank = r
            pts = [
                "(mkPoint true (TIface %d) SByType None false)" % IRUN,
                "(mkPoint true (TIface %d) SByType None false)" % ICLOSE,
            ]
            by_rank[r] = "(mkComp %d [] false None false false [] %s [] None None None false None)" % (
                APP_TYPE, vlib.coq_list(pts))
            continue
        kind = BUILTIN_KINDS.get(f["name"].rsplit("/", 1)[-1])
        if kind is None:
            raise FactsChanged("unknown built-in component " + f["name"])
        if f["cls"] == "-":
            raise FactsChanged("built-in %s is not a post processor" % f["name"])
        by_rank[r] = "(mkComp %d [] false None false %s [] [] [] None None None false (Some (%s, PBuiltin %s)))" % (
            9000 + bi, vlib.coq_bool(f["lazy"]), coq_pclass(f["cls"], f["ord"]), kind)
    if app_rank is None:
        raise FactsChanged("App is not registered")
    for ci, c in enumerate(scn["comps"]):
        t = scn["types"][c["type"]]
        r = rank[regname_of(scn, ci)]
        ifaces = list(t["ifaces"]) + ([IRUN] if t["runner"] else []) + ([ICLOSE] if t["closer"] else [])
        alias = t["naming"] and c["name"] != ""
        qual = ids.qual(c["qual"]) if t["qual"] else None
        methods = vlib.coq_list("(%d, %s)" % (ids.meth(m), _opt(ids.ret(c["rets"][m]) if hr else None))
                                for m, hr in t["methods"])
        points = vlib.coq_list(coq_point(scn, p, rank, ids) for p in t["fields"])
        cps = vlib.coq_list("(mkCPoint %s %s %s)" % (vlib.coq_bool(cp["prefix"]), vlib.coq_bool(cp["required"]),
                                                      vlib.coq_bool(cp["sat"])) for cp in t["cfields"])
        aps = _opt(vlib.coq_bool(c["apsFail"])) if t["aps"] else "None"
        init = _opt(vlib.coq_bool(c["initFail"])) if t["init"] else "None"
        runner = "(Some (%s, %s))" % (coq_pclass(t["runner"], c["ord"]), vlib.coq_bool(c["runFail"])) if t["runner"] else "None"
        proc = "None"
        if t["proc"]:
            em = {0: "ENone", 1: "EFresh"}
            am = {0: "ANone", 1: "AFresh", 2: "AEarlyIfAny", 3: "AEarlyElseFresh"}
            early = vlib.coq_list("(%d, %s)" % (rank[regname_of(scn, k)], em[v]) for k, v in c["proc"]["early"].items())
            after = vlib.coq_list("(%d, %s)" % (rank[regname_of(scn, k)], am[v]) for k, v in c["proc"]["after"].items())
            proc = "(Some (%s, PUser %s %s))" % (coq_pclass(t["proc"], c["ord"]), early, after)
        by_rank[r] = "(mkComp %d %s %s %s %s %s %s %s %s %s %s %s %s %s)" % (
            c["type"], vlib.coq_list(map(str, ifaces)), vlib.coq_bool(alias), _opt(qual), vlib.coq_bool(t["primary"]),
            vlib.coq_bool(t["lazy"]), methods, points, cps, aps, init, runner, vlib.coq_bool(t["closer"]), proc)
    pop = vlib.coq_list(by_rank[r] for r in range(len(srt)))
    faults = []
    ph = {0: "PhBefore", 1: "PhAfter", 2: "PhEarly"}
    for ci, c in enumerate(scn["comps"]):
        if c["proc"] is not None:
            for p, k in c["proc"]["faults"]:
                faults.append("(%d, %s, %d)" % (rank[regname_of(scn, ci)], ph[p], rank[regname_of(scn, k)]))
    orc = vlib.coq_list(map(str, oracle)) if oracle is not None else "[]"
    term = "(mkScn %s %s %s (Some (%d, 0, 1)) %s)" % (pop, vlib.coq_list(faults), vlib.coq_bool(scn["loaderFail"]),
                                                     app_rank, orc)
    return term, rank, srt


class FactsChanged(Exception):
    pass


def coq_ver(tok):
    if tok["p"] >= 0:
        return "(VProxy %d %d)" % (tok["o"], tok["p"])
    return "(VOrig %d)" % tok["o"]


def coq_event(e):
    k = e["k"]
    if k == "early":
        return "(EvEarly %d %d)" % (e["p"], e["c"])
    if k == "before":
        return "(EvBefore %d %d %s)" % (e["p"], e["c"], vlib.coq_list(vlib.coq_bool(b) for b in (e.get("snap") or [])))
    if k == "aps":
        return "(EvAPS %d)" % e["c"]
    if k == "init":
        return "(EvInit %d)" % e["c"]
    if k == "after":
        return "(EvAfter %d %d)" % (e["p"], e["c"])
    if k == "run":
        return "(EvRun %d)" % e["c"]
    raise ValueError(k)


def coq_rop(e):
    """one recorded registry call -> rop"""
    n = e["n"] if e["n"] >= 0 else 4999
    v = e.get("v")
    ver = None
    if v is not None:
        ver = coq_ver(v) if v["o"] >= 0 else "(VOrig 4999)"
    op = e["op"]
    if op == "g":
        return "(OGet %d %s %s)" % (n, vlib.coq_bool(e.get("e", False)), "(Some %s)" % ver if ver else "None")
    if op == "b":
        return "(OBegin %d)" % n
    if op == "af":
        return "(OAddFactory %d %d)" % (n, n)
    if op == "eo":
        return "(OEndOk %d %s)" % (n, ver or "(VOrig 4999)")
    if op == "ee":
        return "(OEndErr %d)" % n
    if op == "as":
        return "(OAddSingleton %d %s)" % (n, ver or "(VOrig 4999)")
    if op == "rm":
        return "(ORemove %d)" % n
    raise ValueError(op)


def coq_obs(res, app_rank=None):
    oc = {"ok": "OOk", "err": "OErr", "panic": "OPanic"}.get(res["outcome"], "OOther")
    log = vlib.coq_list(coq_event(e) for e in (res.get("log") or []))
    fields = []
    weird = False
    for f in res.get("fields") or []:
        if f["h"] == app_rank and f["k"] == 0:
            continue            # App.ApplicationRunners is cleared by callRunners
        vs = []
        for t in f["v"] or []:
            if t["o"] < 0:
                weird = True
                vs.append("(VOrig 4999)")
            else:
                vs.append(coq_ver(t))
        fields.append("((%d, %d), %s)" % (f["h"], f["k"], vlib.coq_list(vs)))
    lks = []
    for lo in res.get("lookups") or []:
        if lo["panic"]:
            lks.append("LTPanic")
        elif lo["err"]:
            lks.append("LTErr")
        elif lo["tok"]["o"] < 0:
            lks.append("(LTVer (VOrig 4999))")
        else:
            lks.append("(LTVer %s)" % coq_ver(lo["tok"]))
    la = vlib.coq_list(coq_event(e) for e in (res.get("logafter") or []))
    ops = "None"
    if res.get("traced"):
        ops = "(Some (%s, %s))" % (vlib.coq_list(coq_rop(e) for e in (res.get("trace") or [])),
                                   vlib.coq_list(coq_rop(e) for e in (res.get("traceaft") or [])))
    bulk = "None"
    if res.get("bulkdone"):
        bl = []
        for lo in res.get("bulk") or []:
            if lo["panic"]:
                bl.append("LTPanic")
            elif lo["err"]:
                bl.append("LTErr")
            elif lo["tok"]["o"] < 0:
                bl.append("(LTVer (VOrig 4999))")
            else:
                bl.append("(LTVer %s)" % coq_ver(lo["tok"]))
        bulk = "(Some %s)" % vlib.coq_list(bl)
    return "(mkObs %s %s %s %s %s %s %s)" % (oc, log, vlib.coq_list(fields), vlib.coq_list(lks), la, ops, bulk)


def coq_extras(scn, rank):
    shorts, gets = [], []
    for ci, c in enumerate(scn["comps"]):
        r = rank[regname_of(scn, ci)]
        if c.get("proc") and c["proc"].get("short"):
            shorts += ["(%d, %d)" % (r, rank[regname_of(scn, k)]) for k in c["proc"]["short"]]
        if c.get("initGet"):
            gets.append("(%d, %s)" % (r, vlib.coq_list(str(rank[regname_of(scn, k)]) for k in c["initGet"])))
    if not shorts and not gets:
        return "no_extras"
    return "(mkX %s %s)" % (vlib.coq_list(shorts), vlib.coq_list(gets))


def coq_case(cid, scn, facts, res, cfg):
    term, rank, srt = coq_scenario(scn, facts)
    lk = vlib.coq_list(str(cfg["names"][n]) for n in cfg["lookups"])     # includes the unregistered names (ranks past the population)
    app_rank = [rank[f["name"]] for f in facts if f["isapp"]][0]
    return "(mkW %d %s %s %s %s)" % (cid, term, lk, coq_obs(res, app_rank), coq_extras(scn, rank))


# ------------------------------------------------------------------------------------------------
# build + run

MAIN_GO = """package main

import "verifharness/wx"

func main() { wx.Main() }
"""


def build_batch(ctx, scns, tag):
    d = os.path.join(vlib.HARNESS, "work", "%s-%s%s" % (ctx.id, ctx.tier, getattr(ctx, "worktag", "")), "wb_" + tag)
    if os.path.isdir(d):
        shutil.rmtree(d)
    os.makedirs(d)
    open(os.path.join(d, "main.go"), "w").write(MAIN_GO)
    chunk = 50
    for i in range(0, len(scns), chunk):
        body = "package main\n\nimport \"verifharness/wx\"\n" + FOREIGN_IMPORTS + "\nvar _ = wx.Ctors\n\n" + "\n".join(gen_go(s) for s in scns[i:i + chunk])
        open(os.path.join(d, "types_%d.go" % (i // chunk)), "w").write(body)
    rel = "./" + os.path.relpath(d, vlib.HARNESS)
    return vlib.go_build(ctx, rel, out=ctx.wpath("wb_%s.bin" % tag))


_FACTS = {}


def get_facts(ctx, binp):
    key = ctx.repo
    if key in _FACTS:
        return _FACTS[key]
    rc, out = vlib.sh([binp, "-facts"], timeout=60)
    facts = None
    for ln in out.splitlines():
        if ln.startswith("@@FACTS "):
            facts = json.loads(ln[8:])
    if facts is None:
        raise vlib.GoBuildError("facts", out[-2000:])
    _FACTS[key] = facts
    return facts


def _limit_memory():
    # a changed tree may re-create components without bound (a start that eats tens of GB before the case
    # timeout fires): cap the worker's address space, so that it dies alone and the scenario counts as a crash
    import resource
    gb = int(os.environ.get("VERIF_WORKER_AS_GB", "6"))
    resource.setrlimit(resource.RLIMIT_AS, (gb << 30, gb << 30))


def run_batch(ctx, binp, cfgs, tag, case_timeout="10s"):
    """one scenario in four runs in a process whose container logger formats every message (as under a debug log level:
    the library caches its loggers per process, so verbosity is a property of the worker process)"""
    loud = [c for c in cfgs if c["id"] % 4 == 1]
    quiet = [c for c in cfgs if c["id"] % 4 != 1]
    res = _run_batch(ctx, binp, quiet, tag, case_timeout, [])
    if loud:
        res.update(_run_batch(ctx, binp, loud, tag + "_v", case_timeout, ["-verbose"]))
    return res


def _run_batch(ctx, binp, cfgs, tag, case_timeout, extra):
    """returns {scenario id: result dict}; crashes and hangs become outcomes of single scenarios"""
    inp = ctx.wpath("scn_%s.json" % tag)
    json.dump({"scenarios": cfgs}, open(inp, "w"))
    results = {}
    start = 0
    restarts = 0
    while start < len(cfgs):
        p = subprocess.run([binp, "-input", inp, "-from", str(start), "-case-timeout", case_timeout] + extra,
                           stdout=subprocess.PIPE, stderr=subprocess.PIPE, timeout=3600, preexec_fn=_limit_memory)
        last_started = None
        done = False
        for ln in p.stdout.decode("utf-8", "replace").splitlines():
            if ln.startswith("@@START "):
                last_started = json.loads(ln[8:])
            elif ln.startswith("@@CASE "):
                r = json.loads(ln[7:])
                results[r["id"]] = r
            elif ln.startswith("@@DONE"):
                done = True
        if done:
            break
        restarts += 1
        if last_started is None:
            raise vlib.GoBuildError("scenario runner", (p.stderr.decode("utf-8", "replace"))[-2000:])
        if last_started["id"] not in results:
            tail = p.stderr.decode("utf-8", "replace")
            kind = "crash"
            results[last_started["id"]] = {"id": last_started["id"], "outcome": kind,
                                           "errtext": tail[:300], "log": [], "fields": [], "lookups": []}
        start = last_started["index"] + 1
        if restarts > 25:
            # enough crashed / hung scenarios to decide; the rest of the batch is not run
            print("[wiring] scenario runner: %d crashes/hangs, remaining %d scenarios skipped" % (restarts, len(cfgs) - start), flush=True)
            break
    return results


HEADER = ("From Coq Require Import List ZArith Bool.\n"
          "From IocVerif Require Import Model.App Model.FactoryX Corr.Wiring Corr.WiringFacts %s.\nImport ListNotations.\n"
          "Notation case := wcase.\n")


def evaluate(ctx, scns, tag, check_module, defs, lookups="all", shard=150):
    """build, run, evaluate in Coq. returns (cases_by_id, coq results dict, facts)"""
    binp = build_batch(ctx, scns, tag)
    facts = get_facts(ctx, binp)
    cfgs = []
    kept = []
    for s in scns:
        cfg = runtime_cfg(s, facts, lookups)
        if cfg is None:
            continue
        cfgs.append(cfg)
        kept.append(s)
    results = run_batch(ctx, binp, cfgs, tag)
    terms = []
    by_id = {}
    for s, cfg in zip(kept, cfgs):
        res = results.get(s["id"])
        if res is None:
            continue
        terms.append(coq_case(s["id"], s, facts, res, cfg))
        by_id[s["id"]] = {"scenario": s, "observation": res, "names": cfg["names"]}
    out = vlib.coq_eval_sharded(ctx, "cases_%s_%s" % (ctx.id.lower(), tag), HEADER % check_module, terms, defs, shard=shard)
    try:
        os.remove(binp)
    except OSError:
        pass
    return by_id, out, facts


# ------------------------------------------------------------------------------------------------
# generic check runner for the wiring family

def scenario_stats(scns, by_id):
    oc = {}
    sizes = {}
    kinds = {}
    for s in scns:
        r = by_id.get(s["id"])
        if r is None:
            continue
        o = r["observation"]["outcome"]
        oc[o] = oc.get(o, 0) + 1
        n = len(s["comps"])
        sizes[n] = sizes.get(n, 0) + 1
        for t in s["types"]:
            for p in t["fields"]:
                k = p["sel"][0] + ("-slice" if p["slice"] else "") + ":" + p["target"][0]
                kinds[k] = kinds.get(k, 0) + 1
    ran = [s for s in scns if s["id"] in by_id]
    ctags = {}
    for s in ran:
        for t in s["types"]:
            for cp in t["cfields"]:
                k = "%s/%s/%s/tag spelling %s" % ("prefix" if cp["prefix"] else "value-or-prop", "required" if cp["required"] else "optional",
                                                  "configured" if cp["sat"] else "not configured", cp.get("tagv", "?"))
                ctags[k] = ctags.get(k, 0) + 1
    return {"outcomes": oc, "components_per_scenario": sizes, "point_kinds": kinds,
            "configuration_points(route/required/configured/tag spelling 0-5: see wiring.cfield_tag)": dict(sorted(ctags.items())),
            "qualifier_sets_added_by_a_user_post_processor_through_AddArg(\"qualifier\", ...)": {
                "scenarios": sum(1 for s in ran if qual_api_points(s)), "points": sum(len(qual_api_points(s)) for s in ran),
                "points_with_the_qualifier_set_in_the_tag": sum(1 for s in ran for ti, t in enumerate(s["types"]) for k, p in enumerate(t["fields"])
                                                                if p["quals"] is not None and (ti, k) not in qual_api_points(s))},
            "started_twice_on_the_same_instances": sum(1 for s in scns if s["id"] in by_id and s.get("twice", s["id"] % 5 == 4)),
            "preceded_by_another_app_whose_processor_rewrote_tag_arguments":
                sum(1 for s in scns if s["id"] in by_id and foreign_first(s)),
            "another_app_started_between_the_start_and_the_lookups":
                sum(1 for s in scns if s["id"] in by_id and later_app(s)),
            "restarted_the_same_App_value": sum(1 for s in scns if s["id"] in by_id and s.get("sameapp", s["id"] % 10 == 9)),
            "ended_with_GetComponents": sum(1 for s in scns if s["id"] in by_id and s.get("bulk", s["id"] % 3 == 1))}


def shape_hash(s):
    return vlib.stable_hash({"types": s["types"], "comps": s["comps"], "lf": s["loaderFail"]})


def run_family(ctx, check_module, make_scenarios, rule, assumptions=None, classify_known=None, extra_corpus=None,
               post=None, extra_defs=None):
    """make_scenarios(ctx, tier, widen=False) -> list of scenarios (ids unique)."""
    static_ok = vlib.static_obligations(ctx, extra_targets=["Corr/WiringFacts.vo"])
    defs = {"M": "mismatches", "V": "violations", "NT": "count_nontrivial",
            "F_US": "count_unstaged", "F_UNS": "count_unsettled_w", "F_PP": "count_pointed_procs_w"}
    defs.update(extra_defs or {})
    if ctx.replay:
        r = json.load(open(ctx.replay))
        scns = [r["case"]["scenario"]]
    else:
        scns = list(extra_corpus or []) + make_scenarios(ctx, ctx.tier)
        for i, s in enumerate(scns):
            s["id"] = i
    by_id, out, facts = evaluate(ctx, scns, "main", check_module, defs)
    M, V, nt = out["M"], out["V"], sum(out["NT"])
    st = scenario_stats(scns, by_id)
    ctx.log("cases=%d mismatches=%d violations=%d nontrivial=%d outcomes=%s" % (len(by_id), len(M), len(V), nt, st["outcomes"]))
    size = lambda i: len(by_id[i]["scenario"]["comps"]) if i in by_id else 0
    M.sort(key=size)
    V.sort(key=size)

    def widen():
        more = make_scenarios(ctx, "widen" if ctx.quick() else "widen2")
        for i, s in enumerate(more):
            s["id"] = i
        b2, o2, _ = evaluate(ctx, more, "widen", check_module, defs)
        return [b2[i] for i in sorted(o2["V"], key=lambda i: len(b2[i]["scenario"]["comps"]))[:3]]

    def shrink(case):
        return shrink_scenario(ctx, case, check_module)

    distinct = len({shape_hash(s) for s in scns})
    samples = [by_id[i] for i in sorted(by_id)[:1]]
    cov = {
        "evaluations": len(by_id),
        "distinct_nontrivial": min(nt, distinct),
        "rule": rule,
        "samples": samples,
        "traces_validated_against_impl": len(by_id),
        "input_distribution": st,
        "nontrivial_cases": nt,
        "distinct_cases": distinct,
    }
    # instantiated obligations: side conditions of the run-level theorems on the facts of this run
    us, uns, pp = sum(out.get("F_US", [0])), sum(out.get("F_UNS", [0])), sum(out.get("F_PP", [0]))
    ctx.oblige("facts: stages_ok_b (sorted built-in pipeline = props, value, wire, func, further-matching) on every scenario",
               us == 0, "%d scenarios" % us)
    ctx.oblige("facts: settled_b (further-matching after candidate collection) on every scenario", uns == 0, "%d scenarios" % uns)
    cov["instantiated_obligations"] = {"unstaged": us, "unsettled": uns, "scenarios_with_pointed_processors": pp}
    if us or uns:
        ctx.facts_broken = True
    if post:
        try:
            post(ctx, by_id, cov, out)
        except TypeError:
            post(ctx, by_id, cov)
    rc = vlib.decide(ctx, static_ok and not getattr(ctx, "facts_broken", False), by_id, M, V, cov,
                     classify_known=classify_known, widen=widen, shrink=shrink, assumptions=assumptions)
    return rc


def shrink_scenario(ctx, case, check_module, rounds=5):
    """greedy: drop fields / components while the oracle still fails"""
    import copy
    cur = case
    defs = {"V": "violations"}
    for _ in range(rounds):
        s = cur["scenario"]
        cands = []
        for ti, t in enumerate(s["types"]):
            for k in range(len(t["fields"])):
                c = copy.deepcopy(s)
                del c["types"][ti]["fields"][k]
                cands.append(c)
            for k in range(len(t["cfields"])):
                c = copy.deepcopy(s)
                del c["types"][ti]["cfields"][k]
                cands.append(c)
        for ci in range(len(s["comps"])):
            c = drop_comp(s, ci)
            if c is not None:
                cands.append(c)
        if not cands:
            return cur
        for i, c in enumerate(cands):
            c["id"] = i
        try:
            b2, o2, _ = evaluate(ctx, cands, "shrink", check_module, defs)
        except Exception:
            return cur
        if not o2["V"]:
            return cur
        cur = b2[min(o2["V"], key=lambda i: len(json.dumps(b2[i]["scenario"])))]
    return cur


def drop_comp(s, ci):
    """remove component instance ci if nothing names it by index (processor tables) — types stay"""
    import copy
    c = copy.deepcopy(s)
    for comp in c["comps"]:
        if comp["proc"] is not None:
            for tab in ("early", "after"):
                if ci in comp["proc"][tab] or str(ci) in comp["proc"][tab]:
                    return None
            if any(k == ci for _, k in comp["proc"]["faults"]):
                return None
    del c["comps"][ci]

    def remap(k):
        return k - 1 if k > ci else k
    for comp in c["comps"]:
        if comp["proc"] is not None:
            comp["proc"]["early"] = {remap(int(k)): v for k, v in comp["proc"]["early"].items()}
            comp["proc"]["after"] = {remap(int(k)): v for k, v in comp["proc"]["after"].items()}
            comp["proc"]["faults"] = [(ph, remap(k)) for ph, k in comp["proc"]["faults"]]
    c["regorder"] = list(range(len(c["comps"])))
    return c


def std_scenarios(profiles):
    """profiles: list of (Profile, quick count, thorough count)"""
    def make(ctx, tier):
        scns = []
        for pf, nq, nt in profiles:
            n = {"quick": nq, "thorough": nt, "widen": nq * 3, "widen2": nt * 2}[tier]
            for _ in range(n):
                scns.append(gen_scenario(ctx.rng, len(scns), pf))
        return scns
    return make
