#!/usr/bin/env python3
"""Confirm a seeded change and run the checks against it.

usage: seedtest.py <seed out dir> <k> <name> [CHECK ...]
  <seed out dir>/patch<k>.diff, demo<k>_test.go, meta<k>.json  (written by an independent sub-agent)
Steps (all in a scratch worktree of /repo HEAD under /tmp, removed afterwards):
  1. patch applies; go build ./...; the whole existing suite passes with the patch
  2. the demonstration fails with the patch and passes without it
  3. VERIF_REPO=<scratch> python3 tools/check.py <CHECK> --tier quick   for each CHECK (default: the property of the seed)
Result: /verif/seeded/<name>/{patch.diff, demo_test.go, meta.json}
"""
import json, os, shutil, subprocess, sys, time

V = os.path.dirname(os.path.dirname(os.path.abspath(__file__)))
ENV = dict(os.environ, GOFLAGS="-mod=mod", GOPROXY="off", GOSUMDB="off", GOTOOLCHAIN="local")


def sh(cmd, cwd=None, env=None, timeout=1800):
    p = subprocess.run(cmd, shell=True, cwd=cwd, env=env or ENV, stdout=subprocess.PIPE, stderr=subprocess.STDOUT, timeout=timeout)
    return p.returncode, p.stdout.decode("utf-8", "replace")


def main():
    if sys.argv[1] == "--again":
        # re-run a kept seed: seedtest.py --again <name> [--src <dir holding seeded/>] [CHECK ...]
        name = sys.argv[2]
        rest = sys.argv[3:]
        src = V
        if rest[:1] == ["--src"]:
            src, rest = rest[1], rest[2:]
        sd = os.path.join(src, "seeded", name)
        old = json.load(open(os.path.join(sd, "meta.json")))
        meta = {"property": old["property"], "summary": old.get("summary"), "needs": old.get("needs"),
                "files": old.get("files"), "ran": old.get("agent_ran")}
        checks = rest or sorted(set([old["property"]] + list(old.get("checks", {}))))
        import tempfile
        tmp = tempfile.mkdtemp(prefix="seedagain_")
        patch = os.path.join(tmp, "patch.diff")
        demo = os.path.join(tmp, "demo_test.go")
        shutil.copy(os.path.join(sd, "patch.diff"), patch)
        shutil.copy(os.path.join(sd, "demo_test.go"), demo)
        demo_dir = old.get("demo_dir", "seeddemo")
    else:
        out, k, name = sys.argv[1], sys.argv[2], sys.argv[3]
        meta = json.load(open(os.path.join(out, "meta%s.json" % k)))
        checks = sys.argv[4:] or [meta["property"]]
        patch = os.path.join(out, "patch%s.diff" % k)
        demo = os.path.join(out, "demo%s_test.go" % k)
        demo_dir = "seeddemo%s" % k       # the directory the reviewer used: some demonstrations mention their package path
    wt = "/tmp/wt_seed_%s" % name
    sh("git -C /repo worktree remove --force %s" % wt)
    rc, o = sh("git -C /repo worktree add --detach %s" % wt)
    assert rc == 0, o
    res = {"property": meta["property"], "summary": meta.get("summary"), "needs": meta.get("needs"),
           "files": meta.get("files"), "agent_ran": meta.get("ran"), "demo_dir": demo_dir, "confirmed": {}, "checks": {}}
    try:
        ddir = os.path.join(wt, demo_dir)
        os.makedirs(ddir)
        shutil.copy(demo, os.path.join(ddir, "demo_test.go"))
        rc0, o0 = sh("go test -vet=off -count=1 ./%s/..." % demo_dir, cwd=wt)
        res["confirmed"]["demo_passes_without_change"] = rc0 == 0
        rc, o = sh("git apply %s" % patch, cwd=wt)
        res["confirmed"]["patch_applies"] = rc == 0
        rc, o = sh("go build ./...", cwd=wt)
        res["confirmed"]["builds"] = rc == 0
        rc1, o1 = sh("go test -vet=off -count=1 ./%s/..." % demo_dir, cwd=wt)
        res["confirmed"]["demo_fails_with_change"] = rc1 != 0
        shutil.rmtree(ddir)
        rc, o = sh("go test -vet=off -count=1 ./...", cwd=wt)
        res["confirmed"]["existing_suite_passes_with_change"] = rc == 0
        if rc != 0:
            res["confirmed"]["suite_output"] = o[-1500:]
        for c in checks:
            t0 = time.time()
            rc, o = sh("python3 tools/check.py %s --tier quick" % c, cwd=V, env=dict(ENV, VERIF_REPO=wt, VERIF_WORKTAG="-" + name), timeout=3000)
            lines = [l for l in o.splitlines() if l.startswith("VIOLATION") or l.startswith("KNOWN-FINDING")]
            res["checks"][c] = {"rc": rc, "lines": lines, "wall_s": round(time.time() - t0, 1),
                                "cmd": "VERIF_REPO=%s python3 tools/check.py %s --tier quick" % (wt, c)}
            # keep the replay next to the seed
            for l in lines:
                if "replay=" in l:
                    rp = l.split("replay=")[1].split()[0]
                    if os.path.exists(rp):
                        d = os.path.join(V, "seeded", name)
                        os.makedirs(d, exist_ok=True)
                        shutil.copy(rp, os.path.join(d, "replay_%s.json" % c))
    finally:
        sh("git -C /repo worktree remove --force %s" % wt)
        # per-seed work directories (VERIF_WORKTAG) are only needed while the check runs
        import glob
        for d in glob.glob(os.path.join(V, "work", "*-" + name)) + glob.glob(os.path.join(V, "harness", "work", "*-" + name)) \
                + glob.glob(os.path.join(V, "harness", "work", "*" + "-" + name)):
            shutil.rmtree(d, ignore_errors=True)
    d = os.path.join(V, "seeded", name)
    os.makedirs(d, exist_ok=True)
    shutil.copy(patch, os.path.join(d, "patch.diff"))
    shutil.copy(demo, os.path.join(d, "demo_test.go"))
    res["caught_by"] = [c for c, r in res["checks"].items() if r["rc"] == 1 and any(l.startswith("VIOLATION") for l in r["lines"])]
    json.dump(res, open(os.path.join(d, "meta.json"), "w"), indent=1)
    ok = all(v for k_, v in res["confirmed"].items() if k_ != "suite_output")
    print(name, "confirmed=%s" % ok, "caught_by=%s" % res["caught_by"], {c: r["rc"] for c, r in res["checks"].items()})


if __name__ == "__main__":
    main()
