(* C03 — No stale version survives when a post-processor substitutes a component.

   Same model as C01.  A scenario's post-processors carry arbitrary wrap tables: per component
   [EFresh] (a new proxy object when an early reference is requested) and [AFresh] / [AEarlyIfAny] /
   [AEarlyElseFresh] (a new proxy, or the early proxy again, after initialization) — early only,
   after only, both consistently, both inconsistently.  The theorem is the version invariant with
   its stack-discipline clause doing the work: when a component reaches publication it is the
   innermost creation, so every other holder of its early reference has finished and is listed
   among its dependents; the stale-dependents check therefore fires exactly when a holder exists. *)
From Coq Require Import List Arith Bool ZArith.
From IocVerif Require Import Model.App Proofs.FactoryInvariant.
Import ListNotations.

(* after a successful start every holder and the lookup see the one published version,
   for every graph, every set of wrapped components and every wrap timing *)
Theorem c03_no_stale : forall s st,
  run repaired s = Ok st ->
  forall h k v, In v (field_of st h k) -> alookup (owner v) (L1 (reg st)) = Some v.
Proof. intros s st H h k v. exact (run_published (P:=anyk) repaired s st eq_refl H h k v I). Qed.

(* the same read the other way round: if some holder has been handed a version that differs from
   what the lookup returns, the start did not succeed *)
Theorem c03_mixed_fails : forall s,
  (forall st, run repaired s = Ok st ->
     exists h k v, In v (field_of st h k) /\ alookup (owner v) (L1 (reg st)) <> Some v) ->
  forall st, run repaired s <> Ok st.
Proof.
  intros s Hmix st H. destruct (Hmix st H) as [h [k [v [Hv Hne]]]].
  apply Hne. eapply c03_no_stale; eauto.
Qed.

(* the only premise the proof needs from the code is that the stale-dependents check does not exempt
   the component itself: it holds for every variant with that repair *)
Theorem c03_no_stale_any_variant : forall vt s st,
  fix_c03 vt = true -> run vt s = Ok st ->
  forall h k v, In v (field_of st h k) -> alookup (owner v) (L1 (reg st)) = Some v.
Proof. intros vt s st Hf H h k v. exact (run_published (P:=anyk) vt s st Hf H h k v I). Qed.

(* the unrepaired tree violates it: a component that holds its own early proxy (through a slice of an
   interface it implements) and is wrapped into a different proxy after initialization starts
   successfully with two versions *)
Definition ex_pop3 : population :=
  [ mkComp 100 [] false None false true [] [] [] None None None false (Some (Ord 2, PBuiltin BWire));
    mkComp 101 [] false None false true [] [] [] None None None false (Some (Ord 4, PBuiltin BFurther));
    mkComp 102 [] true None false false [] [] [] None None None false (Some (Unord, PUser [(3, EFresh)] [(3, AFresh)]));
    mkComp 0 [0] false None false false [] [mkPoint true (TIface 0) SByType None false] [] None None None false None ].
Definition ex_scn3 : scenario := mkScn ex_pop3 [] false None [0; 1; 2; 3].

Theorem c03_no_stale_refuted :
  exists st, run unrepaired ex_scn3 = Ok st
             /\ field_of st 3 0 = [VProxy 3 0] /\ alookup 3 (L1 (reg st)) = Some (VProxy 3 1).
Proof. eexists. vm_compute. repeat split. Qed.

(* non-vacuity on the repaired tree: a component on a cycle wrapped when its early reference is taken
   and left alone after initialization: the start succeeds and the holder sees the proxy that is
   published.  When the processor hands back a proxy after initialization as well (a fresh one, or even
   the early one again: the container compares its own wrappers, not the objects), the start fails. *)
Definition ex_pop3b (after : after_mode) : population :=
  [ mkComp 100 [] false None false true [] [] [] None None None false (Some (Ord 2, PBuiltin BWire));
    mkComp 101 [] false None false true [] [] [] None None None false (Some (Ord 4, PBuiltin BFurther));
    mkComp 102 [] true None false false [] [] [] None None None false (Some (Unord, PUser [(3, EFresh)] [(3, after)]));
    mkComp 0 [0] false None false false [] [mkPoint false (TIface 1) SByType None true] [] None None None false None;
    mkComp 1 [1] false None false false [] [mkPoint false (TIface 0) SByType None true] [] None None None false None ].

Example c03_example_early_only :
  match run repaired (mkScn (ex_pop3b ANone) [] false None []) with
  | Ok st => field_of st 4 0 = [VProxy 3 0] /\ alookup 3 (L1 (reg st)) = Some (VProxy 3 0)
  | Fail _ _ => False
  end.
Proof. vm_compute. split; reflexivity. Qed.

Example c03_example_inconsistent :
  match run repaired (mkScn (ex_pop3b AFresh) [] false None []),
        run repaired (mkScn (ex_pop3b AEarlyIfAny) [] false None []) with
  | Fail (FErr EStale) _, Fail (FErr EStale) _ => True
  | _, _ => False
  end.
Proof. vm_compute. exact I. Qed.

(* ---- extended semantics (Model/FactoryX.v) --------------------------------------------------------------- *)
From IocVerif Require Import Model.FactoryX Proofs.FactoryXInv.

(* with short-circuiting post-processors and Init methods that call back into the factory, every INJECTION
   POINT (index below 100) still holds the one published version after a successful start *)
Theorem c03_no_stale_extended : forall vt s x o st,
  fix_c03 vt = true -> run_xt vt s x = (o, Ok st) ->
  forall h k v, k < 100 -> In v (field_of st h k) -> alookup (owner v) (L1 (reg st)) = Some v.
Proof. intros vt s x o st Hf H. exact (run_xt_published vt s x o st Hf H). Qed.

(* ... and why the statement stops at injection points (observation O-C03a of DESIGN.md 0.4): what an Init method
   obtains by LOOKING a component up is not recorded as a dependency, so the stale-dependents check cannot see
   the taker.  Component 3's Init looks up component 2, which is in creation (2 is wired with 3): it gets the raw
   early reference; processor 4 then wraps 2 after initialization; the start succeeds, 2 is published as the
   proxy and 3 keeps the superseded reference in its pseudo-field 100. *)
Definition ex_scn3x : scenario :=
  mkScn [ mkComp 100 [] false None false true [] [] [] None None None false (Some (Ord 2, PBuiltin BWire));
          mkComp 101 [] false None false true [] [] [] None None None false (Some (Ord 4, PBuiltin BFurther));
          mkComp 0 [] false None false false [] [mkPoint false (TPtr 1) SByType None true] [] None None None false None;
          mkComp 1 [] false None false false [] [] [] None (Some false) None false None;
          mkComp 7 [] false None false false [] [] [] None None None false (Some (Unord, PUser [] [(2, AFresh)])) ]
        [] false None [].

Theorem c03x_init_lookup_keeps_early_reference :
  exists o st, run_xt repaired ex_scn3x (mkX [] [(3, [2])]) = (o, Ok st)
               /\ field_of st 3 100 = [VOrig 2] /\ field_of st 2 0 = [VOrig 3]
               /\ alookup 2 (L1 (reg st)) = Some (VProxy 2 0).
Proof. eexists. eexists. vm_compute. repeat split. Qed.
