(* C08 — Qualifier and Primary narrowing applies to every field independently.

   Model: Model/Resolve.v.  [further_loop] is the loop of the further-matching processor over
   the holder's component properties WITH its control flow (it is not a per-field function
   assumed independent); [further_one] is what the property promises for one field on its own;
   [filter_dependencies] = nil removal, holder removal, qualifier filter, single-point ranking.
   Quantified over all populations (arbitrary qualifier / primary / naming attributes), all
   qualifier sets, all field lists of a holder (optional fields without candidates anywhere),
   all candidate lists (hence all iteration orders). *)
From Coq Require Import List Arith Bool Lia.
From IocVerif Require Import Model.Registry Model.Resolve Proofs.ResolveProofs.
Import ListNotations.

(* every field's result is that of the field taken alone: no field's outcome depends on the other
   fields of the holder or on how they resolved *)
Theorem c08_independent : forall pop h ps inj out,
  further_loop repaired pop h ps inj = LOk out ->
  forall i p x, nth_error ps i = Some p -> nth_error inj i = Some x ->
    exists r, further_one repaired pop h p x = Some r /\ nth_error out i = Some r.
Proof.
  intros pop h ps inj out Hl i p x Hp Hx.
  rewrite (further_loop_pointwise repaired pop h ps eq_refl) in Hl.
  destruct (pointwise repaired pop h ps inj) as [o|] eqn:E; [|discriminate].
  inversion Hl; subst o. eapply pointwise_nth; eauto.
Qed.

(* the loop fails exactly when some field on its own fails (a required field without candidates) *)
Theorem c08_loop_fails_iff : forall pop h ps inj,
  length ps = length inj ->
  (further_loop repaired pop h ps inj = LErr <->
   exists i p x, nth_error ps i = Some p /\ nth_error inj i = Some x
                 /\ further_one repaired pop h p x = None).
Proof.
  intros pop h ps inj Hlen. split.
  - intros Hl. rewrite (further_loop_pointwise repaired pop h ps eq_refl) in Hl.
    destruct (pointwise repaired pop h ps inj) eqn:E; [discriminate|].
    apply (pointwise_none repaired pop h ps inj Hlen E).
  - intros [i [p [x [Hp [Hx Hn]]]]].
    destruct (further_loop_total repaired pop h ps inj eq_refl) as [[out Ho]|He]; [|exact He].
    destruct (c08_independent pop h ps inj out Ho i p x Hp Hx) as [r [Hr _]]. congruence.
Qed.

(* on the unrepaired tree the statement is false: an optional field without candidates placed first
   leaves the second field's wrongly qualified candidate in place *)
Definition ex_pop8 : population :=
  [ mkComp 0 [0] false (Some 1) false false [] [] [] None None None false None;   (* qualifier 1 *)
    mkComp 1 [] false None false false [] [] [] None None None false None ].     (* the holder *)
Definition ex_ps8 : list point :=
  [ mkPoint false (TIface 7) SByType None false;            (* optional, nobody implements I7 *)
    mkPoint false (TIface 0) SByType (Some [2]) false ].    (* wants qualifier 2 *)

Theorem c08_independent_refuted :
  exists out, further_loop unrepaired ex_pop8 1 ex_ps8 [[]; [Some 0]] = LOk out
              /\ nth_error out 1 = Some [Some 0]
              /\ further_one unrepaired ex_pop8 1 (mkPoint false (TIface 0) SByType (Some [2]) false) [Some 0] = Some [].
Proof. eexists. vm_compute. repeat split. Qed.

Example c08_independent_example :
  further_loop repaired ex_pop8 1 ex_ps8 [[]; [Some 0]] = LOk [[]; []].
Proof. vm_compute. reflexivity. Qed.

(* only components whose declared qualifier is in the requested set are ever proposed, for single
   values and for every slice element *)
Theorem c08_qualifier : forall pop h p inj l qs,
  filter_dependencies repaired pop h p inj = FOk l -> pt_quals p = Some qs ->
  forall n, In n l -> qual_ok pop qs n = true.
Proof.
  intros pop h p inj l qs Hf Hq n Hin.
  rewrite filter_dependencies_repaired in Hf by reflexivity.
  destruct (survivors pop h p inj) as [|a r] eqn:E; [discriminate|].
  assert (Hs : In n (survivors pop h p inj)).
  { rewrite E. cbv zeta in Hf. injection Hf as Hf. subst l.
    destruct (pt_slice p); [exact Hin|apply (rank_single_subset pop (a :: r) n); exact Hin]. }
  apply survivors_In in Hs. destruct Hs as [_ Ha]. unfold admitted in Ha. rewrite Hq in Ha.
  apply andb_true_iff in Ha. tauto.
Qed.

(* among several remaining candidates of a single-valued point a unique Primary wins ... *)
Theorem c08_rank_primary : forall pop h p inj x,
  pt_slice p = false ->
  2 <= length (survivors pop h p inj) ->
  filter (is_primary pop) (survivors pop h p inj) = [x] ->
  filter_dependencies repaired pop h p inj = FOk [x].
Proof.
  intros pop h p inj x Hs Hlen Hp. rewrite filter_dependencies_repaired by reflexivity. rewrite Hs.
  destruct (survivors pop h p inj) as [|a [|b r]] eqn:E; cbn [length] in Hlen; try lia.
  cbv zeta. f_equal. unfold rank_single. f_equal. eapply rank_loop_primary. exact Hp.
Qed.

(* ... otherwise a unique component without a custom name *)
Theorem c08_rank_plain : forall pop h p inj y,
  pt_slice p = false ->
  2 <= length (survivors pop h p inj) ->
  filter (is_primary pop) (survivors pop h p inj) = [] ->
  filter (fun n => negb (is_alias pop n)) (survivors pop h p inj) = [y] ->
  filter_dependencies repaired pop h p inj = FOk [y].
Proof.
  intros pop h p inj y Hs Hlen Hp Hn. rewrite filter_dependencies_repaired by reflexivity. rewrite Hs.
  destruct (survivors pop h p inj) as [|a [|b r]] eqn:E; cbn [length] in Hlen; try lia.
  cbv zeta. f_equal. unfold rank_single. f_equal. rewrite (rank_loop_plain pop _ a Hp), Hn. reflexivity.
Qed.

Definition ex_pop8b : population :=
  [ mkComp 0 [0] true None false false [] [] [] None None None false None;    (* custom name *)
    mkComp 1 [0] false None false false [] [] [] None None None false None;   (* plain *)
    mkComp 2 [0] true None true false [] [] [] None None None false None;     (* Primary *)
    mkComp 3 [] false None false false [] [] [] None None None false None ].  (* holder *)
Example c08_rank_example :
  filter_dependencies repaired ex_pop8b 3 (mkPoint false (TIface 0) SByType None true) [Some 0; Some 1; Some 2] = FOk [2]
  /\ filter_dependencies repaired ex_pop8b 3 (mkPoint false (TIface 0) SByType None true) [Some 0; Some 1] = FOk [1].
Proof. vm_compute. split; reflexivity. Qed.

(* ---- run level (Proofs/FactoryWiring.v): after a successful start every component found in a qualified
   field — single value or slice element — declares a qualifier of the requested set ------------------------- *)
From IocVerif Require Import Model.Factory Model.App Proofs.FactoryWiring Proofs.FactoryNoPanic.

Theorem c08_wired_qualifier : forall s st h c k p qs n,
  run repaired s = Ok st ->
  procs_pointless_b (normalise repaired s) = true -> stages_ok_b (normalise repaired s) = true ->
  alookup h (L1 (reg st)) <> None -> get_comp (s_pop s) h = Some c -> nth_error (c_points c) k = Some p ->
  pt_quals p = Some qs -> In n (map owner (field_of st h k)) -> qual_ok (s_pop s) qs n = true.
Proof.
  intros s st h c k p qs n H Hpp Hso Hpub Hc Hk Hq Hin.
  destruct (run_core_wired repaired (normalise repaired s) st eq_refl eq_refl eq_refl eq_refl Hpp Hso H h c k p Hpub Hc Hk)
    as [x [Hx Hw]].
  cbn [normalise s_pop s_oracle enum_order fix_c10 repaired] in Hx, Hw.
  pose proof (wired_point_owners _ _ _ _ _ _ n Hw Hin) as Hn.
  unfold further_one in Hx.
  destruct (filter_dependencies repaired (s_pop s) h p (candidates (names_of (s_pop s)) (s_pop s) p)) as [l|] eqn:Ef.
  - injection Hx as <-. rewrite remove_nil_map_Some in Hn. eapply c08_qualifier; eauto.
  - destruct (pt_required p); [discriminate|]. injection Hx as <-. contradiction.
Qed.

(* ---- the same at run level under the extended semantics (Model/FactoryX.v: Init methods that call back into the
   factory, post-processors that short-circuit instantiation; Proofs/FactoryXWiring.v).  Additional side conditions:
   no component has more than 100 points, the Init methods of the post-processor components issue no lookups, and
   the holder is not listed as short-circuited (such a component is not populated at all). ------------------- *)
From IocVerif Require Import Model.FactoryX Proofs.FactoryXLife Proofs.FactoryXNoPanic Proofs.FactoryXWiring.

Theorem c08_wired_qualifier_extended : forall s x o st h c k p qs n,
  small_points s -> run_xt repaired s x = (o, Ok st) ->
  procs_pointless_b (normalise repaired s) = true -> procs_quiet_b (normalise repaired s) x = true ->
  stages_ok_b (normalise repaired s) = true ->
  alookup h (L1 (reg st)) <> None -> get_comp (s_pop s) h = Some c -> never_short x h -> nth_error (c_points c) k = Some p ->
  pt_quals p = Some qs -> In n (map owner (field_of st h k)) -> qual_ok (s_pop s) qs n = true.
Proof.
  intros s x o st h c k p qs n Hsm H Hpp Hqt Hso Hpub Hc Hns Hk Hq Hin.
  destruct (run_xt_wired s x o st Hsm H Hpp Hqt Hso h c k p Hpub Hc Hns Hk) as [y0 [Hx Hw]].
  pose proof (wired_point_owners _ _ _ _ _ _ n Hw Hin) as Hn.
  unfold further_one in Hx.
  destruct (filter_dependencies repaired (s_pop s) h p (candidates (names_of (s_pop s)) (s_pop s) p)) as [l|] eqn:Ef.
  - injection Hx as <-. rewrite remove_nil_map_Some in Hn. eapply c08_qualifier; eauto.
  - destruct (pt_required p); [discriminate|]. injection Hx as <-. contradiction.
Qed.
