(* C11 — Tag scanning sees through embedded structs and touches nothing else.

   Property theorems only. Model: Model/Scan.v (component_definition/meta.go scanFields, holder.go,
   util/reflectx/range_struct.go, container/processors/default_tag_scan_definition_registry_post_processor.go,
   and reflect's read-only flags behind Value.CanSet); lemmas: Proofs/ScanProofs.v.

   All statements quantify over every struct shape: any nesting depth and arrangement of embedded
   structs (anonymous or named, by value or by pointer, tagged or not, of exported or unexported type),
   any mix of tagged, untagged, unexported and foreign-tagged fields, and every tag processor
   (its tag, its ExtractHandler kind, its Required flag) — wire, func, value (+ prop alias), prefix
   (+ ConfigurationProperties types), logger and custom tags are instances.  The frame statements carry
   [wf_comp]: sibling fields have distinct names (Go rejects a struct that violates this). *)
From Coq Require Import List String Bool.
From IocVerif Require Import Model.Scan Proofs.ScanProofs.
Import ListNotations.
Local Open Scope string_scope.
Local Open Scope list_scope.

(* A shape and its flattening (every anonymous, untagged, by-value embedded struct replaced by its
   fields, at every depth) are scanned to the same sequence of (name, tags, kind, settable, implicit
   prefix); the flattening contains no struct that would be entered, and flattening is idempotent.
   Proved by structural induction with the hand-written nested induction principle [shape_ind']. *)
Theorem c11_flatten : forall c,
  map sf_obs (scan_fields c) = map sf_obs (scan_fields (flatten_all c))
  /\ Forall (fun s => is_entered s = false) (flatten_all c)
  /\ flatten_all (flatten_all c) = flatten_all c.
Proof.
  intros c. split; [apply scan_flatten|]. split; [apply flatten_all_flat|apply flatten_all_idem].
Qed.

(* hence every tag processor derives the same properties (field, tag, value, arguments) from both *)
Theorem c11_flatten_properties : forall tp c,
  map pr_obs (properties_of tp c) = map pr_obs (properties_of tp (flatten_all c)).
Proof. exact properties_flatten. Qed.

(* Meta.Fields, exactly: the exported fields that are not themselves entered and are reached from the
   component through entered structs only — whether the embedded TYPES on the way are exported or not *)
Theorem c11_scan_exact : forall c f,
  In f (scan_fields c) <->
  exists p s, reaches c p s /\ is_entered s = false /\ shape_exported s = true /\ f = field_of p s.
Proof. exact scan_exact. Qed.

(* A tag processor receives exactly the recorded fields carrying its tag (or what its ExtractHandler
   treats as such), each once per declaration, with the tag's value and arguments (Required added when
   the processor demands it and the tag does not say) *)
Theorem c11_processor_gets_exactly : forall tp c pr,
  In pr (properties_of tp c) <->
  exists p s v args,
    reaches c p s /\ is_entered s = false /\ shape_exported s = true /\
    carries tp (shape_tags s) (shape_implicit s) = Some (v, args) /\
    pr = mkProp p (shape_name s) (tp_tag tp) v (with_required tp args).
Proof. exact processor_gets_exactly. Qed.

(* Frame: every field a processor holds a property for is a reachable, exported, not-entered field that
   some registered processor recognises; and every such field is covered. *)
Theorem c11_frame : forall procs c w,
  In w (footprint procs c) <->
  exists s, reaches c w s /\ is_entered s = false /\ shape_exported s = true /\
            recognised procs (shape_tags s) (shape_implicit s) = true.
Proof.
  intros procs c w. split; [apply frame|].
  intros (s & Hr & Hne & He & Hrec). eapply frame_complete; eassumption.
Qed.

(* ... so unexported fields, untagged fields and fields with only unrecognised tags are outside every
   write, and so is everything inside a struct that is not entered (pointer-embedded, tagged-embedded,
   named struct fields) unless that struct field itself is written *)
Theorem c11_frame_untouched : forall procs c,
  wf_comp c = true ->
  (forall w s, reaches c w s ->
     shape_exported s = false \/ recognised procs (shape_tags s) (shape_implicit s) = false ->
     ~ In w (footprint procs c))
  /\ (forall q s rest, reaches c q s -> is_entered s = false -> rest <> [] ->
        ~ In (q ++ rest) (footprint procs c)).
Proof.
  intros procs c Hwf. split.
  - intros w s. apply frame_untouched, Hwf.
  - intros q s rest. apply frame_untouched_below, Hwf.
Qed.

(* the boolean walk the oracle applies to every changed field of the implementation is true exactly on
   the footprint paths and the paths below them *)
Theorem c11_writable_at : forall procs c p,
  (writable_at procs c p = true -> exists q rest, p = q ++ rest /\ In q (footprint procs c))
  /\ (wf_comp c = true -> forall q rest, p = q ++ rest -> In q (footprint procs c) ->
        writable_at procs c p = true).
Proof.
  intros procs c p. split; [apply writable_at_sound|].
  intros Hwf q rest -> Hin. apply writable_at_complete; assumption.
Qed.

(* The VALUE a logger point receives (syslog.Pref(prefix): one shared logger per prefix) does not depend on the
   embedding arrangement: the logger points of a shape and of its flattening (field, tag value, arguments,
   received prefix) coincide, whatever the embedded types are called ([named] / [named'] : struct types with and
   without a name), for every point that does not itself ask for its position (`logger:",embed"` without a prefix
   of its own - the one documented position-dependent form, modelled as the code has it: Holder.String()); such a
   point receives exactly what the same tag yields on a field declared directly on the component
   ([logger_direct]: the tag's prefix, or the component name), and declared directly even an `embed` point does. *)
Theorem c11_logger_flatten : forall comp named named' tp c,
  map (logger_obs comp named) (filter position_free (logger_points tp c)) =
  map (logger_obs comp named') (filter position_free (logger_points tp (flatten_all c)))
  /\ (forall pr, In pr (logger_points tp c) -> position_free pr = true ->
        logger_pref comp named pr = logger_direct comp (pr_val pr))
  /\ (forall pr, In pr (logger_points tp (flatten_all c)) ->
        logger_pref comp named' pr = logger_direct comp (pr_val pr)).
Proof.
  intros comp named named' tp c. split; [apply logger_flatten|]. split.
  - intros pr _. apply logger_pref_free.
  - intros pr. apply logger_pref_direct, flatten_all_flat.
Qed.

(* ---- non-vacuity ---------------------------------------------------------------------- *)

Definition t_value v := mkTag "value" v [].
Definition t_wire := mkTag "wire" "" [].
Definition t_json := mkTag "json" "x" [].
Definition p_value := mkTP "value" HPropAlias true.
Definition p_wire := mkTP "wire" HNone true.
Definition p_prefix := mkTP "prefix" HCfgProps true.
Definition p_rec := mkTP "rec" HNone false.

(* type Root struct {
     A int `value:"1"`
     inner              // unexported embedded type: entered; its exported fields are bound
     *Ptr               // pointer-embedded: not entered
     Tagged `json:"x"`  // tagged embedded: not entered
     N Named            // named struct field: not entered
     C Cfg              // Cfg has Prefix() = "cfg": implicit prefix
   } *)
Definition ex_inner_fs : comp :=
  [Leaf "B" true [t_wire] KPtr None;
   Leaf "b" false [t_value "2"] KInt None;
   Sub "Deep" true true true [] None [Leaf "D" true [mkTag "prop" "k" [("Required", ["false"])]] KString None]].
Definition ex_inner := Sub "inner" false true true [] None ex_inner_fs.
Definition ex_comp : comp :=
  [Leaf "A" true [t_value "1"] KInt None;
   ex_inner;
   Sub "Ptr" true true false [] None [Leaf "P" true [t_value "3"] KInt None];
   Sub "Tagged" true true true [t_json] None [Leaf "T" true [t_value "4"] KInt None];
   Sub "N" true false true [] None [Leaf "Q" true [t_wire] KPtr None];
   Leaf "C" true [] KStruct (Some "cfg");
   Leaf "U" true [] KInt None;
   Leaf "F" true [t_json] KInt None].

Example c11_flatten_example :
  map sf_name (scan_fields ex_comp) = ["A"; "B"; "D"; "Ptr"; "Tagged"; "N"; "C"; "U"; "F"] /\
  map shape_name (flatten_all ex_comp) = ["A"; "B"; "b"; "D"; "Ptr"; "Tagged"; "N"; "C"; "U"; "F"] /\
  map sf_obs (scan_fields ex_comp) = map sf_obs (scan_fields (flatten_all ex_comp)).
Proof. repeat split. Qed.

Example c11_processor_example :
  map pr_obs (properties_of p_value ex_comp) =
    [("A", "value", "1", [("Required", [])]); ("D", "value", "${k}", [("Required", ["false"])])] /\
  map pr_obs (properties_of p_wire ex_comp) = [("B", "wire", "", [("Required", [])])] /\
  map pr_obs (properties_of p_prefix ex_comp) = [("C", "prefix", "cfg", [("Required", [])])] /\
  properties_of p_rec ex_comp = [].
Proof. repeat split. Qed.

Example c11_frame_example :
  wf_comp ex_comp = true /\
  footprint [p_value; p_wire; p_prefix; p_rec] ex_comp = [["A"]; ["inner"; "Deep"; "D"]; ["inner"; "B"]; ["C"]] /\
  writable_at [p_value; p_wire; p_prefix] ex_comp ["C"; "Host"] = true /\
  writable_at [p_value; p_wire; p_prefix] ex_comp ["inner"; "b"] = false /\
  writable_at [p_value; p_wire; p_prefix] ex_comp ["Ptr"; "P"] = false /\
  writable_at [p_value; p_wire; p_prefix] ex_comp ["Tagged"; "T"] = false /\
  writable_at [p_value; p_wire; p_prefix] ex_comp ["N"; "Q"] = false /\
  writable_at [p_value; p_wire; p_prefix] ex_comp ["U"] = false /\
  writable_at [p_value; p_wire; p_prefix] ex_comp ["F"] = false.
Proof. repeat split. Qed.

Example c11_scan_exact_example :
  reaches ex_comp ["inner"; "Deep"; "D"] (Leaf "D" true [mkTag "prop" "k" [("Required", ["false"])]] KString None) /\
  In (field_of ["inner"; "Deep"; "D"] (Leaf "D" true [mkTag "prop" "k" [("Required", ["false"])]] KString None))
     (scan_fields ex_comp).
Proof.
  split.
  - eapply reach_in; [right; left; reflexivity|].
    eapply reach_in; [right; right; left; reflexivity|].
    exact (reach_self (Leaf "D" true [mkTag "prop" "k" [("Required", ["false"])]] KString None)).
  - vm_compute. tauto.
Qed.

Example c11_flatten_properties_example :
  map pr_obs (properties_of p_value (flatten_all ex_comp)) =
    [("A", "value", "1", [("Required", [])]); ("D", "value", "${k}", [("Required", ["false"])])] /\
  map pr_path (properties_of p_value ex_comp) = [["A"]; ["inner"; "Deep"; "D"]] /\
  map pr_path (properties_of p_value (flatten_all ex_comp)) = [["A"]; ["D"]].
Proof. repeat split. Qed.

Example c11_frame_untouched_example :
  reaches ex_comp ["inner"; "b"] (Leaf "b" false [t_value "2"] KInt None) /\
  ~ In ["inner"; "b"] (footprint [p_value; p_wire; p_prefix; p_rec] ex_comp) /\
  ~ In ["Ptr"; "P"] (footprint [p_value; p_wire; p_prefix; p_rec] ex_comp).
Proof.
  split; [|split].
  - eapply reach_in; [right; left; reflexivity|].
    exact (reach_here ex_inner_fs (Leaf "b" false [t_value "2"] KInt None) (or_intror (or_introl eq_refl))).
  - vm_compute. intuition discriminate.
  - vm_compute. intuition discriminate.
Qed.

(* type Comp struct { L Logger `logger:""`; Mid }   type Mid struct { Base }
   type Base struct { L2 Logger `logger:""`; N Logger `logger:"my"`; P Logger `logger:",embed"` } *)
Definition p_logger := mkTP "logger" HNone true.
Definition ex_log_base : comp :=
  [Leaf "L2" true [mkTag "logger" "" []] KLogger None;
   Leaf "N" true [mkTag "logger" "my" []] KLogger None;
   Leaf "P" true [mkTag "logger" "" [("Embed", [""])]] KLogger None;
   Leaf "I" true [mkTag "logger" "" []] KInt None].
Definition ex_log_comp : comp :=
  [Leaf "L" true [mkTag "logger" "" []] KLogger None;
   Sub "Mid" true true true [] None [Sub "Base" true true true [] None ex_log_base]].

Example c11_logger_example :
  map (fun pr => (pr_field pr, logger_pref "pkg/Comp" true pr)) (logger_points p_logger ex_log_comp) =
    [("L", "pkg/Comp"); ("L2", "pkg/Comp"); ("N", "my"); ("P", "pkg/Comp.Embed(Mid).Embed(Base)")] /\
  map (fun pr => (pr_field pr, logger_pref "pkg/Comp" false pr)) (logger_points p_logger ex_log_comp) =
    [("L", "pkg/Comp"); ("L2", "pkg/Comp"); ("N", "my"); ("P", "pkg/Comp.Embed().Embed()")] /\
  map (fun pr => (pr_field pr, logger_pref "pkg/Comp" true pr)) (logger_points p_logger (flatten_all ex_log_comp)) =
    [("L", "pkg/Comp"); ("L2", "pkg/Comp"); ("N", "my"); ("P", "pkg/Comp")].
Proof. repeat split. Qed.
