(* C01 — One shared instance per component, seen identically by every holder.

   Model: Model/Factory.v + Model/App.v (doGetComponent / createComponent / populateComponent /
   Property.Inject / the three-level cache of Model/Registry.v / PrepareComponents / Refresh).
   A [scenario] is an arbitrary list of components with arbitrary injection points (by type, by
   interface, by name, qualified, func; single and slice), arbitrary post-processors (including
   substituting ones) and arbitrary faults; [run repaired s] is a whole start on the repaired tree.
   [field_of st h k] are the versions stored in point k of holder h (all slice elements),
   [L1 (reg st)] is the cache of published singletons, which is what GetComponentByName returns.
   The theorems quantify over ALL scenarios: every graph (chains, diamonds, fan-in through slices,
   cycles of any length), every registration order and every enumeration oracle (C10).
   Proof: the version invariant of Proofs/FactoryInvariant.v, by induction on the recursion fuel. *)
From Coq Require Import List Arith Bool ZArith.
From IocVerif Require Import Model.App Proofs.FactoryInvariant.
Import ListNotations.

(* every version stored in any single field or slice element of any holder — holders on a cycle
   with it included — is THE published version of its component *)
Theorem c01_shared_instance : forall s st,
  run repaired s = Ok st ->
  forall h k v, In v (field_of st h k) -> alookup (owner v) (L1 (reg st)) = Some v.
Proof. intros s st H. intros h k v. exact (run_published (P:=anyk) repaired s st eq_refl H h k v I). Qed.

(* ... and the by-name lookup of that component returns that same version, leaving the state alone *)
Theorem c01_lookup_agrees : forall s st,
  run repaired s = Ok st ->
  forall h k v, In v (field_of st h k) ->
  forall fuel, do_get repaired (normalise repaired s) (S fuel) st (owner v) = Ok (st, v).
Proof.
  intros s st H h k v Hv fuel. apply do_get_published. eapply c01_shared_instance; eauto.
Qed.

(* no holder ever ends up with a second copy or a different version *)
Theorem c01_no_second_copy : forall s st,
  run repaired s = Ok st ->
  forall h k v h' k' v', In v (field_of st h k) -> In v' (field_of st h' k') -> owner v = owner v' -> v = v'.
Proof.
  intros s st H h k v h' k' v' Hv Hv' Ho.
  pose proof (c01_shared_instance s st H h k v Hv) as H1.
  pose proof (c01_shared_instance s st H h' k' v' Hv') as H2.
  rewrite Ho in H1. congruence.
Qed.

(* non-vacuity: a three-component cycle through a slice with a shared provider starts and wires *)
Definition ex_pop1 : population :=
  [ mkComp 100 [] false None false true [] [] [] None None None false (Some (Ord 2, PBuiltin BWire));
    mkComp 101 [] false None false true [] [] [] None None None false (Some (Ord 4, PBuiltin BFurther));
    mkComp 0 [0] false None false false [] [mkPoint false (TPtr 1) SByType None true] [] None (Some false) None false None;
    mkComp 1 [0] false None false false [] [mkPoint true (TIface 0) SByType None true; mkPoint false (TPtr 2) SByType None true] [] None (Some false) None false None;
    mkComp 2 [] false None false false [] [mkPoint false (TIface 0) (SByName (Some 2)) None true] [] None None None false None ].
Definition ex_scn1 : scenario := mkScn ex_pop1 [] false None [].

Example c01_example :
  match run repaired ex_scn1 with
  | Ok st => field_of st 2 0 = [VOrig 3] /\ field_of st 3 0 = [VOrig 2] /\ field_of st 3 1 = [VOrig 4]
             /\ field_of st 4 0 = [VOrig 2] /\ alookup 2 (L1 (reg st)) = Some (VOrig 2)
  | Fail _ _ => False
  end.
Proof. vm_compute. repeat split. Qed.

(* ---- extended semantics (Model/FactoryX.v): post-processors that short-circuit instantiation and Init methods
   that look components up in the factory.  Injection points are the indices below 100; the indices from 100
   on are the pseudo-fields where an Init method keeps what its own lookups returned (see Properties/C03.v for
   why those are outside the statement). ---------------------------------------------------------------- *)
From IocVerif Require Import Model.FactoryX Proofs.FactoryXInv.

Theorem c01_shared_instance_extended : forall s x o st,
  run_xt repaired s x = (o, Ok st) ->
  forall h k v, k < 100 -> In v (field_of st h k) -> alookup (owner v) (L1 (reg st)) = Some v.
Proof. intros s x o st H. exact (run_xt_published repaired s x o st eq_refl H). Qed.

Theorem c01_lookup_agrees_extended : forall s x o st,
  run_xt repaired s x = (o, Ok st) ->
  forall h k v, k < 100 -> In v (field_of st h k) ->
  forall fuel, snd (do_get_xt repaired (normalise repaired s) x (S fuel) st (owner v)) = Ok (st, v).
Proof.
  intros s x o st H h k v Hk Hv fuel. apply do_get_xt_published. eapply c01_shared_instance_extended; eauto.
Qed.

Theorem c01_no_second_copy_extended : forall s x o st,
  run_xt repaired s x = (o, Ok st) ->
  forall h k v h' k' v', k < 100 -> k' < 100 ->
  In v (field_of st h k) -> In v' (field_of st h' k') -> owner v = owner v' -> v = v'.
Proof.
  intros s x o st H h k v h' k' v' Hk Hk' Hv Hv' Ho.
  pose proof (c01_shared_instance_extended s x o st H h k v Hk Hv) as H1.
  pose proof (c01_shared_instance_extended s x o st H h' k' v' Hk' Hv') as H2.
  rewrite Ho in H1. congruence.
Qed.

(* non-vacuity: component 2's Init looks the lazy component 3 up, which is wired with 2 (in creation: 3 gets the
   early reference of 2); processor 4 short-circuits component 5 *)
Definition ex_scn1x : scenario :=
  mkScn [ mkComp 100 [] false None false true [] [] [] None None None false (Some (Ord 2, PBuiltin BWire));
          mkComp 101 [] false None false true [] [] [] None None None false (Some (Ord 4, PBuiltin BFurther));
          mkComp 0 [] false None false false [] [] [] None (Some false) None false None;
          mkComp 1 [] false None false true [] [mkPoint false (TPtr 0) SByType None true] [] None (Some false) None false None;
          mkComp 7 [] false None false false [] [] [] None None None false (Some (Unord, PUser [] []));
          mkComp 2 [] false None false false [] [] [] None (Some false) None false None ]
        [] false None [].

Example c01_example_extended :
  match snd (run_xt repaired ex_scn1x (mkX [(4, 5)] [(2, [3])])) with
  | Ok st => field_of st 3 0 = [VOrig 2] /\ field_of st 2 100 = [VOrig 3]
             /\ alookup 2 (L1 (reg st)) = Some (VOrig 2) /\ alookup 5 (L1 (reg st)) = Some (VOrig 5)
  | Fail _ _ => False
  end.
Proof. vm_compute. repeat split. Qed.

(* the bulk route: when Factory.GetComponents() succeeds after a successful start, what it returns for every name is
   the version published for that name — the one every holder holds and every lookup by name returns *)
Theorem c01_bulk_lookup_agrees : forall s x o st ns o' st' vs,
  run_xt repaired s x = (o, Ok st) ->
  bulk_core_xt repaired (normalise repaired s) x ns st = (o', (st', Ok vs)) ->
  Forall2 (fun n v => alookup n (L1 (reg st')) = Some v) ns vs
  /\ forall h k v, k < 100 -> In v (field_of st h k) -> alookup (owner v) (L1 (reg st')) = Some v.
Proof.
  intros s x o st ns o' st' vs H Hb.
  pose proof (run_core_xt_top repaired (normalise repaired s) x o st eq_refl H) as Ht.
  destruct (bulk_core_xt_published repaired (normalise repaired s) x eq_refl ns st o' st' vs Ht Hb) as [Ht' [Hk Hall]].
  split; [exact Hall|]. intros h k v Hk100 Hv.
  apply (top_cur_L1 st' _ v Ht'). apply Hk. unfold cur.
  rewrite (c01_shared_instance_extended s x o st H h k v Hk100 Hv). reflexivity.
Qed.
