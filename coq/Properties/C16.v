(* C16 - Placeholders resolve to the configured value, else the default, and terminate.

   Property theorems only.  Model: Model/Placeholder.v (util/el/el.go and the callback of
   container/processors/config_quote_aware_post_processors.go) over Model/Strconv.v
   (strconv2.ParseAny / FormatAny); lemmas: Proofs/PlaceholderProofs.v, Proofs/StrconvProofs.v.

   The theorems quantify over EVERY configuration (a function from key texts to values,
   VNull = not configured) and every tag text (byte string) resp. every tag AST; no size bound
   occurs except the substitution budget, which is part of the repaired code (D-C16) and a
   parameter here:  budget = Some b  is the repaired loop,  budget = None  the unrepaired one.
   The callback has two variants as well (Model/Strconv.v format_cfg):  fx = true  is the repaired
   callback (D-C17g: a float64 is spliced by strconv.FormatFloat(f, 'f', -1, 64)),  fx = false  the
   unrepaired one (strconv2.FormatAny for every value: 1e+06 for the float64 1000000).  Every
   theorem holds for both; which one the tree under test is, is read off the running code
   (tools/props/c16.py, facts probe) and the model is evaluated for that variant.

   Reading of the property
     c16_step            one iteration replaces the leftmost innermost placeholder, in place
     c16_replace_hits_match  strings.Replace(result, elr, r, 1) replaces the match itself
     c16_resolve_*       by the configured value when present (nil / empty map / empty list are
                         absent), else by the default (through ParseAny/FormatAny: itself when the
                         default text is plain), else by nothing; the text of a value is
                         format_cfg fx (c16_resolve_float: plain digits for a float64 after D-C17g)
     c16_denotational    the loop computes the denotation of the tag AST: "processed as if it had
                         been written with the replacement text"
     c16_terminates*     never a hang after the repair; c16_diverges_refuted: the unrepaired loop
                         does hang on  a: "${a}".
     c16_history_*       "the configured value" is the value at the time of the resolution: on one configuration
                         (Model/ConfigStore.v: the store behind Configure.Get / Configure.Set) driven through any
                         history of resolutions, reads and Sets, every resolution is the ${} stage over the store as
                         the Sets before it left it - nothing an earlier resolution or read saw is kept
     c16_set_then_*      after Configure.Set(k, v) a placeholder on k (in any letter case), on a key below k, or on
                         a key above k resolves to what was set, not to the default and not to an older value;
                         keys beside k are not affected.  All theorems above are stated for EVERY configuration
                         function and hence hold for  vget s  of every store s. *)
From Coq Require Import List NArith ZArith Bool Lia.
From IocVerif Require Import Model.Strconv Model.Placeholder Proofs.StrconvProofs Proofs.PlaceholderProofs.
From IocVerif Require Import Model.ConfigStore Proofs.ConfigStoreProofs.
Import ListNotations.

Definition dollar_not_lbrace : N.eqb b_dollar b_lbrace = false := eq_refl.
Definition dollar_not_rbrace : N.eqb b_dollar b_rbrace = false := eq_refl.

(* the text of a placeholder with body b:  $ { b } *)
Definition ph_text (b : bytes) : bytes := b_dollar :: b_lbrace :: b ++ [b_rbrace].

(* One iteration of the loop, for every text s, configuration cfg, budget and fuel: if FindString
   finds something at (i, n) then s = p ++ ${b} ++ t with |p| = i, b free of braces (innermost),
   no match starts left of i (leftmost), and the iteration continues with p ++ r ++ t where r is
   what the resolver returns for b; a resolver error / panic ends the loop with that outcome. *)
Theorem c16_step : forall fx cfg exh k s i n,
  find_first b_dollar s = Some (i, n) ->
  exists p b t,
    s = p ++ ph_text b ++ t /\ length p = i /\ n = (length b + 3)%nat /\ brace_free b = true
    /\ (forall j, (j < i)%nat -> match_at b_dollar (skipn j s) = None)
    /\ rac_loop b_dollar (resolve fx cfg) exh (S k) s =
       match resolve fx cfg b with
       | Ok r => rac_loop b_dollar (resolve fx cfg) exh k (p ++ r ++ t)
       | Err => Failed
       | Panic => Panicked
       end.
Proof.
  intros fx cfg exh k s i n H.
  destruct (step_spec b_dollar s i n H)
    as (p & b & t & Hs & Hlen & Hn & Hb & Hleft & HM & Hc & Hr).
  exists p, b, t. repeat split; auto.
  rewrite rac_loop_eq, H, Hc. destruct (resolve fx cfg b); try reflexivity. now rewrite Hr.
Qed.

(* strings.Replace(result, elr, r, 1) replaces the first OCCURRENCE of the matched text; that
   occurrence is the match: an earlier occurrence would be a match further left. *)
Theorem c16_replace_hits_match : forall s i n,
  find_first b_dollar s = Some (i, n) -> sub_index (firstn n (skipn i s)) s = Some i.
Proof. exact (sub_index_leftmost b_dollar). Qed.

(* the resolver: ${key} / ${key:default}; key = text before the first colon.  The text of a value is
   format_cfg fx: FormatAny, except that the repaired callback writes a float64 in plain digits *)
Theorem c16_resolve_present : forall fx cfg key rest,
  byte_index b_colon key = None -> rest = [] \/ (exists d, rest = b_colon :: d) ->
  absent (cfg key) = false ->
  resolve fx cfg (key ++ rest) = format_cfg fx (cfg key).
Proof. exact resolve_present. Qed.

(* what format_cfg is: FormatAny for every value before the repair, and after it for every value that is
   not a float64; a float64 m * 10^e is then written as FormatFloat(f, 'f', -1, 64) writes it *)
Theorem c16_format_cfg : forall v,
  format_cfg false v = format_any v
  /\ ((forall m e, v <> VDec m e) -> format_cfg true v = format_any v)
  /\ (forall m e, v = VDec m e -> format_cfg true v = Ok (fmt_float_f m e)).
Proof.
  intros v. split; [apply format_cfg_unrepaired|]. split; [apply format_cfg_not_float|].
  intros m e ->. reflexivity.
Qed.

(* a present float64: %v's text (exponent form from 1e6 on and below 1e-4) before the repair D-C17g, plain
   digits after it *)
Theorem c16_resolve_float : forall fx cfg key m e,
  byte_index b_colon key = None -> cfg key = VDec m e ->
  resolve fx cfg key = Ok (if fx then fmt_float_f m e else fmt_float_v m e).
Proof. exact resolve_float. Qed.

Theorem c16_resolve_default : forall fx cfg key d,
  byte_index b_colon key = None -> d <> [] -> absent (cfg key) = true ->
  resolve fx cfg (key ++ b_colon :: d) = rbind (parse_any d) (render_value fx)
  /\ (plain d = true -> resolve fx cfg (key ++ b_colon :: d) = Ok d).
Proof.
  intros fx cfg key d Hk Hd Ha. split; [apply resolve_default; auto|]. intros Hp. apply resolve_default_plain; auto.
Qed.

Theorem c16_resolve_unresolvable : forall fx cfg key rest,
  byte_index b_colon key = None -> rest = [] \/ rest = [b_colon] -> cfg key = VNull ->
  resolve fx cfg (key ++ rest) = Ok [].
Proof.
  intros fx cfg key rest Hk Hr Hv. rewrite (resolve_nodefault fx cfg key rest Hk Hr); rewrite Hv; reflexivity.
Qed.

(* "As if written with the replacement text": for every tag given as an AST (literals free of
   braces; placeholders whose body is again a list of parts - nesting in the key and in the
   default, repetition), every resolver f (in particular resolve fx cfg for every configuration cfg
   and both variants fx of the callback)
   whose replacement texts on this tag are free of braces ([clean]), and every budget b that covers
   the number of placeholders, the loop returns exactly the denotation of the AST; errors and
   panics of the resolver come out as such, the leftmost innermost one first.
   (values free of dollar-brace-brace as in the design note are a special case: only braces matter) *)
Theorem c16_denotational : forall f l b fuel,
  forallb wf l = true -> forallb (clean f) l = true -> (ph_count_all l <= b)%nat ->
  replace_all_content b_dollar f (Some b) fuel (render_all b_dollar l) = of_res (subst_all f l).
Proof.
  intros f l b fuel Hw Hc Hb. unfold replace_all_content.
  replace b with (ph_count_all l + (b - ph_count_all l))%nat by lia.
  apply (denotational b_dollar dollar_not_lbrace dollar_not_rbrace f l _ Exhausted Hw Hc).
Qed.

(* in particular: if the resolver never returns a text containing a brace (configured values and
   defaults free of braces - the design note's "values free of dollar, left and right brace" is a
   special case), the statement holds for every well-formed tag *)
Theorem c16_denotational_values : forall f l b fuel,
  (forall x r, f x = Ok r -> brace_free r = true) ->
  forallb wf l = true -> (ph_count_all l <= b)%nat ->
  replace_all_content b_dollar f (Some b) fuel (render_all b_dollar l) = of_res (subst_all f l).
Proof.
  intros f l b fuel Hf Hw Hb. apply c16_denotational; [exact Hw| |exact Hb].
  apply forallb_forall. intros t _. apply (clean_all f Hf).
Qed.

(* the same for the unrepaired loop, given enough fuel to watch it finish *)
Theorem c16_denotational_unrepaired : forall f l fuel,
  forallb wf l = true -> forallb (clean f) l = true -> (ph_count_all l <= fuel)%nat ->
  replace_all_content b_dollar f None fuel (render_all b_dollar l) = of_res (subst_all f l).
Proof.
  intros f l fuel Hw Hc Hb. unfold replace_all_content.
  replace fuel with (ph_count_all l + (fuel - ph_count_all l))%nat by lia.
  apply (denotational b_dollar dollar_not_lbrace dollar_not_rbrace f l _ OutOfFuel Hw Hc).
Qed.

(* After the repair D-C16: for every configuration, tag text, budget and variant of the callback the ${} stage returns a text or
   an error (possibly "budget exhausted"), and the answer does not depend on the model's fuel. *)
Theorem c16_terminates : forall fx cfg b fuel s,
  quote_stage fx cfg (Some b) fuel s <> OutOfFuel
  /\ forall fuel', quote_stage fx cfg (Some b) fuel' s = quote_stage fx cfg (Some b) fuel s.
Proof.
  intros fx cfg b fuel s. split; [|reflexivity].
  unfold quote_stage, replace_all_content. apply rac_not_fuel. discriminate.
Qed.

(* Without touching the budget: if no replacement text contains a left brace, or none contains a
   dollar sign, the loop ends within (number of such bytes in the tag) iterations: the repaired
   and the unrepaired loop agree and the budget error does not occur. *)
Theorem c16_terminates_natural : forall f s b,
  (forall x r, f x = Ok r -> no_lbrace r = true) \/ (forall x r, f x = Ok r -> count_byte b_dollar r = O) ->
  (count_byte b_lbrace s <= b /\ count_byte b_dollar s <= b)%nat ->
  replace_all_content b_dollar f (Some b) 0 s = replace_all_content b_dollar f None b s
  /\ replace_all_content b_dollar f (Some b) 0 s <> Exhausted
  /\ replace_all_content b_dollar f None b s <> OutOfFuel.
Proof.
  intros f s b Hf [Hl Hd]. unfold replace_all_content.
  assert (E : forall e1 e2, rac_loop b_dollar f e1 b s = rac_loop b_dollar f e2 b s).
  { intros e1 e2. destruct Hf as [Hf | Hf].
    - apply (natural_gen b_dollar f b_lbrace).
      + apply cnt_mtext_lbrace. exact dollar_not_lbrace.
      + intros x r Hx. apply cnt_zero_forallb. apply Hf in Hx. exact Hx.
      + exact Hl.
    - apply (natural_gen b_dollar f b_dollar).
      + apply cnt_mtext_sig.
      + exact Hf.
      + exact Hd. }
  split; [apply E|]. split.
  - rewrite (E Exhausted OutOfFuel). apply rac_sentinel; [left; reflexivity|discriminate].
  - rewrite (E OutOfFuel Exhausted). apply rac_sentinel; [right; reflexivity|discriminate].
Qed.

(* The unrepaired loop (budget = None) does hang:  a: "${a}"  with the tag text ${a}  is still
   running after any number of iterations, with either variant of the callback.  (D-C16; repaired
   by the budget.) *)
Definition circ_cfg : bytes -> cval :=
  cfg_of [([97%N], VStr [36; 123; 97; 125]%N)].
Definition circ_tag : bytes := [36; 123; 97; 125]%N.

Theorem c16_diverges_refuted : exists cfg s, forall fx fuel, quote_stage fx cfg None fuel s = OutOfFuel.
Proof.
  exists circ_cfg, circ_tag. intros fx. induction fuel as [|k IH].
  - reflexivity.
  - unfold quote_stage, replace_all_content in *. rewrite rac_loop_eq.
    change (find_first b_dollar circ_tag) with (Some (0%nat, 4%nat)). cbv iota beta.
    change (content (firstn 4 (skipn 0 circ_tag))) with [97%N].
    replace (resolve fx circ_cfg [97%N]) with (@Ok bytes circ_tag) by (destruct fx; reflexivity). cbv iota beta.
    change (replace_first circ_tag (firstn 4 (skipn 0 circ_tag)) circ_tag) with circ_tag.
    exact IH.
Qed.

(* ... and the repaired loop ends it with the budget error *)
Example c16_circular_repaired : forall fx, quote_stage fx circ_cfg (Some repo_budget) 0 circ_tag = Exhausted.
Proof. intros fx. destruct fx; vm_compute; reflexivity. Qed.

(* ---- one configuration over time: resolutions, reads and Configure.Set in any order ------------------ *)

(* In every history on one store the i-th step, when it is a resolution of tag text t, yields exactly the ${} stage
   on t over the configuration function  vget (store after the Sets among the first i steps) : the outcome depends on
   the Sets made so far and on nothing else - in particular not on what earlier resolutions or reads returned. *)
Theorem c16_history_resolve : forall fx budget fuel steps s i t,
  nth_error steps i = Some (HResolve t) ->
  nth_error (hrun fx budget fuel s steps) i =
  Some (RResolve (quote_stage fx (vget (hstate s (firstn i steps))) budget fuel t))
  /\ hstate s (firstn i steps) = hstate s (sets_only (firstn i steps)).
Proof.
  intros fx budget fuel steps s i t H. split; [apply hrun_resolve, H|symmetry; apply hstate_sets_only].
Qed.

Theorem c16_history_get : forall fx budget fuel steps s i k,
  nth_error steps i = Some (HGet k) ->
  nth_error (hrun fx budget fuel s steps) i = Some (RGet (vget (hstate s (firstn i steps)) k)).
Proof. exact hrun_get. Qed.

(* ... and every one of them terminates (repaired loop) *)
Theorem c16_history_terminates : forall fx b fuel steps s o,
  In (RResolve o) (hrun fx (Some b) fuel s steps) -> o <> OutOfFuel.
Proof.
  intros fx b fuel. induction steps as [|st r IH]; intros s o H; [contradiction|].
  cbn [hrun] in H. destruct st as [t|k v|k]; cbn [hstep_run] in H; destruct H as [H|H]; try discriminate; eauto.
  injection H as <-. exact (proj1 (c16_terminates fx (vget s) b fuel t)).
Qed.

(* Configure.Set(k, v), then a placeholder on the same key - spelled in any letter case, with or without a
   default: the value that was set (a map with its keys in lower case), whatever the store held before *)
Theorem c16_set_then_resolve : forall fx s k k' v rest,
  lower k = lower k' -> byte_index b_colon k' = None -> rest = [] \/ (exists d, rest = b_colon :: d) ->
  absent (lower_keys v) = false ->
  vget (vset s k v) k' = lower_keys v
  /\ resolve fx (vget (vset s k v)) (k' ++ rest) = format_cfg fx (lower_keys v).
Proof.
  intros fx s k k' v rest Hk Hc Hr Ha.
  assert (Hg : vget (vset s k v) k' = lower_keys v).
  { apply vget_vset_same; [exact Hk|]. intros E. rewrite E in Ha. discriminate. }
  split; [exact Hg|]. rewrite (c16_resolve_present fx _ k' rest Hc Hr); rewrite Hg; [reflexivity|exact Ha].
Qed.

(* Configure.Set(k, {...}), then a placeholder on a key BELOW k: the entry of the map that was set *)
Theorem c16_set_then_resolve_child : forall fx s k c v rest,
  byte_index b_colon (k ++ b_dot :: c) = None -> rest = [] \/ (exists d, rest = b_colon :: d) ->
  absent (search_map (key_path c) (lower_keys v)) = false ->
  resolve fx (vget (vset s k v)) ((k ++ b_dot :: c) ++ rest) = format_cfg fx (search_map (key_path c) (lower_keys v)).
Proof.
  intros fx s k c v rest Hc Hr Ha.
  assert (Hg : vget (vset s k v) (k ++ b_dot :: c) = search_map (key_path c) (lower_keys v)).
  { apply vget_vset_child. intros E. rewrite E in Ha. discriminate. }
  rewrite (c16_resolve_present fx _ _ rest Hc Hr); rewrite Hg; [reflexivity|exact Ha].
Qed.

(* Configure.Set(p.c, v), then a read of the key p ABOVE it: the override's map at p, which now holds c;
   keys whose first segment differs from k's do not see the Set at all *)
Theorem c16_set_then_get_parent_and_frame : forall s p c v,
  vget (vset s (p ++ b_dot :: c) v) p =
    VMap (deep_set (key_path c) (lower_keys v) (sub_at (key_path p) (st_override s)))
  /\ forall k k', beqb (hd [] (key_path k)) (hd [] (key_path k')) = false -> vget (vset s k v) k' = vget s k'.
Proof. intros s p c v. split; [apply vget_vset_parent|intros k k' H; apply vget_vset_other, H]. Qed.

(* ---- non-vacuity --------------------------------------------------------------------- *)

(* server.* absent, ${server.port:8080} -> default; Set("server", {Host: gateway, Port: 9090}); the same placeholder,
   also spelled ${Server.Port:8080}, now gives 9090; Set("SERVER.PORT", 7) then wins; log.level is not affected *)
Definition exh_store : vstore :=
  mkStore [] [([108;111;103]%N, VMap [([108;101;118;101;108]%N, VStr [105;110;102;111]%N)])].
Definition exh_tag1 : bytes := [36;123;115;101;114;118;101;114;46;112;111;114;116;58;56;48;56;48;125]%N.  (* ${server.port:8080} *)
Definition exh_tag2 : bytes := [36;123;83;101;114;118;101;114;46;80;111;114;116;58;56;48;56;48;125]%N.   (* ${Server.Port:8080} *)
Definition exh_tag3 : bytes := [36;123;108;111;103;46;108;101;118;101;108;125]%N.                        (* ${log.level} *)
Definition exh_steps : list hstep :=
  [HResolve exh_tag1;
   HSet [115;101;114;118;101;114]%N (VMap [([72;111;115;116]%N, VStr [103;119]%N); ([80;111;114;116]%N, VInt 9090)]);
   HResolve exh_tag1; HResolve exh_tag2; HGet [115;101;114;118;101;114]%N;
   HSet [83;69;82;86;69;82;46;80;79;82;84]%N (VInt 7);
   HResolve exh_tag1; HResolve exh_tag3].

Example c16_history_example : forall fx,
  hrun fx (Some repo_budget) 0 exh_store exh_steps =
  [RResolve (Done [56;48;56;48]%N); RSet; RResolve (Done [57;48;57;48]%N); RResolve (Done [57;48;57;48]%N);
   RGet (VMap [([104;111;115;116]%N, VStr [103;119]%N); ([112;111;114;116]%N, VInt 9090)]);
   RSet; RResolve (Done [55]%N); RResolve (Done [105;110;102;111]%N)].
Proof. intros fx. destruct fx; vm_compute; reflexivity. Qed.

(* text  p${a.${env:dev}.host}q${port:8080}${port:8080}  with  a.dev.host = "h1", env and port not
   configured: nested in the key, default used, repetition *)
Definition ex_cfg : bytes -> cval :=
  cfg_of [([97;46;100;101;118;46;104;111;115;116]%N, VStr [104;49]%N); ([101;109]%N, VMap []) ].
Definition ex_ast : list tpart :=
  [Lit [112]%N;
   Ph [Lit [97;46]%N; Ph [Lit [101;110;118;58;100;101;118]%N]; Lit [46;104;111;115;116]%N];
   Lit [113]%N;
   Ph [Lit [112;111;114;116;58;56;48;56;48]%N];
   Ph [Lit [112;111;114;116;58;56;48;56;48]%N]].

Example c16_denotational_example : forall fx,
  forallb wf ex_ast = true /\ forallb (clean (resolve fx ex_cfg)) ex_ast = true
  /\ ph_count_all ex_ast = 4%nat
  /\ replace_all_content b_dollar (resolve fx ex_cfg) (Some repo_budget) 0 (render_all b_dollar ex_ast)
     = Done [112;104;49;113;56;48;56;48;56;48;56;48]%N                      (* "ph1q80808080" *)
  /\ subst_all (resolve fx ex_cfg) ex_ast = Ok [112;104;49;113;56;48;56;48;56;48;56;48]%N.
Proof. intros fx. destruct fx; vm_compute; repeat split; reflexivity. Qed.

Example c16_step_example : forall fx,
  find_first b_dollar (render_all b_dollar ex_ast) = Some (5%nat, 10%nat)   (* the inner ${env:dev} *)
  /\ resolve fx ex_cfg [101;110;118;58;100;101;118]%N = Ok [100;101;118]%N     (* absent: default dev *)
  /\ resolve fx ex_cfg [101;109;58;120]%N = Ok [120]%N                         (* em = {} counts as absent: default x *)
  /\ resolve fx ex_cfg [97;46;100;101;118;46;104;111;115;116;58;122]%N = Ok [104;49]%N. (* present wins over default *)
Proof. intros fx. destruct fx; vm_compute; repeat split; reflexivity. Qed.

(* float64 values of large and small magnitude:  a = 1000000.0, b = 1e21, c = 0.00001, d = 123456789.5  in the
   tag text  ${a}|${b}|${c}|${d}|${nope:1000000} : plain digits with the repair D-C17g (the default 1000000,
   which ParseAny reads as a float64, then comes out as written), %v's exponent forms without it *)
Definition exf_cfg : bytes -> cval :=
  cfg_of [([97]%N, VDec 1 6); ([98]%N, VDec 1 21); ([99]%N, VDec 1 (-5)); ([100]%N, VDec 1234567895 (-1))].
Definition exf_tag : bytes :=
  [36;123;97;125;124; 36;123;98;125;124; 36;123;99;125;124; 36;123;100;125;124;
   36;123;110;111;112;101;58;49;48;48;48;48;48;48;125]%N.

Example c16_float_example :
  quote_stage true exf_cfg (Some repo_budget) 0 exf_tag
  = Done ([49;48;48;48;48;48;48;124] ++ [49;48;48;48;48;48;48;48;48;48;48;48;48;48;48;48;48;48;48;48;48;48;124]
          ++ [48;46;48;48;48;48;49;124] ++ [49;50;51;52;53;54;55;56;57;46;53;124] ++ [49;48;48;48;48;48;48])%N
     (* 1000000|1000000000000000000000|0.00001|123456789.5|1000000 *)
  /\ quote_stage false exf_cfg (Some repo_budget) 0 exf_tag
  = Done ([49;101;43;48;54;124] ++ [49;101;43;50;49;124] ++ [49;101;45;48;53;124]
          ++ [49;46;50;51;52;53;54;55;56;57;53;101;43;48;56;124] ++ [49;101;43;48;54])%N.
     (* 1e+06|1e+21|1e-05|1.234567895e+08|1e+06 *)
Proof. split; vm_compute; reflexivity. Qed.

Example c16_natural_example : forall fx,
  count_byte b_lbrace (render_all b_dollar ex_ast) = 4%nat
  /\ replace_all_content b_dollar (resolve fx ex_cfg) None 4 (render_all b_dollar ex_ast)
     = Done [112;104;49;113;56;48;56;48;56;48;56;48]%N.
Proof. intros fx. destruct fx; vm_compute; split; reflexivity. Qed.
