(* C14 — Close reaches every closer exactly once and waits for all of them.

   Property theorems only.  Model: Model/Conc.v (`close_prog n fails`, the Close phase of
   app/app.go as threads of atomic steps: main = Add n; go 1..n; Wait; <Close returns>,
   closer thread i = call_i; ret_i; [log if it failed]; Done).  Lemmas: Proofs/ConcProofs.v.

   Quantifiers: every number n of closers (0 included), every failing subset
   (`fails : nat -> bool`), every schedule (`reach` = every interleaving of the atomic steps;
   `run` = the same thing driven by an explicit schedule).  A closer that is slow or blocks
   is a thread that the schedule does not pick; nothing is assumed about fairness.

   MODELLED, NOT VERIFIED: the Go scheduler, sync.WaitGroup (counter semantics), the `go`
   statement; m.Close() is the pair of steps call_i / ret_i with arbitrary other steps in
   between (no preemption points *inside* a closer are needed: its body touches nothing the
   phase shares).  A closer that panics kills the process in Go and is outside the property.
   The tie to app.go is the correspondence check (Corr/Check_C14.v): every observed history
   of the real App.Close must be accepted by `close_accepts`, which replays it with `step`. *)
From Coq Require Import List Arith Bool Lia.
From IocVerif Require Import Model.Conc Proofs.ConcProofs.
Import ListNotations.

(* number of call_i / ret_i events in a trace, whoever executed them *)
Definition calls (i : nat) (tr : list event) : nat := countf (is_call i) (acts_of tr).
Definition rets (i : nat) (tr : list event) : nat := countf (is_ret i) (acts_of tr).

(* waits + exactly once: in any trace in which Close has returned, every closer was called exactly
   once, returned exactly once, and call_i, ret_i both precede the return of Close *)
Theorem c14_waits : forall n fails c tr,
  reach (close_prog n fails) c tr ->
  forall tr1 tr2, tr = tr1 ++ (0, AEv OCloseRet) :: tr2 ->
  forall i, 1 <= i <= n ->
    (exists X Y Z, tr1 = X ++ (i, AEv (OCall i)) :: Y ++ (i, AEv (ORet i (fails i))) :: Z)
    /\ calls i tr = 1 /\ rets i tr = 1.
Proof.
  intros n fails c tr Hr tr1 tr2 Heq i Hi. split.
  - eapply close_waits_order; eassumption.
  - eapply close_once; eassumption.
Qed.

(* the same for explicit schedules *)
Theorem c14_waits_all_schedules : forall n fails sched c tr,
  run (init (close_prog n fails)) sched = Some (c, tr) ->
  forall tr1 tr2, tr = tr1 ++ (0, AEv OCloseRet) :: tr2 ->
  forall i, 1 <= i <= n ->
    (exists X Y Z, tr1 = X ++ (i, AEv (OCall i)) :: Y ++ (i, AEv (ORet i (fails i))) :: Z)
    /\ calls i tr = 1 /\ rets i tr = 1.
Proof.
  intros n fails sched c tr Hrun. apply (c14_waits n fails c tr).
  apply (run_reach _ sched (init (close_prog n fails)) [] c tr); [constructor|assumption].
Qed.

(* never more than once, in every reachable state (also before Close returns) *)
Theorem c14_at_most_once : forall n fails c tr,
  reach (close_prog n fails) c tr -> forall i, 1 <= i <= n -> calls i tr <= 1 /\ rets i tr <= 1.
Proof. intros n fails c tr Hr i Hi. exact (close_at_most_once n fails c tr Hr i Hi). Qed.

(* isolation: as long as closer i has not been called, main and thread i alone can take steps that
   call it - no step of any other closer (failed, slow, blocked forever) is needed *)
Theorem c14_isolation : forall n fails c tr,
  reach (close_prog n fails) c tr -> forall i, 1 <= i <= n ->
  ~ In (AEv (OCall i)) (acts_of tr) ->
  exists sched c' tr', Forall (fun t => t = 0 \/ t = i) sched
    /\ run c sched = Some (c', tr') /\ In (i, AEv (OCall i)) tr'.
Proof. intros n fails c tr Hr i Hi Hno. exact (close_isolation n fails c tr Hr i Hi Hno). Qed.

(* the phase never deadlocks and wg.Done never underflows: unless every thread has finished,
   some thread can take a step (so Close does return once the closers have returned) *)
Theorem c14_no_deadlock : forall n fails c tr,
  reach (close_prog n fails) c tr ->
  (forall t, t <= n -> thr c t = []) \/ exists t c' a, step c t = Some (c', a).
Proof. intros n fails c tr Hr. exact (close_progress n fails c tr Hr). Qed.

(* n = 0: Close returns without starting or waiting for anything *)
Theorem c14_zero : forall fails c tr,
  reach (close_prog 0 fails) c tr -> forall e, In e tr -> e = (0, AEv OCloseRet).
Proof.
  intros fails c tr Hr [t a] Hin.
  assert (Hp : In a (proj t tr)).
  { unfold proj. apply in_map_iff. exists (t, a). split; [reflexivity|].
    apply filter_In. split; [assumption|]. cbn. apply Nat.eqb_refl. }
  pose proof (reach_prefix _ _ _ Hr t) as Hq.
  assert (Hin2 : In a (close_prog 0 fails t)) by (rewrite <- Hq; apply in_or_app; left; assumption).
  unfold close_prog in Hin2. destruct (Nat.eqb t 0) eqn:E.
  - apply Nat.eqb_eq in E. subst t. cbn in Hin2. destruct Hin2 as [<-|[]]. reflexivity.
  - destruct (Nat.leb t 0) eqn:E2; [|destruct Hin2].
    apply Nat.leb_le in E2. apply Nat.eqb_neq in E. lia.
Qed.

(* the executable trace acceptor used by the correspondence check accepts only observable projections of
   complete runs of the model (every thread finished) - so every accepted history of the real App.Close is a
   trace to which the theorems above apply *)
Theorem c14_acceptor_sound : forall n fails h, close_accepts n fails h = true ->
  exists sched c tr, run (init (close_prog n fails)) sched = Some (c, tr) /\ obs_of tr = h
    /\ forall t, t <= n -> thr c t = [].
Proof. exact close_accepts_sound. Qed.

(* non-vacuity: three closers, closer 2 fails; closer 1 stays blocked inside Close() while 2 and 3 are
   called and return; the schedule is accepted by `run`, Close returns last *)
Example c14_example_run :
  let fails := fun i => Nat.eqb i 2 in
  match run (init (close_prog 3 fails)) [0;0;1;0;0;2;3;3;2;2;3;2;1;1;0;0] with
  | Some (_, tr) => map snd (filter (fun e => negb (silent (snd e))) tr)
  | None => []
  end
  = [AEv (OCall 1); AEv (OCall 2); AEv (OCall 3); AEv (ORet 3 false); AEv (ORet 2 true);
     AEv (ORet 1 false); AEv OCloseRet].
Proof. vm_compute. reflexivity. Qed.

(* the acceptor accepts that history and rejects one in which Close returns while closer 1 is still running *)
Example c14_example_accept :
  let fails := fun i => Nat.eqb i 2 in
  close_accepts 3 fails [OCall 1; OCall 2; OCall 3; ORet 3 false; ORet 2 true; ORet 1 false; OCloseRet] = true
  /\ close_accepts 3 fails [OCall 1; OCall 2; OCall 3; ORet 3 false; ORet 2 true; OCloseRet; ORet 1 false] = false
  /\ close_accepts 3 fails [OCall 1; ORet 1 false; OCall 2; ORet 2 true; OCloseRet] = false
  /\ close_accepts 0 fails [OCloseRet] = true.
Proof. vm_compute. repeat split; reflexivity. Qed.
