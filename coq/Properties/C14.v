(* C14 — Close reaches every closer exactly once and waits for all of them.

   Property theorems only.  Model: Model/Conc.v (`close_prog n fails`, the Close phase of
   app/app.go as threads of atomic steps: main = Add n; go 1..n; Wait; <Close returns>,
   closer thread i = call_i; ret_i; [log if it failed]; Done).  Lemmas: Proofs/ConcProofs.v.

   Quantifiers: every number n of closers (0 included), every failing subset
   (`fails : nat -> bool`), every schedule (`reach` = every interleaving of the atomic steps;
   `run` = the same thing driven by an explicit schedule).  A closer that is slow or blocks
   is a thread that the schedule does not pick; nothing is assumed about fairness.

   MODELLED, NOT VERIFIED: the Go scheduler, sync.WaitGroup (counter semantics), the `go`
   statement; m.Close() is the pair of steps call_i / ret_i with arbitrary other steps in
   between (no preemption points *inside* a closer are needed: its body touches nothing the
   phase shares).  A closer that panics kills the process in Go and is outside the property.
   The tie to app.go is the correspondence check (Corr/Check_C14.v): every observed history
   of the real App.Close must be accepted by `close_accepts`, which replays it with `step`. *)
From Coq Require Import List Arith Bool Lia.
From IocVerif Require Import Model.Conc Proofs.ConcProofs.
From IocVerif Require Import Model.Merge Model.ConcMulti Proofs.MergeProofs Proofs.ConcMultiProofs.
Import ListNotations.

(* number of call_i / ret_i events in a trace, whoever executed them *)
Definition calls (i : nat) (tr : list event) : nat := countf (is_call i) (acts_of tr).
Definition rets (i : nat) (tr : list event) : nat := countf (is_ret i) (acts_of tr).

(* waits + exactly once: in any trace in which Close has returned, every closer was called exactly
   once, returned exactly once, and call_i, ret_i both precede the return of Close *)
Theorem c14_waits : forall n fails c tr,
  reach (close_prog n fails) c tr ->
  forall tr1 tr2, tr = tr1 ++ (0, AEv OCloseRet) :: tr2 ->
  forall i, 1 <= i <= n ->
    (exists X Y Z, tr1 = X ++ (i, AEv (OCall i)) :: Y ++ (i, AEv (ORet i (fails i))) :: Z)
    /\ calls i tr = 1 /\ rets i tr = 1.
Proof.
  intros n fails c tr Hr tr1 tr2 Heq i Hi. split.
  - eapply close_waits_order; eassumption.
  - eapply close_once; eassumption.
Qed.

(* the same for explicit schedules *)
Theorem c14_waits_all_schedules : forall n fails sched c tr,
  run (init (close_prog n fails)) sched = Some (c, tr) ->
  forall tr1 tr2, tr = tr1 ++ (0, AEv OCloseRet) :: tr2 ->
  forall i, 1 <= i <= n ->
    (exists X Y Z, tr1 = X ++ (i, AEv (OCall i)) :: Y ++ (i, AEv (ORet i (fails i))) :: Z)
    /\ calls i tr = 1 /\ rets i tr = 1.
Proof.
  intros n fails sched c tr Hrun. apply (c14_waits n fails c tr).
  apply (run_reach _ sched (init (close_prog n fails)) [] c tr); [constructor|assumption].
Qed.

(* never more than once, in every reachable state (also before Close returns) *)
Theorem c14_at_most_once : forall n fails c tr,
  reach (close_prog n fails) c tr -> forall i, 1 <= i <= n -> calls i tr <= 1 /\ rets i tr <= 1.
Proof. intros n fails c tr Hr i Hi. exact (close_at_most_once n fails c tr Hr i Hi). Qed.

(* isolation: as long as closer i has not been called, main and thread i alone can take steps that
   call it - no step of any other closer (failed, slow, blocked forever) is needed *)
Theorem c14_isolation : forall n fails c tr,
  reach (close_prog n fails) c tr -> forall i, 1 <= i <= n ->
  ~ In (AEv (OCall i)) (acts_of tr) ->
  exists sched c' tr', Forall (fun t => t = 0 \/ t = i) sched
    /\ run c sched = Some (c', tr') /\ In (i, AEv (OCall i)) tr'.
Proof. intros n fails c tr Hr i Hi Hno. exact (close_isolation n fails c tr Hr i Hi Hno). Qed.

(* the phase never deadlocks and wg.Done never underflows: unless every thread has finished,
   some thread can take a step (so Close does return once the closers have returned) *)
Theorem c14_no_deadlock : forall n fails c tr,
  reach (close_prog n fails) c tr ->
  (forall t, t <= n -> thr c t = []) \/ exists t c' a, step c t = Some (c', a).
Proof. intros n fails c tr Hr. exact (close_progress n fails c tr Hr). Qed.

(* n = 0: Close returns without starting or waiting for anything *)
Theorem c14_zero : forall fails c tr,
  reach (close_prog 0 fails) c tr -> forall e, In e tr -> e = (0, AEv OCloseRet).
Proof.
  intros fails c tr Hr [t a] Hin.
  assert (Hp : In a (proj t tr)).
  { unfold proj. apply in_map_iff. exists (t, a). split; [reflexivity|].
    apply filter_In. split; [assumption|]. cbn. apply Nat.eqb_refl. }
  pose proof (reach_prefix _ _ _ Hr t) as Hq.
  assert (Hin2 : In a (close_prog 0 fails t)) by (rewrite <- Hq; apply in_or_app; left; assumption).
  unfold close_prog in Hin2. destruct (Nat.eqb t 0) eqn:E.
  - apply Nat.eqb_eq in E. subst t. cbn in Hin2. destruct Hin2 as [<-|[]]. reflexivity.
  - destruct (Nat.leb t 0) eqn:E2; [|destruct Hin2].
    apply Nat.leb_le in E2. apply Nat.eqb_neq in E. lia.
Qed.

(* the executable trace acceptor used by the correspondence check accepts only observable projections of
   complete runs of the model (every thread finished) - so every accepted history of the real App.Close is a
   trace to which the theorems above apply *)
Theorem c14_acceptor_sound : forall n fails h, close_accepts n fails h = true ->
  exists sched c tr, run (init (close_prog n fails)) sched = Some (c, tr) /\ obs_of tr = h
    /\ forall t, t <= n -> thr c t = [].
Proof. exact close_accepts_sound. Qed.

(* ---------- several calls of Close on one App, overlapping in any way ---------------------------------------

   Model/ConcMulti.v: App.Close keeps its WaitGroup in a local variable and starts its own goroutines, so calls of
   Close share nothing the phase writes; the model of any number of calls is the product of independent instances of
   `close_prog n fails` (`mreach`: every interleaving of the steps of all calls; every call may begin at any time, so
   one-after-the-other, nested and overlapping calls are all covered; `sel k tr` = what call k did).

   EVERY call reaches every closer exactly once ITSELF and waits for ITS invocations: in any interleaving, for any
   call k that has returned, closer i was called and returned exactly once BY CALL k, both before call k returned.
   (So k overlapping calls give k invocations of every closer; a call never returns on the strength of another call's
   invocations, and never skips its own because another call is in progress.) *)
Theorem c14_overlapping_closes : forall n fails m tr,
  mreach (close_prog n fails) m tr ->
  forall k tr1 tr2, sel k tr = tr1 ++ (0, AEv OCloseRet) :: tr2 ->
  forall i, 1 <= i <= n ->
    (exists X Y Z, tr1 = X ++ (i, AEv (OCall i)) :: Y ++ (i, AEv (ORet i (fails i))) :: Z)
    /\ calls i (sel k tr) = 1 /\ rets i (sel k tr) = 1.
Proof.
  intros n fails m tr Hm k tr1 tr2 Heq i Hi.
  exact (c14_waits n fails (m k) (sel k tr) (mreach_sel _ m tr Hm k) tr1 tr2 Heq i Hi).
Qed.

(* no call invokes a closer twice, at any moment, whatever the other calls do *)
Theorem c14_overlapping_at_most_once : forall n fails m tr,
  mreach (close_prog n fails) m tr -> forall k i, 1 <= i <= n ->
  calls i (sel k tr) <= 1 /\ rets i (sel k tr) <= 1.
Proof.
  intros n fails m tr Hm k i Hi. exact (c14_at_most_once n fails (m k) (sel k tr) (mreach_sel _ m tr Hm k) i Hi).
Qed.

(* no call is ever blocked by another call: unless call k has finished, some thread OF CALL k can take a step *)
Theorem c14_overlapping_no_deadlock : forall n fails m tr,
  mreach (close_prog n fails) m tr -> forall k,
  (forall t, t <= n -> thr (m k) t = []) \/ exists t c' a, step (m k) t = Some (c', a).
Proof.
  intros n fails m tr Hm k. exact (c14_no_deadlock n fails (m k) (sel k tr) (mreach_sel _ m tr Hm k)).
Qed.

(* the acceptor of recorded histories of K overlapping calls (events attributed to calls, see Corr/Check_C14.v) is
   EXACT: it accepts precisely the interleavings of K histories that the single-call acceptor accepts, each behind the
   invocation of its call *)
Theorem c14_overlap_acceptor_exact : forall K n fails h,
  multi_accepts K n fails h = true <->
  exists hs, length hs = K /\ Forall (fun ho => close_accepts n fails ho = true) hs /\ Merge (map wrap hs) h.
Proof. exact multi_accepts_iff. Qed.

(* ... and an accepted history (invocations left out) is, event for event in the same order, the observable projection
   of a run of the product model in which every one of the K calls has finished - so c14_overlapping_closes applies to
   what was observed of every call *)
Theorem c14_overlap_acceptor_sound : forall K n fails h, multi_accepts K n fails h = true ->
  exists sched m tr, mrun (minit (close_prog n fails)) sched = Some (m, tr) /\ mobs_of tr = strip h
    /\ mreach (close_prog n fails) m tr
    /\ forall k, k < K -> forall t, t <= n -> thr (m k) t = [].
Proof.
  intros K n fails h H. destruct (multi_accepts_product_run K n fails h H) as [sched [m [tr [Hr [Ho Hf]]]]].
  exists sched, m, tr. split; [exact Hr|]. split; [exact Ho|]. split; [|exact Hf].
  exact (mrun_mreach _ sched _ [] m tr (mreach_init _) Hr).
Qed.

(* non-vacuity: two overlapping calls on two closers, closer 2 fails; call 1 is invoked while closer 1 of call 0 is
   still inside Close(); call 1 returns first.  Accepted; rejected: the second call returning at once without invoking
   anything (a "Close is already in progress" guard), and a call returning while its own invocation of closer 1 runs *)
Example c14_example_overlap :
  let fails := fun i => Nat.eqb i 2 in
  let c k o := (k, KObs o) in
  multi_accepts 2 2 fails [(0, KInv); c 0 (OCall 1); c 0 (OCall 2); c 0 (ORet 2 true); (1, KInv); c 1 (OCall 2); c 1 (OCall 1);
                           c 1 (ORet 2 true); c 1 (ORet 1 false); c 1 OCloseRet; c 0 (ORet 1 false); c 0 OCloseRet] = true
  /\ multi_accepts 2 2 fails [(0, KInv); c 0 (OCall 1); c 0 (OCall 2); c 0 (ORet 2 true); (1, KInv); c 1 OCloseRet;
                              c 0 (ORet 1 false); c 0 OCloseRet] = false
  /\ multi_accepts 2 2 fails [(0, KInv); c 0 (OCall 1); c 0 (OCall 2); c 0 (ORet 2 true); (1, KInv); c 1 (OCall 2); c 1 (OCall 1);
                              c 1 (ORet 2 true); c 1 OCloseRet; c 1 (ORet 1 false); c 0 (ORet 1 false); c 0 OCloseRet] = false.
Proof. vm_compute. repeat split; reflexivity. Qed.

(* non-vacuity: three closers, closer 2 fails; closer 1 stays blocked inside Close() while 2 and 3 are
   called and return; the schedule is accepted by `run`, Close returns last *)
Example c14_example_run :
  let fails := fun i => Nat.eqb i 2 in
  match run (init (close_prog 3 fails)) [0;0;1;0;0;2;3;3;2;2;3;2;1;1;0;0] with
  | Some (_, tr) => map snd (filter (fun e => negb (silent (snd e))) tr)
  | None => []
  end
  = [AEv (OCall 1); AEv (OCall 2); AEv (OCall 3); AEv (ORet 3 false); AEv (ORet 2 true);
     AEv (ORet 1 false); AEv OCloseRet].
Proof. vm_compute. reflexivity. Qed.

(* the acceptor accepts that history and rejects one in which Close returns while closer 1 is still running *)
Example c14_example_accept :
  let fails := fun i => Nat.eqb i 2 in
  close_accepts 3 fails [OCall 1; OCall 2; OCall 3; ORet 3 false; ORet 2 true; ORet 1 false; OCloseRet] = true
  /\ close_accepts 3 fails [OCall 1; OCall 2; OCall 3; ORet 3 false; ORet 2 true; OCloseRet; ORet 1 false] = false
  /\ close_accepts 3 fails [OCall 1; ORet 1 false; OCall 2; ORet 2 true; OCloseRet] = false
  /\ close_accepts 0 fails [OCloseRet] = true.
Proof. vm_compute. repeat split; reflexivity. Qed.
