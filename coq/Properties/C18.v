(* C18 - Expressions run after placeholder substitution, validation after binding.

   Property theorems only.  Model: Model/Pipeline.v (the property processors of
   container/processors applied in the order computed by SortOrderedComponents = Model/Sorter.v)
   over Model/Placeholder.v and Model/Strconv.v; lemmas: Proofs/PipelineProofs.v.

   Oracles (Section variables of the model, universally quantified here): the expression evaluator
   [eval] (expr-lang Compile + Run), the decoding of a parsed value into the field's Go type
   [decode] (mapstructure; C17's subject) and the validator's verdict [verdict] on the field value
   under the stated constraints.  All statements hold for EVERY such function, every configuration,
   both variants fx of the ${} callback (Model/Strconv.v format_cfg: true = repair D-C17g, a float64 is
   spliced in plain digits; which one the tree has is read off the running code on every run),
   every list of processor facts (built-in and user processors of every class and Order).

   The side condition [staged facts = true] is an instantiated obligation: the class and Order()
   of the real processor values are read on every run (Facts_C18.v) and the condition is re-proved
   on them by vm_compute. *)
From Coq Require Import List NArith ZArith Bool Lia.
From IocVerif Require Import Model.Pipeline Proofs.PlaceholderProofs Proofs.PipelineProofs.
Import ListNotations.

(* From the class / Order facts alone (each built-in once; ${} < #{} < both binders < validate in
   the contract's order priority < ordered < unordered, Order() inside a class), for ANY list of
   further processors: in the computed sequence ${} comes before #{}, #{} before both binders,
   both binders before validation. *)
Theorem c18_stage_order : forall facts, staged_classes facts = true ->
  let o := stage_order facts in
  before_b id_quote id_expr o = true /\ before_b id_expr id_bindvalue o = true
  /\ before_b id_expr id_bindprefix o = true
  /\ before_b id_bindvalue id_validate o = true /\ before_b id_bindprefix id_validate o = true.
Proof. exact staged_classes_order. Qed.

(* With the computed sequence staged, the pipeline on a property IS the composition
   ${} ; #{} ; binding ; validation - whatever other processors are registered. *)
Theorem c18_pipeline_staged : forall fx cfg budget eval decode verdict facts st,
  staged facts = true ->
  run_pipeline fx cfg budget eval decode verdict facts st = spec_run fx cfg budget eval decode verdict st.
Proof. exact staged_pipeline. Qed.

(* A #{...} expression whose text contains ${} placeholders (given as an AST l, nesting and
   defaults allowed): the evaluator is handed exactly u, the text with ALL placeholders
   substituted (the result depends on eval only through eval u), its result is spliced in through
   FormatAny, then binding and validation run on the resulting text. *)
Theorem c18_expr_after_subst : forall fx cfg eval decode verdict facts b st pre post l u,
  staged facts = true ->
  ps_kind st = TValue -> ps_tagval st = ps_tagstr st -> ps_tagstr st = expr_tag pre post l ->
  no_rbrace pre = true -> forallb wf l = true -> forallb (clean (resolve fx cfg)) l = true ->
  (ph_count_all l <= S b)%nat ->
  subst_all (resolve fx cfg) l = Ok u ->
  find_first b_dollar (expr_tag_subst pre post u) = None ->
  run_pipeline fx cfg (Some (S b)) eval decode verdict facts st =
  match eval u with
  | Ok v =>
    match format_any v with
    | Ok fv =>
      pbind (of_outcome EExpr (with_tagval st (expr_tag_subst pre post u))
               (rac_loop b_hash (expr_fun eval) Exhausted b (pre ++ fv ++ post)))
            (fun s2 => pbind (stage_bindvalue decode s2) (stage_validate verdict))
    | Err => PErr EExpr
    | Panic => PErr EPanicked
    end
  | Err => PErr EExpr
  | Panic => PErr EPanicked
  end.
Proof. exact expr_after_subst. Qed.

(* the whole tag is one expression: the field receives decode (parse_any (format_any (eval u))) *)
Theorem c18_expr_result_bound : forall fx cfg eval decode verdict facts b st l u v fv pv f,
  staged facts = true ->
  ps_kind st = TValue -> ps_tagval st = ps_tagstr st -> ps_tagstr st = expr_tag [] [] l ->
  forallb wf l = true -> forallb (clean (resolve fx cfg)) l = true -> (ph_count_all l <= S b)%nat ->
  subst_all (resolve fx cfg) l = Ok u -> find_first b_dollar (expr_tag_subst [] [] u) = None ->
  eval u = Ok v -> format_any v = Ok fv -> find_first b_hash fv = None -> fv <> [] ->
  parse_any fv = Ok pv -> decode pv = Ok f ->
  run_pipeline fx cfg (Some (S b)) eval decode verdict facts st =
  stage_validate verdict (with_field (with_tagval st fv) f).
Proof. exact expr_result_bound. Qed.

(* Validation: given that the earlier stages succeed and leave the property as s3, start-up of
   this property fails in the validate stage exactly when the property is a configuration
   property with a validate argument and the validator's verdict on the BOUND value is negative;
   in every other case the pipeline succeeds with s3. *)
Theorem c18_validate_iff : forall fx cfg budget eval decode verdict facts st s1 s2 s3,
  staged facts = true ->
  stage_quote fx cfg budget st = POk s1 -> stage_expr budget eval s1 = POk s2 ->
  (match ps_kind s2 with TPrefix => stage_bindprefix cfg decode s2 | _ => stage_bindvalue decode s2 end) = POk s3 ->
  (run_pipeline fx cfg budget eval decode verdict facts st = PErr EValidate <->
     ps_kind s3 <> TOther /\ ps_validate s3 = true /\ verdict (ps_field s3) = false)
  /\ (run_pipeline fx cfg budget eval decode verdict facts st <> PErr EValidate ->
      run_pipeline fx cfg budget eval decode verdict facts st = POk s3).
Proof.
  intros fx cfg budget eval decode verdict facts st s1 s2 s3 Hst H1 H2 H3.
  rewrite (staged_pipeline fx cfg budget eval decode verdict facts st Hst).
  exact (validate_iff fx cfg budget eval decode verdict st s1 s2 s3 H1 H2 H3).
Qed.

(* ---- non-vacuity ----------------------------------------------------------------------- *)

(* the facts as they are in /repo (orders.go: priority 2 4 8 16, ordered 2 4 8), plus user processors *)
Definition ex_facts : list participant :=
  [mkPart 9 (Prio 2); mkPart 3 (Prio 16); mkPart 4 (Ord 8); mkPart 0 (Prio 4); mkPart 7 (Ord 2); mkPart 1 (Prio 8);
   mkPart 8 (Ord 4); mkPart 2 (Prio 16); mkPart 11 Unord; mkPart 12 (Prio 5); mkPart 13 (Ord (-1))].

Example c18_facts_example : staged ex_facts = true /\ staged_classes ex_facts = true.
Proof. vm_compute. split; reflexivity. Qed.

(* with the two constants of orders.go swapped the obligation fails *)
Example c18_swapped_example :
  let swapped := [mkPart 0 (Prio 8); mkPart 1 (Prio 4); mkPart 2 (Prio 16); mkPart 3 (Prio 16); mkPart 4 (Ord 8)] in
  staged swapped = false /\ staged_classes swapped = false.
Proof. vm_compute. split; reflexivity. Qed.

(* value:"#{${a}+${b:1}}" with a = 2, b absent; the evaluator knows "2+1" only *)
Definition ex18_cfg : bytes -> cval := cfg_of [([97]%N, VInt 2)].
Definition ex18_eval (e : bytes) : res cval := if beqb e [50;43;49]%N then Ok (VInt 3) else Err.
Definition ex18_ast : list tpart := [Ph [Lit [97]%N]; Lit [43]%N; Ph [Lit [98;58;49]%N]].
Definition ex18_state : pstate :=
  mkPState TValue (expr_tag [] [] ex18_ast) (expr_tag [] [] ex18_ast) true true None.

Example c18_expr_example : forall fx,
  subst_all (resolve fx ex18_cfg) ex18_ast = Ok [50;43;49]%N
  /\ run_pipeline fx ex18_cfg (Some repo_budget) ex18_eval (fun v => Ok v) (fun f => true) ex_facts ex18_state
     = POk (mkPState TValue (expr_tag [] [] ex18_ast) [51]%N true true (Some (VDec 3 0)))
  /\ run_pipeline fx ex18_cfg (Some repo_budget) ex18_eval (fun v => Ok v) (fun f => false) ex_facts ex18_state
     = PErr EValidate.
Proof. intros fx. destruct fx; vm_compute; repeat split; reflexivity. Qed.

(* ---- components with several validated properties ---------------------------------------- *)

(* A component with ONE property is the one-property pipeline of the theorems above. *)
Theorem c18_component_single : forall fx cfg budget order p,
  run_component fx cfg budget order [p] =
  match run_stages fx cfg budget (cp_eval p) (cp_decode p) (cp_verdict p) order (cp_state p) with
  | POk st => COk [cp_with p st]
  | PErr e => CErr e
  end.
Proof. exact run_component_single. Qed.

(* The validate processor, handed all properties of a component, fails start-up exactly when AT
   LEAST ONE of them violates its constraints - wherever it stands among the others (a valid struct
   in front of a violating scalar changes nothing) - and otherwise leaves every property alone. *)
Theorem c18_component_validate_any : forall fx cfg budget ps,
  stage_all fx cfg budget id_validate ps =
  if existsb cp_violates ps then CErr EValidate else COk ps.
Proof. exact stage_all_validate. Qed.

(* ---- components that are post processors themselves --------------------------------------- *)

(* An eager post-processor component (participant id_holder) is created while the sorted sequence
   is being activated: every processor whose class / Order() lies strictly below the holder's is
   active at that moment.  For an UNORDERED holder that is every Priority-ordered and every Ordered
   processor: the complete built-in pipeline, validation included. *)
Theorem c18_holder_sees_earlier_processors : forall a facts, a <> id_holder ->
  count_pid a facts = 1%nat -> count_pid id_holder facts = 1%nat -> lt_ids a id_holder facts = true ->
  In a (active_order facts).
Proof. exact active_when_lt. Qed.

(* every other component is created with the whole sequence active *)
Theorem c18_other_components_see_all : forall facts,
  ~ In id_holder (stage_order facts) -> active_order facts = stage_order facts.
Proof. intros facts H. unfold active_order. apply before_id_notin. exact H. Qed.

(* ---- non-vacuity ----------------------------------------------------------------------- *)

Definition ex18_prop (lit : bytes) (verdict : bool) : cprop :=
  mkCProp (fun _ => Err) (fun v => Ok v) (fun _ => verdict) (mkPState TValue lit lit true true None).

(* value:"7,validate=..." judged valid, in front of value:"3,validate=..." judged violating: start-up
   fails in validation, in this order and in the other; with both valid it succeeds *)
Example c18_component_single_example : forall fx,
  run_component fx ex18_cfg (Some repo_budget) (stage_order ex_facts) [ex18_prop [51]%N false] = CErr EValidate
  /\ run_stages fx ex18_cfg (Some repo_budget) (fun _ => Err) (fun v => Ok v) (fun _ => false) (stage_order ex_facts)
       (mkPState TValue [51]%N [51]%N true true None) = PErr EValidate.
Proof. intros fx. destruct fx; vm_compute; split; reflexivity. Qed.

Example c18_component_example : forall fx,
  run_component fx ex18_cfg (Some repo_budget) (stage_order ex_facts) [ex18_prop [55]%N true; ex18_prop [51]%N false]
    = CErr EValidate
  /\ run_component fx ex18_cfg (Some repo_budget) (stage_order ex_facts) [ex18_prop [51]%N false; ex18_prop [55]%N true]
    = CErr EValidate
  /\ (exists ps, run_component fx ex18_cfg (Some repo_budget) (stage_order ex_facts)
                   [ex18_prop [55]%N true; ex18_prop [51]%N true] = COk ps
                 /\ map (fun p => ps_field (cp_state p)) ps = [Some (VDec 7 0); Some (VDec 3 0)]).
Proof.
  intros fx. destruct fx; (split; [vm_compute; reflexivity|]); (split; [vm_compute; reflexivity|]);
    eexists; split; vm_compute; reflexivity.
Qed.

(* the facts of /repo with a user post-processor component: unordered - validation (id 4) is active
   when it is created; Ordered with Order 5 < OrderValidate - the binders are active, validation is
   not; Priority-ordered with Order 1 - nothing is *)
Example c18_holder_example :
  In id_validate (active_order (ex_facts ++ [mkPart id_holder Unord]))
  /\ lt_ids id_validate id_holder (ex_facts ++ [mkPart id_holder Unord]) = true
  /\ filter relevant (active_order (ex_facts ++ [mkPart id_holder (Ord 5)])) = [0; 1; 3; 2]%nat
  /\ active_order (ex_facts ++ [mkPart id_holder (Prio 1)]) = []
  /\ active_order ex_facts = stage_order ex_facts.
Proof. vm_compute. repeat split; try reflexivity. auto 20. Qed.
