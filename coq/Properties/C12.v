(* C12 — Ordering contract for post-processors, runners and loaders.

   Property theorems only. Model: Model/Sorter.v (SortOrderedComponents of
   util/framework_helper/order_component.go); lemmas: Proofs/SorterProofs.v.
   All statements quantify over every list of participants with arbitrary Z orders
   (ties, negatives, extremes) in all three classes and every registration order.

   The invocation half ("callbacks are actually invoked in that sequence") is tied to the
   code by the correspondence check: the invocation logs of real App.Run starts are
   checked (in Coq, Corr/Check_C12.v) to satisfy [contract_ok] and to be a permutation of
   the registered participants; by [c12_canonical] that determines the sequence up to
   the order of equal-Order participants. *)
From Coq Require Import List ZArith Permutation Sorted.
From IocVerif Require Import Model.Sorter Proofs.SorterProofs.
Import ListNotations.

(* every participant appears exactly once *)
Theorem c12_perm : forall l, Permutation l (sort_participants l).
Proof. exact sort_participants_perm. Qed.

(* priority block, then ordered block, then unordered block; Order never decreases inside
   the first two *)
Theorem c12_blocks_sorted : forall l,
  exists P O U, sort_participants l = P ++ O ++ U
    /\ Forall (fun p => is_prio p = true) P
    /\ Forall (fun p => is_ord p = true) O
    /\ Forall (fun p => is_unord p = true) U
    /\ Sorted (fun p q => (order_of p <= order_of q)%Z) P
    /\ Sorted (fun p q => (order_of p <= order_of q)%Z) O.
Proof.
  intros l. exists (isort (filter is_prio l)), (isort (filter is_ord l)), (filter is_unord l).
  split; [reflexivity|].
  split; [apply isort_Forall, Forall_filter_self|].
  split; [apply isort_Forall, Forall_filter_self|].
  split; [apply Forall_filter_self|].
  split; apply isort_sorted.
Qed.

(* the same as one boolean contract (the oracle evaluated on implementation outputs) *)
Theorem c12_contract : forall l, contract_ok (sort_participants l) = true.
Proof. exact sort_participants_contract. Qed.

(* the contract determines the (class, Order) sequence: any sequence that contains every
   participant once and satisfies the contract has the projection of the model's output *)
Theorem c12_canonical : forall l l',
  Permutation l l' -> contract_ok l' = true -> proj l' = proj (sort_participants l).
Proof.
  intros l l' Hp Hc. apply contract_canonical; [exact Hc|apply c12_contract|].
  eapply Permutation_trans; [apply Permutation_sym; exact Hp|apply c12_perm].
Qed.

(* A container that sorts its participants again after more were registered — configure.go stores the sorted
   loader list back at every Initialize and later AddLoaders append to it — sequences them exactly as if all had
   been registered first: sorting (an earlier result ++ the additions) = sorting (everything, as registered). *)
Theorem c12_resort : forall l1 l2,
  sort_participants (sort_participants l1 ++ l2) = sort_participants (l1 ++ l2).
Proof. exact sort_participants_resort. Qed.

(* the model's sort keeps participants of equal class and Order in registration order (what sort.Slice does on at
   most 12 elements; the contract above does not ask for it, C15 relies on it for equal-Order loaders) *)
Theorem c12_model_stable : forall c l,
  filter (fun p => same_class (pcls p) c) (sort_participants l) = filter (fun p => same_class (pcls p) c) l.
Proof. exact sort_participants_stable. Qed.

Example c12_resort_example :
  let l1 := [mkPart 0 Unord; mkPart 1 (Ord 5); mkPart 2 (Prio 3)] in
  let l2 := [mkPart 3 (Ord 5); mkPart 4 (Prio (-1)); mkPart 5 Unord; mkPart 6 (Prio 3)] in
  map pid (sort_participants (sort_participants l1 ++ l2)) = [4; 2; 6; 1; 3; 0; 5]%nat /\
  map pid (sort_participants (l1 ++ l2)) = [4; 2; 6; 1; 3; 0; 5]%nat /\
  map pid (filter (fun p => same_class (pcls p) (Prio 3)) (l1 ++ l2)) = [2; 6]%nat.
Proof. vm_compute. repeat split. Qed.

(* non-vacuity: a concrete mixed list with ties, negatives and extremes *)
Example c12_example :
  proj (sort_participants
    [mkPart 0 Unord; mkPart 1 (Prio 1); mkPart 2 (Ord 99); mkPart 3 (Prio (-9223372036854775808));
     mkPart 4 (Ord 0); mkPart 5 (Prio 1); mkPart 6 Unord; mkPart 7 (Ord 9223372036854775807)])
  = [Prio (-9223372036854775808); Prio 1; Prio 1; Ord 0; Ord 99; Ord 9223372036854775807; Unord; Unord].
Proof. vm_compute. reflexivity. Qed.
