(* C06 — Type-directed injection is sound and complete.

   Model: Model/Resolve.v ([candidates] = the wire / func processors' registry queries,
   [filter_dependencies] = nil removal, holder removal, qualifier filter, single-point ranking).
   [resolved enum pop h p] is what the repaired container proposes for an unnamed point p of holder h
   over population pop, for ANY enumeration [enum] of registered names (on the repaired tree the
   registry enumerates in name order; the theorems do not depend on which order).
   Quantified over all populations (any number of types, interfaces per type, named/unnamed,
   lazy/eager), all points (pointer, interface, slice of either, any; wire by type or func tag), all enumerations.

   Compatibility is Go's own: [type_ok] is `m.Value.Type() == typ` for pointer fields and
   `Implements` for interface fields; [func_ok] is FuncName / FuncNameAndResult of container/options.go.
   In the correspondence these relations are given by the compiled Go types themselves. *)
From Coq Require Import List Arith Bool.
From IocVerif Require Import Model.Registry Model.Resolve Proofs.ResolveProofs.
Import ListNotations.

Definition unnamed (p : point) : Prop := match pt_sel p with SByName _ => False | _ => True end.

(* soundness: every proposed component is registered, is not the holder, is compatible with the
   declared type (and exposes the requested method), and is admitted by the qualifier *)
Theorem c06_sound : forall enum pop h p l n,
  unnamed p -> pt_target p <> TOther ->
  resolved enum pop h p = FOk l -> In n l ->
  In n enum /\ n <> h /\
  (exists c, get_comp pop n = Some c /\ type_ok c (pt_target p) = true
             /\ match pt_sel p with SFunc m rets => func_ok c m rets = true | _ => True end).
Proof.
  intros enum pop h p l n Hu Ht Hr Hin. rewrite (resolved_unnamed _ _ _ _ Hu Ht) in Hr.
  destruct (providers_of enum pop h p) as [|a r] eqn:E; [discriminate|]. cbv zeta in Hr. injection Hr as <-.
  assert (Hp : In n (providers_of enum pop h p)).
  { rewrite E. destruct (pt_slice p); [exact Hin|apply (rank_single_subset pop); exact Hin]. }
  apply providers_of_In in Hp. destruct Hp as [H1 [H2 [[c [Hc Hb]] _]]].
  split; [exact H1|]. split; [exact H2|]. exists c. split; [exact Hc|].
  unfold by_type_pred in Hb. apply andb_true_iff in Hb. destruct Hb as [Hb1 Hb2]. split; [exact Hb1|].
  destruct (pt_sel p); auto.
Qed.

(* completeness for slices: every compatible, admitted component other than the holder, exactly once *)
Theorem c06_complete_slice : forall enum pop h p l,
  unnamed p -> pt_target p <> TOther -> pt_slice p = true -> NoDup enum ->
  resolved enum pop h p = FOk l ->
  NoDup l /\
  forall n, In n l <->
    (In n enum /\ n <> h /\ (exists c, get_comp pop n = Some c /\ by_type_pred p c = true)
     /\ match pt_quals p with Some qs => qual_ok pop qs n = true | None => True end).
Proof.
  intros enum pop h p l Hu Ht Hs Hnd Hr. rewrite (resolved_unnamed _ _ _ _ Hu Ht), Hs in Hr.
  destruct (providers_of enum pop h p) as [|a r] eqn:E; [discriminate|]. cbv zeta in Hr. injection Hr as <-.
  rewrite <- E. split; [apply providers_of_NoDup; exact Hnd|]. intros n. apply providers_of_In.
Qed.

(* a single-valued point receives exactly one of them *)
Theorem c06_single : forall enum pop h p l,
  unnamed p -> pt_target p <> TOther -> pt_slice p = false ->
  resolved enum pop h p = FOk l ->
  exists n, l = [n] /\ In n (providers_of enum pop h p).
Proof.
  intros enum pop h p l Hu Ht Hs Hr. rewrite (resolved_unnamed _ _ _ _ Hu Ht), Hs in Hr.
  set (rs := rank_single pop) in *.
  destruct (providers_of enum pop h p) as [|a r] eqn:E; [discriminate|].
  assert (Hl : l = rs (a :: r)) by (cbv zeta in Hr; injection Hr as Hr; symmetry; exact Hr).
  subst l rs.
  pose proof (rank_single_length pop (a :: r) ltac:(discriminate)) as Hlen.
  pose proof (rank_single_subset pop (a :: r)) as Hsub.
  destruct (rank_single pop (a :: r)) as [|n [|m t]]; try discriminate.
  exists n. split; [reflexivity|]. apply Hsub. left; reflexivity.
Qed.

(* no compatible component: the point is reported (required) or stays empty (optional) *)
Theorem c06_none : forall enum pop h p,
  unnamed p -> pt_target p <> TOther ->
  providers_of enum pop h p = [] ->
  resolved enum pop h p = FErr /\
  further_one repaired pop h p (candidates enum pop p) = (if pt_required p then None else Some []).
Proof.
  intros enum pop h p Hu Ht Hn.
  assert (Hr : resolved enum pop h p = FErr) by (rewrite (resolved_unnamed _ _ _ _ Hu Ht), Hn; reflexivity).
  split; [exact Hr|]. unfold further_one. unfold resolved in Hr. rewrite Hr. reflexivity.
Qed.

(* and conversely, as soon as one exists the point is served *)
Theorem c06_some : forall enum pop h p,
  unnamed p -> pt_target p <> TOther ->
  providers_of enum pop h p <> [] ->
  exists l, resolved enum pop h p = FOk l /\ l <> [].
Proof.
  intros enum pop h p Hu Ht Hn. rewrite (resolved_unnamed _ _ _ _ Hu Ht).
  destruct (providers_of enum pop h p) as [|a r] eqn:E; [contradiction|].
  eexists. split; [reflexivity|]. cbv zeta. destruct (pt_slice p); [discriminate|].
  pose proof (rank_single_length pop (a :: r) ltac:(discriminate)) as Hlen.
  destruct (rank_single pop (a :: r)); [discriminate Hlen|discriminate].
Qed.

(* non-vacuity: three types, two interfaces, a holder that is itself a candidate *)
Definition ex_pop : population :=
  [ mkComp 0 [0; 1] false None false false [(0, None)] [] [] None None None false None;
    mkComp 1 [0] true (Some 1) false false [] [] [] None None None false None;
    mkComp 2 [1] false None true true [(0, None)] [] [] None None None false None;
    mkComp 1 [0] true (Some 2) false false [] [] [] None None None false None ].

Example c06_example_slice :
  resolved [0; 1; 2; 3] ex_pop 1 (mkPoint true (TIface 0) SByType None true) = FOk [0; 3].
Proof. vm_compute. reflexivity. Qed.
Example c06_example_single_func :
  resolved [0; 1; 2; 3] ex_pop 3 (mkPoint false (TIface 1) (SFunc 0 None) None true) = FOk [2].
Proof. vm_compute. reflexivity. Qed.
Example c06_example_none :
  resolved [0; 1; 2; 3] ex_pop 0 (mkPoint false (TPtr 0) SByType None false) = FErr.
Proof. vm_compute. reflexivity. Qed.

(* ---- what the container writes into the fields (run level) ------------------------------------------------
   Proofs/FactoryWiring.v connects the resolution functions above to the state after a successful start:
   for every published component (created with the complete property pipeline: side conditions
   [stages_ok_b] — the built-in processors' sorted sequence is props, value, wire, func, further-matching —
   and [procs_pointless_b], both re-evaluated on the facts of every run), every unnamed point holds exactly
   the proposed components, or is left empty when the published object of a proposed component (a proxy)
   cannot be assigned to an optional point. *)
From IocVerif Require Import Model.Factory Model.App Proofs.FactoryWiring Proofs.FactoryNoPanic.

Theorem c06_wired_slice : forall s st h c k p,
  run repaired s = Ok st ->
  procs_pointless_b (normalise repaired s) = true -> stages_ok_b (normalise repaired s) = true ->
  alookup h (L1 (reg st)) <> None -> get_comp (s_pop s) h = Some c -> nth_error (c_points c) k = Some p ->
  unnamed p -> pt_target p <> TOther -> pt_slice p = true ->
  (* every compatible, admitted component except the holder, exactly once, in name order ... *)
  (map owner (field_of st h k) = providers_of (names_of (s_pop s)) (s_pop s) h p
   /\ forallb (fun v => assignable (s_pop s) v (pt_target p)) (field_of st h k) = true)
  (* ... or nothing at all, which is possible only for an optional point *)
  \/ (field_of st h k = [] /\ (pt_required p = false \/ providers_of (names_of (s_pop s)) (s_pop s) h p = [])).
Proof.
  intros s st h c k p H Hpp Hso Hpub Hc Hk Hu Ht Hsl.
  destruct (run_core_wired repaired (normalise repaired s) st eq_refl eq_refl eq_refl eq_refl Hpp Hso H h c k p Hpub Hc Hk)
    as [x [Hx Hw]].
  cbn [normalise s_pop s_oracle enum_order fix_c10 repaired] in Hx, Hw.
  unfold further_one in Hx. fold (resolved (names_of (s_pop s)) (s_pop s) h p) in Hx.
  rewrite (resolved_unnamed _ _ _ _ Hu Ht), Hsl in Hx.
  destruct (providers_of (names_of (s_pop s)) (s_pop s) h p) as [|a t] eqn:E.
  - destruct (pt_required p); [discriminate|]. injection Hx as <-. unfold wired_point in Hw. cbn in Hw.
    right. split; [exact Hw|right; reflexivity].
  - cbv zeta in Hx. injection Hx as <-. unfold wired_point in Hw. cbn [map remove_nil] in Hw.
    rewrite remove_nil_map_Some, Hsl in Hw.
    destruct Hw as [[Ho Ha]|[Hf Hr]]; [left; split; assumption|right; split; [exact Hf|left; exact Hr]].
Qed.

Theorem c06_wired_single : forall s st h c k p,
  run repaired s = Ok st ->
  procs_pointless_b (normalise repaired s) = true -> stages_ok_b (normalise repaired s) = true ->
  alookup h (L1 (reg st)) <> None -> get_comp (s_pop s) h = Some c -> nth_error (c_points c) k = Some p ->
  unnamed p -> pt_target p <> TOther -> pt_slice p = false ->
  (exists n, In n (providers_of (names_of (s_pop s)) (s_pop s) h p) /\ map owner (field_of st h k) = [n])
  \/ (field_of st h k = [] /\ (pt_required p = false \/ providers_of (names_of (s_pop s)) (s_pop s) h p = [])).
Proof.
  intros s st h c k p H Hpp Hso Hpub Hc Hk Hu Ht Hsl.
  destruct (run_core_wired repaired (normalise repaired s) st eq_refl eq_refl eq_refl eq_refl Hpp Hso H h c k p Hpub Hc Hk)
    as [x [Hx Hw]].
  cbn [normalise s_pop s_oracle enum_order fix_c10 repaired] in Hx, Hw.
  unfold further_one in Hx. fold (resolved (names_of (s_pop s)) (s_pop s) h p) in Hx.
  destruct (resolved (names_of (s_pop s)) (s_pop s) h p) as [l|] eqn:Er.
  - destruct (c06_single _ _ _ _ _ Hu Ht Hsl Er) as [n [-> Hin]]. injection Hx as <-.
    unfold wired_point in Hw. cbn [map remove_nil] in Hw. rewrite Hsl in Hw. cbn [firstn] in Hw.
    destruct Hw as [[Ho _]|[Hf Hr]]; [left; exists n; split; assumption|right; split; [exact Hf|left; exact Hr]].
  - assert (Hnone : providers_of (names_of (s_pop s)) (s_pop s) h p = []).
    { rewrite (resolved_unnamed _ _ _ _ Hu Ht) in Er. destruct (providers_of _ _ _ _); [reflexivity|discriminate]. }
    destruct (pt_required p); [discriminate|]. injection Hx as <-. unfold wired_point in Hw. cbn in Hw.
    right. split; [exact Hw|right; exact Hnone].
Qed.

(* ---- the same at run level under the extended semantics (Model/FactoryX.v: Init methods that call back into the
   factory, post-processors that short-circuit instantiation; Proofs/FactoryXWiring.v).  Additional side conditions:
   no component has more than 100 points, the Init methods of the post-processor components issue no lookups, and
   the holder is not listed as short-circuited (such a component is not populated at all). ------------------- *)
From IocVerif Require Import Model.FactoryX Proofs.FactoryXLife Proofs.FactoryXNoPanic Proofs.FactoryXWiring.

Theorem c06_wired_slice_extended : forall s x o st h c k p,
  small_points s -> run_xt repaired s x = (o, Ok st) ->
  procs_pointless_b (normalise repaired s) = true -> procs_quiet_b (normalise repaired s) x = true ->
  stages_ok_b (normalise repaired s) = true ->
  alookup h (L1 (reg st)) <> None -> get_comp (s_pop s) h = Some c -> never_short x h -> nth_error (c_points c) k = Some p ->
  unnamed p -> pt_target p <> TOther -> pt_slice p = true ->
  (* every compatible, admitted component except the holder, exactly once, in name order ... *)
  (map owner (field_of st h k) = providers_of (names_of (s_pop s)) (s_pop s) h p
   /\ forallb (fun v => assignable (s_pop s) v (pt_target p)) (field_of st h k) = true)
  (* ... or nothing at all, which is possible only for an optional point *)
  \/ (field_of st h k = [] /\ (pt_required p = false \/ providers_of (names_of (s_pop s)) (s_pop s) h p = [])).
Proof.
  intros s x o st h c k p Hsm H Hpp Hq Hso Hpub Hc Hns Hk Hu Ht Hsl.
  destruct (run_xt_wired s x o st Hsm H Hpp Hq Hso h c k p Hpub Hc Hns Hk) as [y0 [Hx Hw]].
  unfold further_one in Hx. fold (resolved (names_of (s_pop s)) (s_pop s) h p) in Hx.
  rewrite (resolved_unnamed _ _ _ _ Hu Ht), Hsl in Hx.
  destruct (providers_of (names_of (s_pop s)) (s_pop s) h p) as [|a t] eqn:E.
  - destruct (pt_required p); [discriminate|]. injection Hx as <-. unfold wired_point in Hw. cbn in Hw.
    right. split; [exact Hw|right; reflexivity].
  - cbv zeta in Hx. injection Hx as <-. unfold wired_point in Hw. cbn [map remove_nil] in Hw.
    rewrite remove_nil_map_Some, Hsl in Hw.
    destruct Hw as [[Ho Ha]|[Hf Hr]]; [left; split; assumption|right; split; [exact Hf|left; exact Hr]].
Qed.

Theorem c06_wired_single_extended : forall s x o st h c k p,
  small_points s -> run_xt repaired s x = (o, Ok st) ->
  procs_pointless_b (normalise repaired s) = true -> procs_quiet_b (normalise repaired s) x = true ->
  stages_ok_b (normalise repaired s) = true ->
  alookup h (L1 (reg st)) <> None -> get_comp (s_pop s) h = Some c -> never_short x h -> nth_error (c_points c) k = Some p ->
  unnamed p -> pt_target p <> TOther -> pt_slice p = false ->
  (exists n, In n (providers_of (names_of (s_pop s)) (s_pop s) h p) /\ map owner (field_of st h k) = [n])
  \/ (field_of st h k = [] /\ (pt_required p = false \/ providers_of (names_of (s_pop s)) (s_pop s) h p = [])).
Proof.
  intros s x o st h c k p Hsm H Hpp Hq Hso Hpub Hc Hns Hk Hu Ht Hsl.
  destruct (run_xt_wired s x o st Hsm H Hpp Hq Hso h c k p Hpub Hc Hns Hk) as [y0 [Hx Hw]].
  unfold further_one in Hx. fold (resolved (names_of (s_pop s)) (s_pop s) h p) in Hx.
  destruct (resolved (names_of (s_pop s)) (s_pop s) h p) as [l|] eqn:Er.
  - destruct (c06_single _ _ _ _ _ Hu Ht Hsl Er) as [n [-> Hin]]. injection Hx as <-.
    unfold wired_point in Hw. cbn [map remove_nil] in Hw. rewrite Hsl in Hw. cbn [firstn] in Hw.
    destruct Hw as [[Ho _]|[Hf Hr]]; [left; exists n; split; assumption|right; split; [exact Hf|left; exact Hr]].
  - assert (Hnone : providers_of (names_of (s_pop s)) (s_pop s) h p = []).
    { rewrite (resolved_unnamed _ _ _ _ Hu Ht) in Er. destruct (providers_of _ _ _ _); [reflexivity|discriminate]. }
    destruct (pt_required p); [discriminate|]. injection Hx as <-. unfold wired_point in Hw. cbn in Hw.
    right. split; [exact Hw|right; exact Hnone].
Qed.
