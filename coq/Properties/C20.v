(* C20 — Start-up, shutdown and the concurrent containers are free of races.

   Property theorems only.  Models: Model/SyncMap.v (sync2.Map and the concurrent sets as step programs over
   atomic sync.Map primitives, sequential specification, linearizability) and Model/Conc.v (interleaving
   semantics, happens-before, data races, the phase program generated from a closure footprint).
   Lemmas: Proofs/SyncMapProofs.v, Proofs/RaceProofs.v.

   The main theorems are about the REPAIRED code (LoadOrStoreFn = Load; LoadOrStore(f()); the append to `errs`
   under a mutex); the unrepaired variants are parameters of the models (`rep = false`, a footprint without the
   lock) and the `_refuted` theorems are proved about them.

   MODELLED, NOT VERIFIED: the Go scheduler, sync.WaitGroup, sync.Mutex, the atomicity of the sync.Map
   primitives, the Go memory model's happens-before edges (program order, go, Done->Wait, Unlock->Lock), and
   the callee code below the goroutine closures (m.Close(), PostProcessDefinitionRegistry): the latter is
   checked dynamically by the race detector on every run.  The closure footprint `fp` is extracted from the
   source with go/ast on every run (Facts_C20.v) and `footprint_race_free fp = true` re-proved there. *)
From Coq Require Import List Arith Bool NArith.
From IocVerif Require Import Model.SyncMap Proofs.SyncMapProofs Model.Conc Proofs.RaceProofs.
From IocVerif Require Import Proofs.RangeProofs.
From IocVerif Require Import Model.ScanCheck Proofs.ScanCheckProofs.
From IocVerif Require Import Model.Merge Proofs.MergeProofs.
Import ListNotations.

(* ---------- atomicity of the containers ---------------------------------------------------------------- *)

(* programs made of Load / Store / LoadOrStore / Delete / Put / Exists / Remove only *)
Definition point_only (progs : nat -> list op) : Prop := forall t o, In o (progs t) -> is_point o = true.

(* every history of the point operations (any number of threads, any programs, any interleaving of the atomic
   steps, in both variants of the map) is linearizable, the linearization point being the single primitive:
   the operations in the order of their primitives, with the results they returned, are a legal sequential
   history that ends in the concrete map state; hence (standard form) `linearizable (hist tr)` *)
Theorem c20_lin_point_ops : forall rep progs c tr,
  point_only progs -> sreach rep progs c tr ->
  gwf (fun _ => WIdle) tr = true
  /\ legal [] (map snd (lin_seq tr)) /\ final [] (map snd (lin_seq tr)) = sm c
  /\ linearizable (hist tr).
Proof.
  intros rep progs c tr Hp Hr. apply (lin_point_theorem rep progs c tr); [|assumption].
  intros t. split.
  - intros Hx. specialize (Hp t _ Hx). discriminate.
  - right. intros k v Hx. specialize (Hp t _ Hx). discriminate.
Qed.

(* the repaired LoadOrStoreFn (Load, then LoadOrStore of f()): every history of it together with all point
   operations is linearizable, with the linearization point at the successful primitive ... *)
Theorem c20_lin_load_or_store_fn : forall progs c tr,
  (forall t, ~ In ORange (progs t)) -> sreach true progs c tr ->
  gwf (fun _ => WIdle) tr = true
  /\ legal [] (map snd (lin_seq tr)) /\ final [] (map snd (lin_seq tr)) = sm c
  /\ linearizable (hist tr).
Proof.
  intros progs c tr Hn Hr. apply (lin_point_theorem true progs c tr); [|assumption].
  intros t. split; [apply Hn|left; reflexivity].
Qed.

(* ... hence a load-or-store never lets two callers both win: on a key that no operation deletes, two different
   threads never both get loaded = false (LoadOrStore and LoadOrStoreFn mixed) *)
Theorem c20_never_two_winners : forall progs c tr k,
  (forall t, ~ In ORange (progs t)) -> (forall t o, In o (progs t) -> deletes k o = false) ->
  sreach true progs c tr -> ~ two_winners k (hist tr).
Proof.
  intros progs c tr k Hn Hd Hr. apply (one_winner_theorem true progs c tr k); try assumption.
  intros t. split; [apply Hn|left; reflexivity].
Qed.

(* no linearizable history at all has two winners (whatever produced it) *)
Theorem c20_linearizable_one_winner : forall H k,
  linearizable H -> (forall t o, In (t, EInv o) H -> deletes k o = false) -> ~ two_winners k H.
Proof.
  intros H k [tr [<- [Hwf Hl]]] Hd. apply no_two_winners_gen; try assumption.
  intros t o Hin. apply (Hd t). unfold hist. apply filter_In. split; [assumption|reflexivity].
Qed.

(* D-C20a: the unrepaired LoadOrStoreFn (Load, then Store of f()) has an execution with two winners, whose
   history is not linearizable: both callers pass their Load before either stores *)
Theorem c20_load_or_store_fn_refuted :
  exists progs sched c tr,
    srun false (sinit progs) sched = Some (c, tr)
    /\ two_winners 0 (hist tr) /\ ~ linearizable (hist tr).
Proof.
  destruct losf_trace_run as [c Hrun]. exists losf_progs, losf_sched, c, losf_trace.
  split; [exact Hrun|]. split; [exact losf_two_winners|exact losf_not_linearizable].
Qed.

(* KF-C20c: Range is not a snapshot.  Even with every other operation atomic there is an execution in which a
   Range overlaps `Store 1; Store 2` of one writer and reports key 2 without key 1; no sequential order
   explains that history *)
Theorem c20_range_refuted :
  exists progs sched c tr,
    srun true (sinit progs) sched = Some (c, tr)
    /\ In (0, ERes ORange (RList [(2, 1)])) (hist tr)
    /\ ~ linearizable (hist tr).
Proof.
  destruct range_trace_run as [c Hrun]. exists range_progs, range_sched, c, range_trace.
  split; [exact Hrun|]. split; [vm_compute; auto 20|exact range_not_linearizable].
Qed.

(* PARTIAL.  Full statement (not proved):
     c20_lin_range_single_writer : every history of the repaired model in which each Range / ForEach overlaps
     mutating primitives on at most one key is linearizable (the Range linearizes just after its visit of that
     key if the write came earlier, else at its start).
   Gap: the proof needs the linearization point of a Range to be inserted at a position that depends on the
   future of the trace, and an invariant relating the partial result to the map "up to the written key"; only
   the interference-free case is proved here: a Range whose steps are not interleaved with steps of other
   threads reports exactly the map (every key agrees).  The single-writer case is covered by the
   correspondence only: histories with a Range overlapping one write are recorded from the real containers on
   every run and must pass the brute-force linearizability check. *)
Theorem c20_lin_range_single_writer_partial : forall rep sched c c' tr t ops acc,
  sthr c t = mkThread (TInv ORange) ops ->
  (forall x, In x sched -> fst x = t) ->
  srun rep c sched = Some (c', tr) ->
  tstate (sthr c' t) = TRes ORange (RList acc) ->
  (forall e, In e tr -> match snd e with ERes _ _ => False | _ => True end) ->
  sm c' = sm c /\ forall k, get acc k = get (sm c) k.
Proof.
  intros rep sched c c' tr t ops acc Hst Ht Hrun Hend Hnr.
  destruct (range_alone rep sched c c' tr t Ht) as [Hm Hinv]; try assumption.
  - unfold range_inv. rewrite Hst. exact I.
  - split; [assumption|]. unfold range_inv in Hinv. rewrite Hend in Hinv. exact Hinv.
Qed.

(* ... and what a Range of the step model DOES guarantee under every interleaving (Proofs/RangeProofs.v), for all
   programs (Range, LoadOrStoreFn in either form, any number of threads) and all schedules — the contract sync.Map
   documents and the two conditions `scan_check` below evaluates on recorded histories:
   PROVENANCE: every reported pair (k, v) was the mapping of k at some instant of this Range call — a reachable
   configuration c1 at which the thread loaded k, after which it issued no further invocation; *)
Theorem c20_range_provenance : forall rep progs c tr t ops acc,
  sreach rep progs c tr -> sthr c t = mkThread (TRes ORange (RList acc)) ops ->
  forall k v, get acc k = Some v ->
  exists c1 tr1 b1, sreach rep progs c1 tr1 /\ tr = tr1 ++ (t, EVisit k (Some v)) :: b1
    /\ get (sm c1) k = Some v /\ (forall o, ~ In (t, EInv o) b1).
Proof. intros rep progs c tr t ops acc Hr Hst k v Hg. exact (range_provenance rep progs c tr t ops acc Hr Hst k v Hg). Qed.

(* COMPLETENESS: every key present when the call began (configuration c0, thread invoked and nothing executed yet) has
   been visited, and what the Range reports for it — a value, or nothing — is its mapping at the instant of that visit.
   In particular a key that nobody touched during the call is reported with its value. *)
Theorem c20_range_completeness : forall rep progs c tr t ops acc,
  sreach rep progs c tr -> sthr c t = mkThread (TRes ORange (RList acc)) ops ->
  exists c0 tr0 b, sreach rep progs c0 tr0 /\ tr = tr0 ++ b /\ tstate (sthr c0 t) = TInv ORange
    /\ (forall o, ~ In (t, EInv o) b)
    /\ forall k, get (sm c0) k <> None ->
         exists x c1 tr1 b1, sreach rep progs c1 tr1 /\ tr = tr1 ++ (t, EVisit k x) :: b1
           /\ get (sm c1) k = x /\ (forall o, ~ In (t, EInv o) b1) /\ get acc k = x.
Proof.
  intros rep progs c tr t ops acc Hr Hst.
  destruct (range_completeness rep progs c tr t ops acc Hr Hst) as [c0 [[tr0 [b [H0 [Htr [Hs Hb]]]]] Hk]].
  exists c0, tr0, b. repeat split; try assumption.
  intros k Hk0. destruct (Hk k Hk0) as [x [[c1 [tr1 [b1 [H1 [Ht1 [Hg Hb1]]]]]] Ha]].
  exists x, c1, tr1, b1. repeat split; assumption.
Qed.

(* non-vacuity: the execution of c20_range_refuted, stopped when the Range's result is determined: the Range began on
   the empty map and reports [(2, 1)] *)
Example c20_range_example :
  match srun true (sinit range_progs) (firstn 12 range_sched) with
  | Some (c, _) => tstate (sthr c 0) = TRes ORange (RList [(2, 1)])
  | None => False
  end.
Proof. vm_compute. reflexivity. Qed.

(* What a Range / ToArray / ForEach owes although it is not a snapshot (Model/ScanCheck.v): per reported pair
   PROVENANCE (the pair is the mapping of its key at some instant of the scan: written by an operation invoked before
   the scan returned and not definitely overwritten or deleted before the scan was invoked) and per key COMPLETENESS
   (a mapping that was stable over the whole scan is reported); the same for Load / Exists / a load-or-store that
   loaded.  `scan_check` evaluates both on histories recorded with tickets from the real containers under real
   parallelism.  It is a NECESSARY condition for linearizability, even with every scan taken to be atomic: a history
   that has a sequential witness W (the same records, in an order that is legal for the sequential specification and
   in which no record returned before an earlier one was invoked) passes.  So the oracle never rejects a linearizable
   history; it rejects e.g. a pair (k, zero value) that no operation stored. *)
Theorem c20_scan_check_complete : forall recs W,
  (forall x, In x recs <-> In x W) -> legal [] (seqh W) -> rt_ok W -> scan_check recs [] = true.
Proof. exact scan_check_complete. Qed.

(* a scan that was stopped early (its callback returned false) reports some of the pairs present at its place in the
   witness: its provenance check passes *)
Theorem c20_partial_scan_ok : forall recs W p q inv res l,
  (forall x, In x recs <-> In x W) -> W = p ++ q -> legal [] (seqh W) -> rt_ok W ->
  (forall a, In a p -> N.ltb res (t_inv a) = false) -> (forall b, In b q -> N.ltb (t_res b) inv = false) ->
  sorted_from 0 l = true -> (forall pr, In pr l -> get (final [] (seqh p)) (fst pr) = Some (snd pr)) ->
  obs_ok (effects recs) inv res (fun _ => true) false l = true.
Proof. exact partial_scan_ok. Qed.

(* ---------- data races of the two concurrent phases --------------------------------------------------- *)

(* `phase_prog fp n passes fails`: main runs `passes` rounds (the loop over the definition scanners; 1 for
   Close) of  <accesses before the loop>; wg.Add n; go x n; <accesses between go and Wait>; wg.Wait;
   <accesses after>,  goroutine t runs the closure's accesses (under the locks the footprint records; the
   accesses on the failure path only when `fails t`) and then wg.Done.  For every footprint that passes the
   boolean side condition, every number of components, every number of rounds, every failing subset and
   every interleaving: no two conflicting plain accesses of different threads are unordered by
   happens-before. *)
Theorem c20_race_free : forall fp,
  footprint_race_free fp = true ->
  forall n passes fails c tr, reach (phase_prog fp n passes fails) c tr -> ~ race tr.
Proof. intros fp Hfp n passes fails. exact (phase_race_free fp n passes fails Hfp). Qed.

(* the same for explicit schedules *)
Theorem c20_race_free_all_schedules : forall fp,
  footprint_race_free fp = true ->
  forall n passes fails sched c tr, run (init (phase_prog fp n passes fails)) sched = Some (c, tr) -> ~ race tr.
Proof.
  intros fp Hfp n passes fails sched c tr Hrun. apply (c20_race_free fp Hfp n passes fails c tr).
  apply (Proofs.ConcProofs.run_reach _ sched (init (phase_prog fp n passes fails)) [] c tr); [constructor|assumption].
Qed.

(* D-C20b: the footprint of the unrepaired scanning closure (errs = append(errs, ...) without a lock) fails the
   side condition, and its phase program has an interleaving with a data race as soon as two scanners fail *)
Theorem c20_unlocked_append_refuted :
  footprint_race_free fp_unlocked = false
  /\ exists sched c tr, run (init (phase_prog fp_unlocked 2 1 (fun _ => true))) sched = Some (c, tr) /\ race tr.
Proof.
  split; [vm_compute; reflexivity|]. destruct unlocked_run as [c Hrun].
  exists unlocked_sched, c, unlocked_trace. split; [exact Hrun|exact unlocked_race].
Qed.

(* ---------- the library's logger under concurrent use ---------------------------------------------------- *)

(* What several goroutines that print through one logger (the cached syslog.Pref logger of App.Close's failing closers,
   the root logger) owe: the output is an INTERLEAVING of their line sequences - every line whole, each goroutine's lines
   in its program order, nothing lost or doubled, nothing that nobody printed.  `lines` = per goroutine the numbers of
   the lines its calls print (numbers taken from a sequential reference run), `out` = the lines as they arrived, each as
   (goroutine, number).  The check evaluated on the recorded output (Check_C20.log_ok, through merge_b) is EXACT: it
   accepts precisely the interleavings. *)
Theorem c20_log_output_is_interleaving : forall (lines : list (list nat)) (out : list (nat * nat)),
  merge_b Nat.eqb lines out = true <-> Merge lines out.
Proof. exact (merge_b_iff Nat.eqb Nat.eqb_eq). Qed.

(* non-vacuity: two goroutines with two lines each; an interleaving is accepted; a spliced line (known to nobody: tag 2),
   a lost line and two lines of one goroutine in the wrong order are rejected *)
Example c20_example_log :
  let lines := [[1; 2]; [3; 4]] in
  (merge_b Nat.eqb lines [(1, 3); (0, 1); (0, 2); (1, 4)], merge_b Nat.eqb lines [(1, 3); (2, 0); (0, 2); (1, 4)],
   merge_b Nat.eqb lines [(1, 3); (0, 1); (1, 4)], merge_b Nat.eqb lines [(1, 4); (0, 1); (0, 2); (1, 3)])
  = (true, false, false, false).
Proof. vm_compute. reflexivity. Qed.

(* non-vacuity *)
Example c20_example_lin :
  let progs := fun t => match t with 0 => [OLoadOrStoreFn 0 1; OLoad 0] | 1 => [OLoadOrStoreFn 0 2; ODelete 0] | _ => [] end in
  match srun true (sinit progs) [(0,None);(0,None);(0,None);(1,None);(1,None);(1,None);(0,None);(1,None);(0,None);(1,None);(1,None);(1,None);(0,None);(0,None);(0,None);(1,None)] with
  | Some (c, tr) => (map snd (lin_seq tr), sm c)
  | None => ([], [])
  end
  = ([(OLoadOrStoreFn 0 1, RLos 1 false); (OLoadOrStoreFn 0 2, RLos 1 true); (ODelete 0, RNone); (OLoad 0, RVal None)], []).
Proof. vm_compute. reflexivity. Qed.

Example c20_example_refuted_history :
  hist losf_trace = [(0, EInv (OLoadOrStoreFn 0 1)); (1, EInv (OLoadOrStoreFn 0 2));
                     (0, ERes (OLoadOrStoreFn 0 1) (RLos 1 false)); (1, ERes (OLoadOrStoreFn 0 2) (RLos 2 false))]
  /\ linearizable_b [mkOp 0 (OLoadOrStoreFn 0 1) (RLos 1 false) 0 2; mkOp 1 (OLoadOrStoreFn 0 2) (RLos 2 false) 1 3] = false.
Proof. vm_compute. split; reflexivity. Qed.

(* the footprint of the repaired scanning closure (errs under mutex 3) satisfies the side condition; the
   executable race detector finds nothing on a run with two failing scanners and two rounds *)
Example c20_example_race_free :
  let fp := mkFp true true true
              [mkCvar 1 false [(false, 3, true); (true, 3, true)] [true] [] [false; false];   (* errs *)
               mkCvar 2 false [(false, 0, false)] [true] [] [false];                          (* processor *)
               mkCvar 3 true [] [true] [] []; mkCvar 4 true [] [true] [] []] in               (* mu, wg *)
  footprint_race_free fp = true
  /\ match run (init (phase_prog fp 2 2 (fun _ => true)))
              [0;0;0;0;0;1;1;1;2;2;2;1;1;1;2;2;2;1;2;1;2;1;2;1;2;1;2;0;0;0;0;0;0;0;0;0;3;3;3;4;4;4;3;3;3;4;4;4;3;4;3;4;3;4;3;4;3;4;0;0;0;0] with
     | Some (c, tr) => (races_b tr, length tr)
     | None => ([(0, 0)], 0)
     end = ([], 62).
Proof. vm_compute. split; reflexivity. Qed.
