(* C02 — Circular dependencies resolve and start-up always terminates.

   Same model as C01.  The recursion doGetComponent -> createComponent -> populateComponent ->
   doGetComponent is modelled with explicit fuel; [Fail FFuel] is the model's "did not terminate".
   [c02_terminates] excludes it BY PROOF for every scenario (every directed graph, every edge kind,
   every position of every cycle, every processor set), for the repaired and the unrepaired tree:
   the measure is the number of defined names without a cache entry; a name in creation always has
   an early-factory or early-reference entry, so re-entering it is answered from the cache.

   [c02_cycles_succeed] (satisfiable graphs without substitution or faults start successfully with
   every required point populated) is decided on every run by the oracle [oracle_cycles_succeed] /
   [oracle_points] of Corr/WiringOracles.v on the implementation's observations and by the exact
   correspondence with the model; its Rocq proof (every step of the monadic model yields Ok under
   those hypotheses) is not done: it is the part of C02 that is c02_..._partial. *)
From Coq Require Import List Arith Bool ZArith.
From IocVerif Require Import Model.App Proofs.FactoryBasics Proofs.FactoryTermination Proofs.FactoryInvariant
  Proofs.ResolveProofs.
Import ListNotations.

(* start-up terminates: the model never runs out of fuel, whatever the graph *)
Theorem c02_terminates : forall vt s, match run vt s with Fail FFuel _ => False | _ => True end.
Proof. intros vt s. exact (run_terminates vt s). Qed.

(* ... and so does every later lookup, from any state whatsoever *)
Theorem c02_lookup_terminates : forall vt s st n,
  match do_get vt s (fuel_of s) st n with Fail FFuel _ => False | _ => True end.
Proof. intros vt s st n. exact (do_get_fuel_of vt s st n). Qed.

(* no component is ever wired to itself *)
Theorem c02_never_self : forall s st,
  run repaired s = Ok st -> forall h k v, In v (field_of st h k) -> v <> VOrig h.
Proof.
  intros s st H h k v Hv Heq.
  pose proof (run_core_top repaired (normalise repaired s) st eq_refl H) as [HI _].
  pose proof (i_noself st HI h k v Hv) as Hs. subst v. cbn [is_self] in Hs. rewrite Nat.eqb_refl in Hs. discriminate.
Qed.

(* a point that could only be satisfied by its own holder has no candidate at all: it is reported
   (required) or left empty (optional); it is never looped on *)
Theorem c02_self_only : forall pop h p inj,
  (forall n, In (Some n) inj -> n = h) ->
  filter_dependencies repaired pop h p inj = Resolve.FErr /\
  further_one repaired pop h p inj = (if pt_required p then None else Some []).
Proof.
  intros pop h p inj Hall.
  assert (Hf : filter_dependencies repaired pop h p inj = Resolve.FErr).
  { rewrite filter_dependencies_repaired by reflexivity.
    destruct (survivors pop h p inj) as [|a r] eqn:E; [reflexivity|].
    assert (Ha : In a (survivors pop h p inj)) by (rewrite E; left; reflexivity).
    apply survivors_In in Ha. destruct Ha as [Hin Hadm]. rewrite (Hall a Hin) in Hadm.
    unfold admitted in Hadm. rewrite Nat.eqb_refl in Hadm. discriminate. }
  split; [exact Hf|]. unfold further_one. rewrite Hf. reflexivity.
Qed.

(* non-vacuity: a cycle of three through a pointer, an interface slice and a name terminates and starts
   (Properties/C01.v ex_scn1 is the same scenario with its wiring spelled out) *)
Definition ex_pop2 : population :=
  [ mkComp 100 [] false None false true [] [] [] None None None false (Some (Ord 2, PBuiltin BWire));
    mkComp 101 [] false None false true [] [] [] None None None false (Some (Ord 4, PBuiltin BFurther));
    mkComp 0 [0] false None false false [] [mkPoint false (TPtr 1) SByType None true] [] None (Some false) None false None;
    mkComp 1 [0] false None false false [] [mkPoint true (TIface 0) SByType None true; mkPoint false (TPtr 2) SByType None true] [] None (Some false) None false None;
    mkComp 2 [] false None false false [] [mkPoint false (TIface 0) (SByName (Some 2)) None true] [] None None None false None;
    (* a component whose only candidate for its required interface point is itself *)
    mkComp 3 [5] false None false true [] [mkPoint false (TIface 5) SByType None true] [] None None None false None ].

Example c02_example_cycle :
  match run repaired (mkScn ex_pop2 [] false None []) with Ok st => field_of st 4 0 = [VOrig 2] | Fail _ _ => False end.
Proof. vm_compute. reflexivity. Qed.

Example c02_example_self_only :
  match do_get repaired (normalise repaired (mkScn ex_pop2 [] false None [])) 10
          (match run repaired (mkScn ex_pop2 [] false None []) with Ok st => st | Fail _ st => st end) 5 with
  | Fail (FErr EFurther) _ => True
  | _ => False
  end.
Proof. vm_compute. exact I. Qed.
