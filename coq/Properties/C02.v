(* C02 — Circular dependencies resolve and start-up always terminates.

   Same model as C01.  The recursion doGetComponent -> createComponent -> populateComponent ->
   doGetComponent is modelled with explicit fuel; [Fail FFuel] is the model's "did not terminate".
   [c02_terminates] excludes it BY PROOF for every scenario (every directed graph, every edge kind,
   every position of every cycle, every processor set), for the repaired and the unrepaired tree:
   the measure is the number of defined names without a cache entry; a name in creation always has
   an early-factory or early-reference entry, so re-entering it is answered from the cache.

   [c02_cycles_succeed]: when no post-processor substitutes components ([no_subst_b]), no callback or
   loader fails ([no_faults_b]) and every point's proposed providers exist and are assignable
   ([satisfiable_b]: in particular every REQUIRED point has a provider other than its holder), start-up
   succeeds, whatever the cycles (Proofs/FactoryLiveness.v: under these hypotheses no step of the model can
   fail with an error or a panic, and the termination theorem excludes fuel exhaustion); with
   [c09_required_points_set] every required point is then populated with what the resolution proposes.
   [procs_pointless_b] / [stages_ok_b] are the side conditions about the built-in pipeline that the checks
   re-evaluate on the facts of every run. *)
From Coq Require Import List Arith Bool ZArith.
From IocVerif Require Import Model.App Proofs.FactoryBasics Proofs.FactoryTermination Proofs.FactoryInvariant
  Proofs.ResolveProofs Proofs.FactoryNoPanic Proofs.FactoryWiring Proofs.FactoryLiveness.
Import ListNotations.

(* start-up terminates: the model never runs out of fuel, whatever the graph *)
Theorem c02_terminates : forall vt s, match run vt s with Fail FFuel _ => False | _ => True end.
Proof. intros vt s. exact (run_terminates vt s). Qed.

(* ... and so does every later lookup, from any state whatsoever *)
Theorem c02_lookup_terminates : forall vt s st n,
  match do_get vt s (fuel_of s) st n with Fail FFuel _ => False | _ => True end.
Proof. intros vt s st n. exact (do_get_fuel_of vt s st n). Qed.

(* cycles resolve: a satisfiable graph without substitution and without faults starts successfully *)
Theorem c02_cycles_succeed : forall s,
  no_subst_b (normalise repaired s) = true -> no_faults_b (normalise repaired s) = true ->
  satisfiable_b repaired (normalise repaired s) = true ->
  procs_pointless_b (normalise repaired s) = true -> stages_ok_b (normalise repaired s) = true ->
  exists st, run repaired s = Ok st.
Proof.
  intros s Hns Hnf Hsat Hpp Hso.
  exact (run_core_succeeds repaired (normalise repaired s) eq_refl eq_refl eq_refl eq_refl Hns Hnf Hsat Hpp Hso).
Qed.

(* no component is ever wired to itself *)
Theorem c02_never_self : forall s st,
  run repaired s = Ok st -> forall h k v, In v (field_of st h k) -> v <> VOrig h.
Proof.
  intros s st H h k v Hv Heq.
  pose proof (run_core_top (P:=anyk) repaired (normalise repaired s) st eq_refl H) as [HI _].
  pose proof (i_noself st HI h k v I Hv) as Hs. subst v. cbn [is_self] in Hs. rewrite Nat.eqb_refl in Hs. discriminate.
Qed.

(* a point that could only be satisfied by its own holder has no candidate at all: it is reported
   (required) or left empty (optional); it is never looped on *)
Theorem c02_self_only : forall pop h p inj,
  (forall n, In (Some n) inj -> n = h) ->
  filter_dependencies repaired pop h p inj = Resolve.FErr /\
  further_one repaired pop h p inj = (if pt_required p then None else Some []).
Proof.
  intros pop h p inj Hall.
  assert (Hf : filter_dependencies repaired pop h p inj = Resolve.FErr).
  { rewrite filter_dependencies_repaired by reflexivity.
    destruct (survivors pop h p inj) as [|a r] eqn:E; [reflexivity|].
    assert (Ha : In a (survivors pop h p inj)) by (rewrite E; left; reflexivity).
    apply survivors_In in Ha. destruct Ha as [Hin Hadm]. rewrite (Hall a Hin) in Hadm.
    unfold admitted in Hadm. rewrite Nat.eqb_refl in Hadm. discriminate. }
  split; [exact Hf|]. unfold further_one. rewrite Hf. reflexivity.
Qed.

(* non-vacuity: a cycle of three through a pointer, an interface slice and a name terminates and starts
   (Properties/C01.v ex_scn1 is the same scenario with its wiring spelled out) *)
Definition ex_pop2 : population :=
  [ mkComp 100 [] false None false true [] [] [] None None None false (Some (Ord 2, PBuiltin BWire));
    mkComp 101 [] false None false true [] [] [] None None None false (Some (Ord 4, PBuiltin BFurther));
    mkComp 0 [0] false None false false [] [mkPoint false (TPtr 1) SByType None true] [] None (Some false) None false None;
    mkComp 1 [0] false None false false [] [mkPoint true (TIface 0) SByType None true; mkPoint false (TPtr 2) SByType None true] [] None (Some false) None false None;
    mkComp 2 [] false None false false [] [mkPoint false (TIface 0) (SByName (Some 2)) None true] [] None None None false None;
    (* a component whose only candidate for its required interface point is itself *)
    mkComp 3 [5] false None false true [] [mkPoint false (TIface 5) SByType None true] [] None None None false None ].

(* the hypotheses of c02_cycles_succeed hold for a graph with a cycle through a pointer, a slice and a name
   (the five built-in stages in the order the real container sorts them, as read from the running code) *)
Definition ex_pop2s : population :=
  [ mkComp 100 [] false None false true [] [] [] None None None false (Some (Prio 16, PBuiltin BProps));
    mkComp 101 [] false None false true [] [] [] None None None false (Some (Prio 16, PBuiltin BValue));
    mkComp 102 [] false None false true [] [] [] None None None false (Some (Ord 2, PBuiltin BWire));
    mkComp 103 [] false None false true [] [] [] None None None false (Some (Ord 2, PBuiltin BFunc));
    mkComp 104 [] false None false true [] [] [] None None None false (Some (Ord 4, PBuiltin BFurther));
    mkComp 0 [0] false None false false [] [mkPoint false (TPtr 1) SByType None true] [] None (Some false) None false None;
    mkComp 1 [0] false None false false [] [mkPoint true (TIface 0) SByType None true; mkPoint false (TPtr 2) SByType None true] [] None (Some false) None false None;
    mkComp 2 [] false None false false [] [mkPoint false (TIface 0) (SByName (Some 5)) None true] [] None None None false None ].

Example c02_example_hypotheses :
  let s := normalise repaired (mkScn ex_pop2s [] false None []) in
  no_subst_b s && no_faults_b s && satisfiable_b repaired s && procs_pointless_b s && stages_ok_b s = true.
Proof. vm_compute. reflexivity. Qed.

Example c02_example_cycle :
  match run repaired (mkScn ex_pop2 [] false None []) with Ok st => field_of st 4 0 = [VOrig 2] | Fail _ _ => False end.
Proof. vm_compute. reflexivity. Qed.

Example c02_example_self_only :
  match do_get repaired (normalise repaired (mkScn ex_pop2 [] false None [])) 10
          (match run repaired (mkScn ex_pop2 [] false None []) with Ok st => st | Fail _ st => st end) 5 with
  | Fail (FErr EFurther) _ => True
  | _ => False
  end.
Proof. vm_compute. exact I. Qed.

(* ---- extended semantics (Model/FactoryX.v) --------------------------------------------------------------------
   Callbacks that re-enter the container (an Init that looks components up, any names, cycles through the
   component in creation included) and post-processors that short-circuit instantiation do not endanger
   termination: a start of the extended model never exhausts the model's fuel either.  The bound is the same
   one: a nested call finds a cache entry, short-circuits without recursion, or caches a defined name first. *)
From IocVerif Require Import Model.FactoryTrace Model.FactoryX Proofs.FactoryXProofs.

Theorem c02_terminates_extended : forall vt s x, nofuel (snd (run_xt vt s x)).
Proof. exact run_xt_terminates. Qed.

(* non-vacuity: a component whose Init looks itself up and the component that is creating it *)
Example c02_example_reentrant :
  match snd (run_xt repaired (mkScn ex_pop2s [] false None []) (mkX [] [(5, [5; 6]); (6, [5; 7; 6])])) with
  | Ok st => field_of st 5 100 = [VOrig 5] /\ field_of st 6 101 = [VOrig 7]
  | Fail _ _ => False
  end.
Proof. vm_compute. split; reflexivity. Qed.

(* no injection point of the extended model holds its own holder either *)
From IocVerif Require Import Proofs.FactoryXInv.
Theorem c02_never_self_extended : forall s x o st,
  run_xt repaired s x = (o, Ok st) -> forall h k v, k < 100 -> In v (field_of st h k) -> v <> VOrig h.
Proof. intros s x o st H. exact (run_xt_never_self repaired s x o st eq_refl H). Qed.

(* cycles resolve under the extended semantics too: a satisfiable graph without substitution and without faults starts
   successfully, whichever registered components the Init methods look up in the middle of their own creation and
   whichever components are short-circuited (no component has more than 100 points; the Init methods of the
   post-processor components issue no lookups) *)
From Coq Require Import Lia.
From IocVerif Require Import Proofs.FactoryXLife Proofs.FactoryXNoPanic Proofs.FactoryXLiveness.
Theorem c02_cycles_succeed_extended : forall s x,
  small_points s ->
  no_subst_b (normalise repaired s) = true -> no_faults_b (normalise repaired s) = true ->
  satisfiable_b repaired (normalise repaired s) = true ->
  procs_pointless_b (normalise repaired s) = true -> procs_quiet_b (normalise repaired s) x = true ->
  initgets_defined_b (normalise repaired s) x = true -> stages_ok_b (normalise repaired s) = true ->
  exists o st, run_xt repaired s x = (o, Ok st).
Proof.
  intros s x Hsm Hns Hnf Hsat Hpp Hpq Hxd Hso.
  exact (run_core_xt_succeeds repaired (normalise repaired s) x eq_refl eq_refl eq_refl eq_refl Hsm Hns Hnf Hsat Hpp Hpq Hxd Hso).
Qed.

(* non-vacuity, with the five built-in stages: the two-cycle 5 <-> 6 where 6's Init also looks 5 (in creation: the
   early reference) and 8 up, and processor 7 short-circuits 8 *)
Definition ex_scn2x : scenario :=
  mkScn [ mkComp 100 [] false None false true [] [] [] None None None false (Some (Prio 16, PBuiltin BProps));
          mkComp 101 [] false None false true [] [] [] None None None false (Some (Prio 16, PBuiltin BValue));
          mkComp 102 [] false None false true [] [] [] None None None false (Some (Ord 2, PBuiltin BWire));
          mkComp 103 [] false None false true [] [] [] None None None false (Some (Ord 2, PBuiltin BFunc));
          mkComp 104 [] false None false true [] [] [] None None None false (Some (Ord 4, PBuiltin BFurther));
          mkComp 0 [] false None false false [] [mkPoint false (TPtr 1) SByType None true] [] None None None false None;
          mkComp 1 [] false None false false [] [mkPoint false (TPtr 0) SByType None true] [] None (Some false) None false None;
          mkComp 7 [] false None false false [] [] [] None None None false (Some (Unord, PUser [] []));
          mkComp 2 [] false None false false [] [] [] None None None false None ]
        [] false None [].
Definition ex_x2 : extras := mkX [(7, 8)] [(6, [5; 8])].

Example c02_example_extended :
  small_points ex_scn2x
  /\ no_subst_b (normalise repaired ex_scn2x) = true /\ no_faults_b (normalise repaired ex_scn2x) = true
  /\ satisfiable_b repaired (normalise repaired ex_scn2x) = true /\ procs_pointless_b (normalise repaired ex_scn2x) = true
  /\ procs_quiet_b (normalise repaired ex_scn2x) ex_x2 = true /\ initgets_defined_b (normalise repaired ex_scn2x) ex_x2 = true
  /\ stages_ok_b (normalise repaired ex_scn2x) = true
  /\ match snd (run_xt repaired ex_scn2x ex_x2) with
     | Ok st => field_of st 6 100 = [VOrig 5] /\ field_of st 6 101 = [VOrig 8] /\ field_of st 5 0 = [VOrig 6] /\ field_of st 6 0 = [VOrig 5]
     | Fail _ _ => False
     end.
Proof.
  split.
  - intros n c H. do 9 (destruct n as [|n]; [cbn in H; inversion H; subst; cbn; lia|]). destruct n; discriminate.
  - vm_compute. repeat split.
Qed.
