(* C10 — Start-up outcome does not depend on registration or iteration order.

   In the model a component IS the rank of its registered name (byte order), so the registration
   order does not exist as an input at all; what the real registries add to it is the order in which
   their sync.Map enumerates definitions and singletons: the [s_oracle] of a scenario, an arbitrary
   list.  On the repaired tree GetMetas and GetSingletonNames sort their result, which is
   [normalise]: the oracle is replaced by the name order before anything looks at it.
   [c10_order_irrelevant]: the whole start (outcome, every field, the event log, the registry) and
   every later lookup are the same function of the component set for ALL oracles.
   The goroutine schedules of the parallel scanning phase are covered by C20; here the result of
   scanning (one definition per component, properties in processor order) is part of [population]. *)
From Coq Require Import List Arith Bool ZArith.
From IocVerif Require Import Model.App.
Import ListNotations.

Definition with_oracle (s : scenario) (o : list name) : scenario :=
  mkScn (s_pop s) (s_faults s) (s_loader_fail s) (s_app s) o.

Theorem c10_order_irrelevant : forall s o o',
  run repaired (with_oracle s o) = run repaired (with_oracle s o').
Proof. intros s o o'. reflexivity. Qed.

Theorem c10_lookups_order_irrelevant : forall s o o' ns st,
  lookups repaired (with_oracle s o) ns st = lookups repaired (with_oracle s o') ns st.
Proof. intros s o o' ns st. reflexivity. Qed.

(* in particular every point, tied or not, receives the same component under every order: ties are
   broken by name *)
Theorem c10_fields_order_irrelevant : forall s o o' st st' h k,
  run repaired (with_oracle s o) = Ok st -> run repaired (with_oracle s o') = Ok st' ->
  field_of st h k = field_of st' h k.
Proof.
  intros s o o' st st' h k H H'. rewrite (c10_order_irrelevant s o o') in H. congruence.
Qed.

(* the unrepaired tree depends on it: a holder that competes with another component for its own
   single-valued field starts or fails depending on which of the two the registry yields last *)
Definition ex_pop10 : population :=
  [ mkComp 100 [] false None false true [] [] [] None None None false (Some (Ord 2, PBuiltin BWire));
    mkComp 101 [] false None false true [] [] [] None None None false (Some (Ord 4, PBuiltin BFurther));
    mkComp 0 [0] false None false false [] [mkPoint false (TIface 0) SByType None true] [] None None None false None;
    mkComp 1 [0] false None false false [] [] [] None None None false None ].
Definition ex_scn10 : scenario := mkScn ex_pop10 [] false None [].

Theorem c10_order_dependence_refuted :
  (exists st, run unrepaired (with_oracle ex_scn10 [0; 1; 2; 3]) = Ok st /\ field_of st 2 0 = [VOrig 3])
  /\ (exists st, run unrepaired (with_oracle ex_scn10 [0; 1; 3; 2]) = Fail (FErr ESelf) st).
Proof. split; eexists; vm_compute; repeat split. Qed.

Example c10_example :
  match run repaired (with_oracle ex_scn10 [0; 1; 3; 2]) with
  | Ok st => field_of st 2 0 = [VOrig 3]
  | Fail _ _ => False
  end.
Proof. vm_compute. reflexivity. Qed.

(* The registration phase, which the model above does not have as an input: SetComponents registers the components
   one after the other and panics at the first one whose name is held by a DIFFERENT instance.  Whether a component
   set is refused is a property of the set ([has_clash]: two requests with one name and two instances), not of the
   order of its registrations: every permutation of a refused set is refused, every permutation of an accepted one
   is accepted.  Instances are identities, never addresses (two components may live at one address). *)
From Coq Require Import Permutation.
From IocVerif Require Import Model.SingletonRegistry Proofs.SingletonRegistryProofs.

Theorem c10_refusal_order_irrelevant : forall rs rs',
  Permutation rs rs' -> SingletonRegistry.refused rs = SingletonRegistry.refused rs'.
Proof. exact refused_perm. Qed.

Theorem c10_refusal_is_of_the_set : forall rs,
  SingletonRegistry.refused rs = SingletonRegistry.has_clash rs.
Proof. exact refused_is_has_clash. Qed.

(* two stateless components of different types announcing one name (instances 0 and 1, name 20), a bystander:
   refused whichever comes first *)
Example c10_refusal_example :
  SingletonRegistry.refused [mkReq 0 (Some 20) 10; mkReq 2 None 12; mkReq 1 (Some 20) 11] = true
  /\ SingletonRegistry.refused [mkReq 1 (Some 20) 11; mkReq 0 (Some 20) 10; mkReq 2 None 12] = true
  /\ SingletonRegistry.refused [mkReq 0 (Some 20) 10; mkReq 2 None 12; mkReq 0 (Some 20) 10] = false.
Proof. vm_compute. repeat split. Qed.

(* the extended model (Model/FactoryX.v) does not read the enumeration order either *)
From IocVerif Require Import Model.FactoryX.
Theorem c10_order_irrelevant_extended : forall s x o o',
  run_xt repaired (with_oracle s o) x = run_xt repaired (with_oracle s o') x.
Proof. intros s x o o'. reflexivity. Qed.
