(* C09 — Unsatisfied required points fail start-up cleanly; optional ones never do.

   Same model as C01 (Model/Factory.v, Model/App.v).  A scenario carries every fault site the
   property names: callbacks that fail (AfterPropertiesSet / Init flags of a component, processor
   callbacks in [s_faults], failing runners, a failing loader), required points without providers,
   required configuration values that are not configured.  "Run returns an error, does not panic or
   hang" is [run] = [Fail (FErr _) _], never [Fail FPanic _] and never [Fail FFuel _].
   All statements quantify over every scenario, hence over every fault set (single faults, pairs, ...).

   Two side conditions of [c09_no_panic] are booleans over the scenario that the check re-evaluates
   on the facts read from the running code (Order values and classes of the built-in processors):
   [settled_b]: the further-matching processor runs after the processors that collect candidates;
   [procs_pointless_b]: no post-processor component has injection points of its own.  The second
   one delimits known finding KF-C05a (a post-processor component created during PrepareComponents
   before the built-in wire/value processors are active has its fields left unprocessed). *)
From Coq Require Import List Arith Bool ZArith.
From IocVerif Require Import Model.App Proofs.FactoryBasics Proofs.FactoryTermination Proofs.FactoryLog
  Proofs.FactoryNoPanic Proofs.ResolveProofs.
Import ListNotations.

(* never a hang: fuel is never exhausted (for every variant) *)
Theorem c09_no_hang : forall vt s, match run vt s with Fail FFuel _ => False | _ => True end.
Proof. intros vt s. exact (run_terminates vt s). Qed.

(* never a panic *)
Theorem c09_no_panic : forall s,
  procs_pointless_b (normalise repaired s) = true -> settled_b (normalise repaired s) = true ->
  match run repaired s with Fail FPanic _ => False | _ => True end.
Proof.
  intros s Hp Hs. apply (run_core_nopanic repaired (normalise repaired s) eq_refl eq_refl).
  - apply procs_pointless_b_sound. exact Hp.
  - apply settled_b_sound. exact Hs.
Qed.

(* a successful start reached no failing callback at all: every AfterPropertiesSet / Init / processor
   callback / runner that was invoked succeeded, and the loaders did.  Contrapositive: a single fault
   that is reached (or any set of them) makes Run return an error. *)
Theorem c09_fault_fails : forall s st,
  run repaired s = Ok st -> s_loader_fail s = false /\ Forall (clean s) (log st).
Proof.
  intros s st H. destruct (run_core_log_ok repaired (normalise repaired s) st H) as [Hl [st2 [Hlog [Hg Hn]]]].
  split; [exact Hl|]. rewrite Hlog. apply Forall_app. split.
  - apply Forall_rev. apply Forall_forall. intros e He. apply in_map_iff in He.
    destruct He as [n [<- Hin]]. cbn [clean]. apply Hn. exact Hin.
  - eapply Forall_impl; [|exact Hg]. intros e [_ Hc]. exact Hc.
Qed.

(* no application runner is invoked when start-up fails before the runner phase; if a runner was invoked
   at all, the failure is that of the most recently invoked runner *)
Theorem c09_no_runner_after_failure : forall s k st,
  run repaired s = Fail k st ->
  Forall (fun e => is_run e = false) (log st) \/
  exists n l, log st = EvRun n :: l /\ runner_fails s n = true.
Proof.
  intros s k st H. destruct (run_core_log_fail repaired (normalise repaired s) k st H) as [Hn|Hr].
  - left. exact Hn.
  - right. destruct Hr as [st2 [pre [n [post [_ [Hf [_ [Hl _]]]]]]]]. exists n. eexists. split; [exact Hl|exact Hf].
Qed.

(* an optional point never fails: without a (qualifying, assignable) provider it stays at its zero value *)
Theorem c09_optional_matching : forall pop h p inj,
  pt_required p = false -> further_one repaired pop h p inj <> None.
Proof.
  intros pop h p inj Hr. unfold further_one. destruct (filter_dependencies repaired pop h p inj); [discriminate|].
  rewrite Hr. discriminate.
Qed.

Theorem c09_optional_inject : forall s st h k p vs,
  pt_required p = false ->
  exists st', inject repaired s st h k p vs = Ok st' /\
              (st' = st \/ exists used, st' = write_field st h k used /\ used <> []).
Proof.
  intros s st h k p vs Hr. unfold inject. rewrite Hr.
  destruct vs as [|v0 r]; [eexists; split; [reflexivity|left; reflexivity]|].
  destruct (filter (fun v => negb (is_self h v)) (v0 :: r)) as [|w t]; [eexists; split; [reflexivity|left; reflexivity]|].
  destruct (forallb _ _); eexists; (split; [reflexivity|]).
  - right. eexists. split; [reflexivity|]. destruct (pt_slice p); discriminate.
  - left. reflexivity.
Qed.

(* non-vacuity: the side conditions hold for the built-in population as the real App registers it (the
   check evaluates them on the facts of every run; here on a copy), a failing Init fails the start before
   any runner, an optional point without provider does not *)
Definition ex_pop9 (init_fails : bool) : population :=
  [ mkComp 99 [] false None false false [] [mkPoint true (TIface 50) SByType None false; mkPoint true (TIface 51) SByType None false] [] None None None false None;
    mkComp 100 [] false None false true [] [] [] None None None false (Some (Ord 2, PBuiltin BWire));
    mkComp 101 [] false None false true [] [] [] None None None false (Some (Ord 2, PBuiltin BFunc));
    mkComp 102 [] false None false true [] [] [] None None None false (Some (Ord 4, PBuiltin BFurther));
    mkComp 103 [] false None false true [] [] [] None None None false (Some (Prio 16, PBuiltin BValue));
    mkComp 0 [50] false None false false [] [mkPoint false (TIface 7) SByType None false; mkPoint false (TPtr 1) (SByName None) None false]
          [mkCPoint false false false] None (Some init_fails) (Some (Unord, false)) false None ].

Example c09_example_conditions :
  procs_pointless_b (normalise repaired (mkScn (ex_pop9 false) [] false (Some (0, 0, 1)) [])) = true
  /\ settled_b (normalise repaired (mkScn (ex_pop9 false) [] false (Some (0, 0, 1)) [])) = true.
Proof. vm_compute. split; reflexivity. Qed.

Example c09_example_optional_ok :
  match run repaired (mkScn (ex_pop9 false) [] false (Some (0, 0, 1)) []) with
  | Ok st => log st = [EvRun 5; EvInit 5] /\ field_of st 5 0 = [] /\ field_of st 5 1 = []
  | Fail _ _ => False
  end.
Proof. vm_compute. repeat split. Qed.

Example c09_example_init_fails :
  match run repaired (mkScn (ex_pop9 true) [] false (Some (0, 0, 1)) []) with
  | Fail (FErr ECallback) st => log st = [EvInit 5]
  | _ => False
  end.
Proof. vm_compute. reflexivity. Qed.

(* ---- run level (Proofs/FactoryWiring.v): a successful start left no required injection point of any
   created component empty: each holds exactly what the resolution proposes for it ---------------------------- *)
From IocVerif Require Import Proofs.FactoryWiring.

Theorem c09_required_points_set : forall s st h c k p,
  run repaired s = Ok st ->
  procs_pointless_b (normalise repaired s) = true -> stages_ok_b (normalise repaired s) = true ->
  alookup h (L1 (reg st)) <> None -> get_comp (s_pop s) h = Some c -> nth_error (c_points c) k = Some p ->
  pt_required p = true ->
  field_of st h k <> [].
Proof.
  intros s st h c k p H Hpp Hso Hpub Hc Hk Hr.
  destruct (run_core_wired repaired (normalise repaired s) st eq_refl eq_refl eq_refl eq_refl Hpp Hso H h c k p Hpub Hc Hk)
    as [x [Hx Hw]].
  cbn [normalise s_pop s_oracle enum_order fix_c10 repaired] in Hx, Hw.
  unfold further_one in Hx. rewrite Hr in Hx.
  destruct (filter_dependencies repaired (s_pop s) h p (candidates (names_of (s_pop s)) (s_pop s) p)) as [l|] eqn:Ef;
    [|discriminate].
  injection Hx as <-.
  assert (Hl : l <> []).
  { rewrite filter_dependencies_repaired in Ef by reflexivity.
    destruct (survivors (s_pop s) h p (candidates (names_of (s_pop s)) (s_pop s) p)) as [|a t] eqn:E; [discriminate|].
    cbv zeta in Ef. injection Ef as Hl0. subst l.
    destruct (pt_slice p); [|destruct t]; intro Hx0; inversion Hx0. }
  apply (wired_point_required _ _ _ _ _ _ Hw Hr). rewrite remove_nil_map_Some. exact Hl.
Qed.

(* ---- extended semantics (Model/FactoryX.v): Init methods that call back into the factory, post-processors that
   short-circuit instantiation ------------------------------------------------------------------------------ *)
From IocVerif Require Import Model.FactoryX Proofs.FactoryXProofs Proofs.FactoryXLog.

Theorem c09_no_hang_extended : forall vt s x, nofuel (snd (run_xt vt s x)).
Proof. exact run_xt_terminates. Qed.

(* a successful start reached no failing callback; contrapositive: any fault that is reached makes Run fail *)
Theorem c09_fault_fails_extended : forall s x o st,
  run_xt repaired s x = (o, Ok st) -> s_loader_fail s = false /\ Forall (clean s) (log st).
Proof.
  intros s x o st H. destruct (run_core_xt_log_ok repaired (normalise repaired s) x o st H) as [Hl [st2 [Hlog [Hg Hn]]]].
  split; [exact Hl|]. rewrite Hlog. apply Forall_app. split.
  - apply Forall_rev. apply Forall_forall. intros e He. apply in_map_iff in He.
    destruct He as [n [<- Hin]]. cbn [clean]. apply Hn. exact Hin.
  - eapply Forall_impl; [|exact Hg]. intros e [_ Hc]. exact Hc.
Qed.

(* no runner is invoked when the start fails before the runner phase *)
Theorem c09_no_runner_after_failure_extended : forall s x o k st,
  run_xt repaired s x = (o, Fail k st) ->
  Forall (fun e => is_run e = false) (log st) \/
  exists n l, log st = EvRun n :: l /\ runner_fails s n = true.
Proof.
  intros s x o k st H. destruct (run_core_xt_log_fail repaired (normalise repaired s) x o k st H) as [Hn|Hr].
  - left. exact Hn.
  - right. destruct Hr as [st2 [pre [n [post [_ [Hf [_ [Hl _]]]]]]]]. exists n. eexists. split; [exact Hl|exact Hf].
Qed.

(* never a panic under the extended semantics either, provided additionally that the Init methods of the
   post-processor components issue no lookups (a lookup from there creates a component during PrepareComponents,
   under an incomplete pipeline: the class of known finding KF-C05a) *)
From IocVerif Require Import Proofs.FactoryXNoPanic.
Theorem c09_no_panic_extended : forall s x,
  procs_pointless_b (normalise repaired s) = true -> procs_quiet_b (normalise repaired s) x = true ->
  settled_b (normalise repaired s) = true ->
  match snd (run_xt repaired s x) with Fail FPanic _ => False | _ => True end.
Proof.
  intros s x Hp Hq Hs. apply (run_core_xt_nopanic repaired (normalise repaired s) x eq_refl eq_refl).
  - apply procs_pointless_b_sound. exact Hp.
  - apply procs_quiet_b_sound. exact Hq.
  - apply settled_b_sound. exact Hs.
Qed.

(* ---- the same at run level under the extended semantics (Model/FactoryX.v: Init methods that call back into the
   factory, post-processors that short-circuit instantiation; Proofs/FactoryXWiring.v).  Additional side conditions:
   no component has more than 100 points, the Init methods of the post-processor components issue no lookups, and
   the holder is not listed as short-circuited (such a component is not populated at all). ------------------- *)
From IocVerif Require Import Model.FactoryX Proofs.FactoryXLife Proofs.FactoryXNoPanic Proofs.FactoryXWiring.

Theorem c09_required_points_set_extended : forall s x o st h c k p,
  small_points s -> run_xt repaired s x = (o, Ok st) ->
  procs_pointless_b (normalise repaired s) = true -> procs_quiet_b (normalise repaired s) x = true ->
  stages_ok_b (normalise repaired s) = true ->
  alookup h (L1 (reg st)) <> None -> get_comp (s_pop s) h = Some c -> never_short x h -> nth_error (c_points c) k = Some p ->
  pt_required p = true ->
  field_of st h k <> [].
Proof.
  intros s x o st h c k p Hsm H Hpp Hq Hso Hpub Hc Hns Hk Hr.
  destruct (run_xt_wired s x o st Hsm H Hpp Hq Hso h c k p Hpub Hc Hns Hk) as [y0 [Hx Hw]].
  unfold further_one in Hx. rewrite Hr in Hx.
  destruct (filter_dependencies repaired (s_pop s) h p (candidates (names_of (s_pop s)) (s_pop s) p)) as [l|] eqn:Ef;
    [|discriminate].
  injection Hx as <-.
  assert (Hl : l <> []).
  { rewrite filter_dependencies_repaired in Ef by reflexivity.
    destruct (survivors (s_pop s) h p (candidates (names_of (s_pop s)) (s_pop s) p)) as [|a t] eqn:E; [discriminate|].
    cbv zeta in Ef. injection Ef as Hl0. subst l.
    destruct (pt_slice p); [|destruct t]; intro Hx0; inversion Hx0. }
  apply (wired_point_required _ _ _ _ _ _ Hw Hr). rewrite remove_nil_map_Some. exact Hl.
Qed.
