(* C17 — Configuration values reach fields unchanged.

   Property theorems only.  Model: Model/Values.v (decode_weak = the weak mapstructure decoding that
   Property.Unmarshall uses; the three routes prefix / value placeholder / prop shorthand and literal
   value tags) over Model/Strconv.v (strconv2.ParseAny / FormatAny, encoding/json) and
   Model/Placeholder.v (the ${} stage).  Lemmas: Proofs/ValuesProofs.v.

   float64 is modelled as exact decimals m * 10^e; the model is faithful for at most 15 significant
   digits and integers up to 2^53 in magnitude (the only rounding modelled is float64(z) for
   |z| > 2^53, round53, which c17_big_int_refuted uses).  The theorems below carry no size bound: every
   statement quantifies over all configuration values (cval: nil, bool, int of any magnitude, decimal,
   string of arbitrary bytes, list, map) and all field types (ftype: string, bool, int/uint of every
   width, float, interface{}, pointer, slice, map, struct - nested to any depth).

   The parameter fx says which tree is modelled: false = the unchanged value path (FormatAny), true = with
   fixes/D-C17g.diff.  The correspondence check reads fx off the running code on every run.

   [safe fx v T] (Model/Values.v) is the domain on which the value path format -> splice -> re-parse gives
   the field the prefix path gives:
     booleans                      always
     strings                       non-empty and [plain] (first byte none of ' " [ { + - digit, not
                                   true/false in any letter case, not of the form map[...])
     integers                      |z| <= 2^53 and the field type does not end in interface{}
                                   (int_target: string, bool, int*, uint*, float*, pointers / slices of those,
                                   and map / struct targets, where both routes fail alike)
     floats                        in normal form (the harness always presents them so), of a magnitude that
                                   %v writes in plain digits: 0 or 1e-4 <= |x| < 1e6 (dec_top_safe), any field type;
                                   with the repair D-C17g (fx = true: the ${} callback splices a float64 with
                                   FormatFloat 'f') floats of EVERY magnitude (c17_float_repaired)
     lists / maps                  [jsafe]: every string and key is JSON-plain (printable ASCII without
                                   " \ < > &), every integer is <= 2^53 in magnitude, every float is 0 or
                                   1e-6 <= |x| < 1e21 (encoding/json's plain-digit range), keys strictly sorted (the
                                   canonical presentation of a Go map); and [nsafe T]: no integer of the value is
                                   decoded into an interface-typed position of T
     nil                           not in [safe] (nil is "absent": both routes report "required")
   Strings INSIDE lists and maps may be number-like, bool-like, quoted or bracketed: they travel
   JSON-quoted and survive.  Outside [safe] the statement is false of the faithful model of the
   unchanged code: one refuted theorem per known-finding class KF-C17a..i.

   "The configured value" is the value at the time of the binding (c17_repopulate_*, c17_rebind_after_set, over
   Model/Rebind.v and the configuration store of Model/ConfigStore.v): the configuration points of one component
   definition may be populated more than once - a lazily created component whose creation failed after the
   placeholder pass is created again on the next request - with Configure.Set in between; every pass binds from the
   configuration as it is then, on all three routes alike. *)
From Coq Require Import List NArith ZArith Bool.
From IocVerif Require Import Model.Values Proofs.StrconvProofs Proofs.ValuesProofs.
From IocVerif Require Import Model.ConfigStore Model.Rebind Proofs.ConfigStoreProofs Proofs.RebindProofs.
Import ListNotations.

(* ---- prefix:"a.b" ---------------------------------------------------------------------------------------- *)

(* Binding by prefix gives the field decode_weak of the configured subtree - "the configured value
   converted to the field's type" - for scalars, lists (element-wise), maps (value-wise), structs
   (field-wise by yaml tag / case-insensitive name; fields without a key keep their zero value) and
   pointers; a nil element sets nothing; and a value that already has the field's type ([embed]: no
   conversion involved) is bound unchanged, to any nesting depth. *)
Theorem c17_prefix_exact :
  (forall v T, v <> VNull -> bind_prefix v T = decode_weak v T) /\
  (forall T v f, embed T v = Some f -> bind_prefix v T = Ok f) /\
  (forall l T, decode_weak (VList l) (TSlice T) = rmap FSlice (res_all (map (fun x => decode_weak x T) l))) /\
  (forall kvs T, decode_weak (VMap kvs) (TMap T) =
     rmap (fun l => FMap (fmap_of l))
          (res_all (map (fun kv : bytes * cval => rmap (fun x => (fst kv, x)) (decode_weak (snd kv) T)) kvs))) /\
  (forall kvs fs, decode_weak (VMap kvs) (TStruct fs) = rmap FStruct (res_all (map (decode_field kvs) fs))) /\
  (forall v T, v <> VNull -> decode_weak v (TPtr T) = rmap FPtr (decode_weak v T)) /\
  (forall T, decode_weak VNull T = Ok (zero_of T)).
Proof.
  split; [exact bind_prefix_nonnull|]. split; [exact embed_bind_prefix|]. exact decode_shape.
Qed.

(* in particular string values arrive unchanged, byte for byte *)
Corollary c17_prefix_string : forall s, bind_prefix (VStr s) TString = Ok (FStr s).
Proof. intros s. apply embed_bind_prefix. reflexivity. Qed.

Definition ex_struct_type : ftype :=
  TStruct [([110;97;109;101]%N, TString); ([112]%N, TInt 64); ([116;97;103;115]%N, TSlice TString);
           ([105;110]%N, TPtr (TStruct [([120]%N, TFloat 64)])); ([101;120;116;114;97]%N, TMap TAny)].
Definition ex_struct_value : cval :=
  VMap [([105;110]%N, VMap [([120]%N, VDec 15 (-1))]); ([110;97;109;101]%N, VStr [48;48;55]%N);
        ([112]%N, VInt 8080); ([116;97;103;115]%N, VList [VStr [49;46;49;48]%N; VStr [84;82;85;69]%N]);
        ([101;120;116;114;97]%N, VMap [([97]%N, VInt 1); ([98]%N, VList [VBool true; VStr [39;113;39]%N])])].
Example c17_prefix_exact_ex :
  embed ex_struct_type ex_struct_value =
  Some (FStruct [([110;97;109;101]%N, FStr [48;48;55]%N); ([112]%N, FInt 8080);
                 ([116;97;103;115]%N, FSlice [FStr [49;46;49;48]%N; FStr [84;82;85;69]%N]);
                 ([105;110]%N, FPtr (FStruct [([120]%N, FFloat 15 (-1))]));
                 ([101;120;116;114;97]%N, FMap [([97]%N, FAny (VInt 1)); ([98]%N, FAny (VList [VBool true; VStr [39;113;39]%N]))])]).
Proof. vm_compute. reflexivity. Qed.

(* ---- value:"${a.b}" and prop:"a.b" -------------------------------------------------------------------------- *)

(* FormatAny, splice, ParseAny, Unmarshall gives what Get, Unmarshall gives - for ALL values and types in [safe] *)
Theorem c17_paths_agree : forall fx v T, safe fx v T = true -> bind_formatted fx v T = bind_prefix v T.
Proof. exact paths_agree. Qed.

(* the form of the design note: on the unchanged tree (fx = false) the spliced text is FormatAny's *)
Corollary c17_paths_agree_text : forall v T text, safe false v T = true -> format_any v = Ok text ->
  bind_value text T = bind_prefix v T.
Proof.
  intros v T text Hs Hf. rewrite <- (paths_agree false v T Hs). unfold bind_formatted.
  now rewrite format_cfg_false, Hf.
Qed.

(* with the repair D-C17g a float64 of ANY magnitude reaches every field type unchanged by the route *)
Corollary c17_float_repaired : forall m e T, dec_normal m e = true ->
  bind_formatted true (VDec m e) T = bind_prefix (VDec m e) T.
Proof. intros m e T H. apply paths_agree. exact H. Qed.

(* the same through the real tag text value:"${key}": the ${} stage (with its substitution budget), the #{}
   stage and the binding stage - provided the formatted text contains neither sigil ([inert]), so that
   neither stage touches it again *)
Theorem c17_paths_agree_key : forall fx cfg key T text,
  key_ok key = true -> safe fx (cfg key) T = true -> format_cfg fx (cfg key) = Ok text -> inert text = true ->
  bind_key_value fx cfg key T = Some (bind_prefix (cfg key) T).
Proof. exact paths_agree_key. Qed.

(* prop:"key[,args]" binds exactly as value:"${key}[,args]" (the scan-time rewrite keeps the arguments, and the
   value part of both tags is ${key}) - for every configuration, every argument text and every field type *)
Theorem c17_prop_is_value : forall fx cfg req key args T,
  simple_key key = true -> args = [] \/ (exists a, args = b_comma :: a) ->
  bind_prop fx cfg req (key ++ args) T = bind_tag_value fx cfg req (tag_value_part (ph key ++ args)) T
  /\ tag_value_part (ph key ++ args) = ph key.
Proof. exact prop_is_value. Qed.

Corollary c17_prop_agrees : forall fx cfg key T text,
  key_ok key = true -> simple_key key = true ->
  safe fx (cfg key) T = true -> format_cfg fx (cfg key) = Ok text -> inert text = true ->
  bind_prop fx cfg true key T = Some (bind_prefix (cfg key) T).
Proof.
  intros fx cfg key T text Hk Hsk Hs Hf Hi.
  destruct (prop_is_value fx cfg true key [] T Hsk (or_introl eq_refl)) as [H1 H2].
  rewrite (app_nil_r key), (app_nil_r (ph key)) in H1. rewrite (app_nil_r (ph key)) in H2. rewrite H1, H2. exact (paths_agree_key fx cfg key T text Hk Hs Hf Hi).
Qed.

(* a non-trivial member of [safe]: nested maps and lists with integers, number-like / bool-like / quoted strings
   inside, into a struct with a yaml-tagged field, a pointer and a slice *)
Definition ex_safe_type : ftype :=
  TStruct [([110;97;109;101]%N, TString); ([112]%N, TInt 32); ([116;97;103;115]%N, TSlice TString);
           ([111;112;116;115]%N, TPtr (TMap (TSlice (TFloat 64)))); ([109;105;115;115;105;110;103]%N, TAny)].
Definition ex_safe_value : cval :=
  VMap [([110;97;109;101]%N, VStr [104;101;108;108;111;32;119;111;114;108;100]%N);
        ([111;112;116;115]%N, VMap [([97]%N, VList [VInt 1; VInt (-250); VDec 125 (-2); VDec (-5) (-6)]); ([98]%N, VInt 9007199254740992)]);
        ([112]%N, VInt 8080);
        ([116;97;103;115]%N, VList [VStr [49;46;49;48]%N; VStr [84;82;85;69]%N; VStr [39;113;39]%N; VInt 7; VBool true; VNull])].
Example c17_paths_agree_ex :
  safe false ex_safe_value ex_safe_type = true /\
  bind_formatted false ex_safe_value ex_safe_type = bind_prefix ex_safe_value ex_safe_type /\
  (exists f, bind_prefix ex_safe_value ex_safe_type = Ok f).
Proof. split; [vm_compute; reflexivity|]. split; [vm_compute; reflexivity|]. eexists. vm_compute. reflexivity. Qed.

(* floats of everyday magnitude, into every kind of field *)
Example c17_paths_agree_float_ex :
  safe false (VDec 31415 (-4)) (TSlice TString) = true /\ safe false (VDec (-25) (-5)) TAny = true /\
  safe false (VDec 999999 0) (TInt 8) = true /\
  bind_formatted false (VDec 31415 (-4)) (TSlice TString) = Ok (FSlice [FStr [51;46;49;52;49;53]%N]) /\
  safe false (VDec 1 6) TString = false /\ safe true (VDec 1 6) TString = true /\
  bind_formatted true (VDec 1 6) TString = Ok (FStr [49;48;48;48;48;48;48]%N).
Proof. repeat split; vm_compute; reflexivity. Qed.

Definition ex_key : bytes := [97;112;112;46;99;102;103]%N.      (* app.cfg *)
Example c17_paths_agree_key_ex :
  key_ok ex_key = true /\ simple_key ex_key = true /\
  safe false (cfg_of [(ex_key, ex_safe_value)] ex_key) ex_safe_type = true /\
  (exists text, format_cfg false (cfg_of [(ex_key, ex_safe_value)] ex_key) = Ok text /\ inert text = true) /\
  bind_prop false (cfg_of [(ex_key, ex_safe_value)]) true ex_key ex_safe_type
    = Some (bind_prefix ex_safe_value ex_safe_type).
Proof.
  split; [reflexivity|]. split; [reflexivity|]. split; [vm_compute; reflexivity|].
  split; [eexists; split; vm_compute; reflexivity|]. vm_compute. reflexivity.
Qed.

Example c17_prop_is_value_ex :
  simple_key ex_key = true /\
  bind_prop false (cfg_of [(ex_key, VStr [120]%N)]) false (ex_key ++ lit_req_false) TString = Some (Ok (FStr [120]%N)).
Proof. split; vm_compute; reflexivity. Qed.

(* ---- value:"literal" ---------------------------------------------------------------------------------------- *)

(* a plain literal reaches a string field as written *)
Theorem c17_literal : forall s, plain s = true -> s <> [] -> bind_value s TString = Ok (FStr s).
Proof. exact literal_string. Qed.

(* ... with required=false also the empty one; and through the tag stages when no sigil occurs *)
Theorem c17_literal_optional : forall s, plain s = true -> bind_value_r false s TString = Ok (FStr s).
Proof. exact literal_string_optional. Qed.

Theorem c17_literal_tag : forall fx cfg req s T, inert s = true ->
  bind_tag_value fx cfg req s T = Some (bind_value_r req s T).
Proof. exact literal_tag. Qed.

Definition ex_literal : bytes := [104;101;108;108;111;44;32;119;58;111;114;108;100;32;40;49;46;49;48;41]%N.  (* hello, w:orld (1.10) *)
Example c17_literal_ex : plain ex_literal = true /\ ex_literal <> [] /\ inert ex_literal = true.
Proof. split; [vm_compute; reflexivity|]. split; [discriminate|vm_compute; reflexivity]. Qed.

(* ---- outside [safe]: the known-finding classes, each refuted on its canonical witness ------------------------------ *)

Ltac differ := intros H; vm_compute in H; discriminate H.

(* KF-C17a  "1.10" into a string field: the value path binds "1.1" *)
Theorem c17_number_like_refuted : forall fx, exists v T, bind_formatted fx v T <> bind_prefix v T.
Proof. intros fx. exists (VStr [49;46;49;48]%N), TString. destruct fx; differ. Qed.

(* KF-C17b  "TRUE" into a string field: the value path binds "1" *)
Theorem c17_bool_like_refuted : forall fx, exists v T, bind_formatted fx v T <> bind_prefix v T.
Proof. intros fx. exists (VStr [84;82;85;69]%N), TString. destruct fx; differ. Qed.

(* KF-C17c  'q' into a string field: the quotes are gone *)
Theorem c17_quoted_refuted : forall fx, exists v T, bind_formatted fx v T <> bind_prefix v T.
Proof. intros fx. exists (VStr [39;113;39]%N), TString. destruct fx; differ. Qed.

(* KF-C17d  "[a,b]" into a string field: parsed as a list, binding fails *)
Theorem c17_bracketed_refuted : forall fx, exists v T, bind_formatted fx v T <> bind_prefix v T.
Proof. intros fx. exists (VStr [91;97;44;98;93]%N), TString. destruct fx; differ. Qed.

(* KF-C17e  2^53 + 1 into an int64 field: float64 rounding on the value path *)
Theorem c17_big_int_refuted : forall fx, exists v T, bind_formatted fx v T <> bind_prefix v T.
Proof. intros fx. exists (VInt 9007199254740993), (TInt 64). destruct fx; differ. Qed.

(* KF-C17f  123 into interface{}: int on the prefix path, float64 on the value path *)
Theorem c17_int_in_any_refuted : forall fx, exists v T, bind_formatted fx v T <> bind_prefix v T.
Proof. intros fx. exists (VInt 123), TAny. destruct fx; differ. Qed.

(* KF-C17g  the float64 1000000 into a string field: "1000000" by prefix, "1e+06" by value - on the unrepaired
   tree only (fx = false); c17_float_repaired is the statement after fixes/D-C17g.diff *)
Theorem c17_float_eform_refuted : exists v T, bind_formatted false v T <> bind_prefix v T.
Proof. exists (VDec 1 6), TString. differ. Qed.

(* KF-C17h  the empty string: bound by prefix, "required" error by value *)
Theorem c17_empty_string_refuted : forall fx, exists v T, bind_formatted fx v T <> bind_prefix v T.
Proof. intros fx. exists (VStr []), TString. destruct fx; differ. Qed.

(* A default written in the placeholder is for keys that are absent (nil, empty map, empty list: Placeholder.absent).
   A key that is PRESENT - the empty string included - is bound through value:"${key:d}" exactly as through
   value:"${key}": the default plays no part, for every field type, with or without required=false.  (For the empty
   string that common result is the one of class KF-C17h: TagVal is empty, i.e. "required" or nothing bound - NOT d.) *)
Theorem c17_default_only_for_absent : forall fx cfg key d req T text,
  key_ok key = true -> brace_free d = true -> absent (cfg key) = false ->
  format_cfg fx (cfg key) = Ok text -> inert text = true ->
  bind_tag_value fx cfg req (ph (key_dflt key (Some d))) T = bind_tag_value fx cfg req (ph key) T /\
  bind_tag_value fx cfg req (ph key) T = Some (bind_value_r req text T).
Proof. exact default_ignored_when_present. Qed.

(* k: "" with value:"${k:dflt}" and prop:"k:dflt" into a string field: not "dflt" - the required error of KF-C17h, and
   with required=false the field keeps "" as the prefix route binds it; k: "x" gives "x" *)
Example c17_default_only_for_absent_ex :
  let cfg := cfg_of [([107]%N, VStr []); ([106]%N, VStr [120]%N)] in
  let tag := ph (key_dflt [107]%N (Some [100;102;108;116]%N)) in
  absent (cfg [107]%N) = false /\
  bind_tag_value false cfg true tag TString = Some Err /\
  bind_tag_value false cfg false tag TString = Some (Ok (FStr [])) /\
  bind_prop false cfg false ([107;58;100;102;108;116]%N ++ lit_req_false) TString = Some (Ok (FStr [])) /\
  bind_prefix (cfg [107]%N) TString = Ok (FStr []) /\
  bind_tag_value false cfg true (ph (key_dflt [106]%N (Some [100;102;108;116]%N))) TString = Some (Ok (FStr [120]%N)) /\
  bind_tag_value false cfg true (ph (key_dflt [113]%N (Some [100;102;108;116]%N))) TString = Some (Ok (FStr [100;102;108;116]%N)).
Proof. vm_compute. repeat split; reflexivity. Qed.

(* the tag argument mapper=<tag key> of a property selects the struct tag that names the fields for THAT property;
   without it the yaml tag does *)
Example c17_mapper_selects_tag_ex :
  let g := GStruct [([77;97;120;67;111;110;110]%N,
                     [(lit_yaml, [109;97;120;95;99;111;110;110]%N); ([106;115;111;110]%N, [109;97;120;67;111;110;110;44;111;109;105;116;101;109;112;116;121]%N)],
                     GInt 64)] in
  let v := VMap [([109;97;120;95;99;111;110;110]%N, VInt 64)] in
  bind_prefix v (bound_type None g) = Ok (FStruct [([109;97;120;95;99;111;110;110]%N, FInt 64)]) /\
  bind_prefix v (bound_type (Some [106;115;111;110]%N) g) = Ok (FStruct [([109;97;120;67;111;110;110]%N, FInt 0)]) /\
  bind_prefix (VMap [([109;97;120;99;111;110;110]%N, VInt 3)]) (bound_type (Some [106;115;111;110]%N) g)
    = Ok (FStruct [([109;97;120;67;111;110;110]%N, FInt 3)]).
Proof. vm_compute. repeat split; reflexivity. Qed.

(* KF-C17i  "${nokey:7}x" under key k into a string field: substituted again on the value path ("7x") *)
Theorem c17_placeholder_in_value_refuted : forall fx, exists cfg key T,
  key_ok key = true /\ bind_key_value fx cfg key T <> Some (bind_prefix (cfg key) T).
Proof.
  intros fx. exists (cfg_of [([107]%N, VStr [36;123;110;111;107;101;121;58;55;125;120]%N)]), [107]%N, TString.
  split; [reflexivity|destruct fx; differ].
Qed.

(* ---- population passes over time: binding has no memory ----------------------------------------------------------- *)

(* In every history of Configure.Set calls and population passes on one configuration store, the pass that follows
   a history [before] binds every point - prefix, value placeholder, prop shorthand, in any mix - from the store as
   the Sets of [before] left it: what it yields is what the same pass yields when [before] had contained no pass at
   all.  Earlier passes over the same points (the first, failed creation of a lazy component) or over others leave no
   trace; in particular nothing resolved, formatted or bound the first time is used again. *)
Theorem c17_repopulate_no_memory : forall fx s before ps,
  prun fx s (before ++ [PPopulate ps]) = prun fx s before ++ [populate fx (pstate s (psets_only before)) ps]
  /\ populate fx (pstate s (psets_only before)) ps = map (bind_point fx (vget (pstate s before))) ps.
Proof.
  intros fx s before ps. split; [apply prun_pass_after|]. rewrite pstate_sets_only. reflexivity.
Qed.

(* the retry shape: populate, correct the configuration, populate the SAME points again - the second pass is the
   pass of a component that is populated for the first time after the Sets *)
Corollary c17_repopulate_retry : forall fx s ps sets,
  psets_only sets = sets ->
  last (prun fx s (PPopulate ps :: sets ++ [PPopulate ps])) [] = populate fx (pstate s sets) ps
  /\ last (prun fx s (sets ++ [PPopulate ps])) [] = populate fx (pstate s sets) ps.
Proof.
  intros fx s ps sets Hs. split.
  - change (PPopulate ps :: sets ++ [PPopulate ps]) with ((PPopulate ps :: sets) ++ [PPopulate ps]).
    rewrite last_pass. cbn [psets_only filter]. fold (psets_only sets). rewrite Hs. reflexivity.
  - rewrite last_pass, Hs. reflexivity.
Qed.

(* A bind after a Set sees the Set: once Configure.Set(k, v) has run, the point prefix:"k" (k in any letter case) binds
   the value that was set converted to the field's type, and - on the agreement domain [safe] - so do value:"${k}" and
   prop:"k", whatever the store held before and whatever was bound from it (the store s is arbitrary). *)
Theorem c17_rebind_after_set : forall fx s k v T,
  lower_keys v <> VNull ->
  (forall k' req, lower k = lower k' ->
     bind_point fx (vget (vset s k v)) (mkCPoint RtPrefix req k' T) = Some (bind_prefix_r req (lower_keys v) T))
  /\ (forall text, key_ok k = true -> safe fx (lower_keys v) T = true -> format_cfg fx (lower_keys v) = Ok text ->
       inert text = true ->
       bind_point fx (vget (vset s k v)) (mkCPoint RtValue true (ph k) T) = Some (bind_prefix (lower_keys v) T)
       /\ (simple_key k = true ->
           bind_point fx (vget (vset s k v)) (mkCPoint RtProp true k T) = Some (bind_prefix (lower_keys v) T))).
Proof.
  intros fx s k v T Hv. split.
  - intros k' req Hk. apply bind_prefix_after_set; assumption.
  - intros text Hk Hs Hf Hi. split.
    + apply (bind_value_after_set fx s k v T text); assumption.
    + intros Hsk. apply (bind_prop_after_set fx s k v T text); assumption.
Qed.

(* svc.port: 80 in the loaded document; the lazy client is populated (and fails in Init), App.Set("svc.port", 8080),
   the client is populated again: 8080 on all three routes *)
Definition ex_port_key : bytes := [115;118;99;46;112;111;114;116]%N.
Definition ex_port_store : vstore := mkStore [] [([115;118;99]%N, VMap [([112;111;114;116]%N, VInt 80)])].
Definition ex_port_points : list cpoint :=
  [mkCPoint RtPrefix true ex_port_key (TInt 64); mkCPoint RtValue true (ph ex_port_key) (TInt 64);
   mkCPoint RtProp true ex_port_key (TInt 64)].

Example c17_repopulate_no_memory_ex : forall fx,
  prun fx ex_port_store [PPopulate ex_port_points; PSet ex_port_key (VInt 8080); PPopulate ex_port_points] =
  [[Some (Ok (FInt 80)); Some (Ok (FInt 80)); Some (Ok (FInt 80))];
   [Some (Ok (FInt 8080)); Some (Ok (FInt 8080)); Some (Ok (FInt 8080))]].
Proof. intros fx. destruct fx; vm_compute; reflexivity. Qed.

Example c17_repopulate_retry_ex : psets_only [PSet ex_port_key (VInt 8080)] = [PSet ex_port_key (VInt 8080)].
Proof. reflexivity. Qed.

Example c17_rebind_after_set_ex :
  lower_keys (VInt 8080) <> VNull /\ key_ok ex_port_key = true /\ simple_key ex_port_key = true
  /\ safe false (lower_keys (VInt 8080)) (TInt 64) = true
  /\ (exists text, format_cfg false (lower_keys (VInt 8080)) = Ok text /\ inert text = true).
Proof.
  split; [discriminate|]. split; [vm_compute; reflexivity|]. split; [vm_compute; reflexivity|].
  split; [vm_compute; reflexivity|]. eexists. split; vm_compute; reflexivity.
Qed.
