(* C07 — Injection by name selects exactly the named component.

   Model: Model/Resolve.v ([candidates] for a wire tag with a name = GetMetaByName, a nil
   definition when the name is unknown), [filter_dependencies], Model/Factory.v [inject]
   (= Property.Inject with the assignability check) and Model/SingletonRegistry.v
   (RegisterSingleton; registered name = custom name if declared, else default name).
   In the factory model a name IS the rank of the registered name string, so "the component
   registered under that name" is the number itself; [SByName None] is a name nobody registered.
   Quantified over all populations (any number of components sharing a type), all holders,
   all field kinds (pointer, interface, any), required and optional. *)
From Coq Require Import List Arith Bool.
From IocVerif Require Import Model.Registry Model.Resolve Model.Factory Model.SingletonRegistry Proofs.ResolveProofs Proofs.SingletonRegistryProofs.
Import ListNotations.

(* the named component and nothing else is proposed, however many others share its type *)
Theorem c07_named_exact : forall enum pop h p n,
  pt_sel p = SByName (Some n) -> pt_slice p = false -> pt_target p <> TOther ->
  n <> h ->
  (match pt_quals p with Some qs => qual_ok pop qs n = true | None => True end) ->
  filter_dependencies repaired pop h p (candidates enum pop p) = FOk [n].
Proof.
  intros enum pop h p n Hs Hsl Ht Hne Hq.
  rewrite (candidates_named enum pop p (Some n) Hs Hsl Ht).
  rewrite filter_dependencies_repaired by reflexivity.
  unfold survivors, admitted. cbn [remove_nil filter].
  assert (Ha : negb (Nat.eqb n h) && match pt_quals p with Some qs => qual_ok pop qs n | None => true end = true).
  { apply andb_true_iff. split; [apply negb_true_iff, Nat.eqb_neq; exact Hne|].
    destruct (pt_quals p); [exact Hq|reflexivity]. }
  rewrite Ha, Hsl. reflexivity.
Qed.

(* nobody is registered under the requested name: an error when required, nothing when optional *)
Theorem c07_absent : forall enum pop h p,
  pt_sel p = SByName None -> pt_slice p = false -> pt_target p <> TOther ->
  further_one repaired pop h p (candidates enum pop p) = (if pt_required p then None else Some []).
Proof.
  intros enum pop h p Hs Hsl Ht. rewrite (candidates_named enum pop p None Hs Hsl Ht). reflexivity.
Qed.

(* the named component is assigned when it can be; otherwise an error when the point is required and
   the state (hence the field) is left untouched when it is optional *)
Theorem c07_inject_named : forall s st h k p v,
  pt_slice p = false -> is_self h v = false ->
  inject repaired s st h k p [v] =
    if assignable (s_pop s) v (pt_target p) then Ok (write_field st h k [v])
    else if pt_required p then Fail (FErr ENotAssignable) st else Ok st.
Proof.
  intros s st h k p v Hsl Hself. unfold inject. cbn [filter]. rewrite Hself. cbn [negb].
  rewrite Hsl. cbn [forallb]. rewrite andb_true_r. reflexivity.
Qed.

Theorem c07_written_field : forall st h k vs, field_of (write_field st h k vs) h k = vs.
Proof.
  intros st h k vs. unfold field_of, write_field. cbn [flds klookup].
  unfold key_eqb. cbn [fst snd]. rewrite !Nat.eqb_refl. reflexivity.
Qed.

(* Property.Inject never panics on the repaired tree, whatever it is handed *)
Theorem c07_never_panics : forall s st h k p vs st',
  inject repaired s st h k p vs <> Fail FPanic st'.
Proof.
  intros s st h k p vs st'. unfold inject.
  destruct vs as [|v0 r]; [destruct (pt_required p); discriminate|].
  destruct (filter (fun v => negb (is_self h v)) (v0 :: r)) as [|w t]; [destruct (pt_required p); discriminate|].
  destruct (forallb _ _); [discriminate|]. cbn [fix_c07 repaired]. destruct (pt_required p); discriminate.
Qed.

(* on the unrepaired tree the same call panics (reflect.Value.Set) *)
Definition ex_scn7 : scenario :=
  mkScn [ mkComp 0 [] false None false false [] [] [] None None None false None;
          mkComp 1 [] false None false false [] [mkPoint false (TPtr 5) (SByName (Some 0)) None false] [] None None None false None ]
        [] false None [0; 1].
Theorem c07_wrong_type_panics_refuted :
  inject unrepaired ex_scn7 finit 1 0 (mkPoint false (TPtr 5) (SByName (Some 0)) None false) [VOrig 0] = Fail FPanic finit.
Proof. vm_compute. reflexivity. Qed.
Example c07_wrong_type_example :
  inject repaired ex_scn7 finit 1 0 (mkPoint false (TPtr 5) (SByName (Some 0)) None false) [VOrig 0] = Ok finit
  /\ inject repaired ex_scn7 finit 1 0 (mkPoint false (TPtr 5) (SByName (Some 0)) None true) [VOrig 0] = Fail (FErr ENotAssignable) finit
  /\ field_of (match inject repaired ex_scn7 finit 1 0 (mkPoint false (TPtr 0) (SByName (Some 0)) None true) [VOrig 0] with
               | Ok st => st | Fail _ st => st end) 1 0 = [VOrig 0].
Proof. vm_compute. repeat split. Qed.

(* names: custom name if the component declares a non-empty one, otherwise the default name *)
Theorem c07_reg_name : forall r,
  reg_name r = match rq_custom r with Some n => n | None => rq_default r end.
Proof. reflexivity. Qed.

(* two distinct components can never be registered under one name *)
Theorem c07_unique_names : forall rs, NoDup (map fst (fst (register_all [] rs))).
Proof. intros rs. apply register_all_NoDup. constructor. Qed.

(* the refusal is a Panicf of the library's logger, which panics only while the log level lets Panic messages through;
   at the quietest level (app.LogLevel(syslog.LvFatal)) a second instance under a taken name is dropped silently and
   registration goes on (Model/SingletonRegistry.v register_all_q).  Also then: never two components under one name,
   the first registrant keeps its name, and without a clash the two levels do exactly the same *)
Theorem c07_unique_names_quiet : forall rs, NoDup (map fst (fst (register_all_q [] rs))).
Proof. intros rs. apply register_all_q_NoDup. constructor. Qed.

Theorem c07_first_registrant_keeps_quiet : forall rs1 rs2 n i,
  sfind n (fst (register_all_q [] rs1)) = Some i -> sfind n (fst (register_all_q (fst (register_all_q [] rs1)) rs2)) = Some i.
Proof. intros rs1 rs2 n i H. apply register_all_q_keeps. exact H. Qed.

Theorem c07_levels_agree_without_clash : forall rs, refused rs = false -> register_all_q [] rs = register_all [] rs.
Proof. intros rs H. apply register_all_q_agrees. exact H. Qed.

Theorem c07_second_instance_rejected : forall s r i,
  sfind (reg_name r) s = Some i -> i <> rq_inst r -> register s r = (s, RegPanic).
Proof.
  intros s r i Hf Hne. unfold register. rewrite Hf.
  destruct (Nat.eqb_spec i (rq_inst r)); [contradiction|reflexivity].
Qed.

Example c07_register_example :
  register_all [] [mkReq 0 None 10; mkReq 1 (Some 20) 10; mkReq 0 None 10; mkReq 2 (Some 20) 11; mkReq 3 None 12]
  = ([(10, 0); (20, 1)], [RegOk; RegOk; RegSame; RegPanic]).
Proof. vm_compute. reflexivity. Qed.

(* ---- run level: what ends up in a named field after a successful start (Proofs/FactoryWiring.v) ------------ *)
From IocVerif Require Import Model.App Proofs.FactoryWiring Proofs.FactoryNoPanic.

Theorem c07_wired_named : forall s st h c k p n,
  run repaired s = Ok st ->
  procs_pointless_b (normalise repaired s) = true -> stages_ok_b (normalise repaired s) = true ->
  alookup h (L1 (reg st)) <> None -> get_comp (s_pop s) h = Some c -> nth_error (c_points c) k = Some p ->
  pt_sel p = SByName (Some n) -> pt_slice p = false -> pt_target p <> TOther -> n <> h ->
  (match pt_quals p with Some qs => qual_ok (s_pop s) qs n = true | None => True end) ->
  (* exactly the named component (its published object, assignable to the field) ... *)
  (map owner (field_of st h k) = [n]
   /\ forallb (fun v => assignable (s_pop s) v (pt_target p)) (field_of st h k) = true)
  (* ... or, when it cannot be assigned, an untouched optional field (a required one fails the start) *)
  \/ (field_of st h k = [] /\ pt_required p = false).
Proof.
  intros s st h c k p n H Hpp Hso Hpub Hc Hk Hs Hsl Ht Hne Hq.
  destruct (run_core_wired repaired (normalise repaired s) st eq_refl eq_refl eq_refl eq_refl Hpp Hso H h c k p Hpub Hc Hk)
    as [x [Hx Hw]].
  cbn [normalise s_pop s_oracle enum_order fix_c10 repaired] in Hx, Hw.
  unfold further_one in Hx. rewrite (c07_named_exact _ _ _ _ _ Hs Hsl Ht Hne Hq) in Hx. injection Hx as <-.
  unfold wired_point in Hw. cbn [map remove_nil] in Hw. rewrite Hsl in Hw. cbn [firstn] in Hw. exact Hw.
Qed.

(* a name nobody registered: the start does not succeed with a required point; an optional one stays empty *)
Theorem c07_wired_absent : forall s st h c k p,
  run repaired s = Ok st ->
  procs_pointless_b (normalise repaired s) = true -> stages_ok_b (normalise repaired s) = true ->
  alookup h (L1 (reg st)) <> None -> get_comp (s_pop s) h = Some c -> nth_error (c_points c) k = Some p ->
  pt_sel p = SByName None -> pt_slice p = false -> pt_target p <> TOther ->
  pt_required p = false /\ field_of st h k = [].
Proof.
  intros s st h c k p H Hpp Hso Hpub Hc Hk Hs Hsl Ht.
  destruct (run_core_wired repaired (normalise repaired s) st eq_refl eq_refl eq_refl eq_refl Hpp Hso H h c k p Hpub Hc Hk)
    as [x [Hx Hw]].
  cbn [normalise s_pop s_oracle enum_order fix_c10 repaired] in Hx, Hw.
  rewrite (c07_absent _ _ _ _ Hs Hsl Ht) in Hx. destruct (pt_required p); [discriminate|].
  injection Hx as <-. split; [reflexivity|exact Hw].
Qed.

(* ---- the same at run level under the extended semantics (Model/FactoryX.v: Init methods that call back into the
   factory, post-processors that short-circuit instantiation; Proofs/FactoryXWiring.v).  Additional side conditions:
   no component has more than 100 points, the Init methods of the post-processor components issue no lookups, and
   the holder is not listed as short-circuited (such a component is not populated at all). ------------------- *)
From IocVerif Require Import Model.FactoryX Proofs.FactoryXLife Proofs.FactoryXNoPanic Proofs.FactoryXWiring.

Theorem c07_wired_named_extended : forall s x o st h c k p n,
  small_points s -> run_xt repaired s x = (o, Ok st) ->
  procs_pointless_b (normalise repaired s) = true -> procs_quiet_b (normalise repaired s) x = true ->
  stages_ok_b (normalise repaired s) = true ->
  alookup h (L1 (reg st)) <> None -> get_comp (s_pop s) h = Some c -> never_short x h -> nth_error (c_points c) k = Some p ->
  pt_sel p = SByName (Some n) -> pt_slice p = false -> pt_target p <> TOther -> n <> h ->
  (match pt_quals p with Some qs => qual_ok (s_pop s) qs n = true | None => True end) ->
  (* exactly the named component (its published object, assignable to the field) ... *)
  (map owner (field_of st h k) = [n]
   /\ forallb (fun v => assignable (s_pop s) v (pt_target p)) (field_of st h k) = true)
  (* ... or, when it cannot be assigned, an untouched optional field (a required one fails the start) *)
  \/ (field_of st h k = [] /\ pt_required p = false).
Proof.
  intros s x o st h c k p n Hsm H Hpp Hqt Hso Hpub Hc Hns Hk Hs Hsl Ht Hne Hq.
  destruct (run_xt_wired s x o st Hsm H Hpp Hqt Hso h c k p Hpub Hc Hns Hk) as [y0 [Hx Hw]].
  unfold further_one in Hx. rewrite (c07_named_exact _ _ _ _ _ Hs Hsl Ht Hne Hq) in Hx. injection Hx as <-.
  unfold wired_point in Hw. cbn [map remove_nil] in Hw. rewrite Hsl in Hw. cbn [firstn] in Hw. exact Hw.
Qed.

Theorem c07_wired_absent_extended : forall s x o st h c k p,
  small_points s -> run_xt repaired s x = (o, Ok st) ->
  procs_pointless_b (normalise repaired s) = true -> procs_quiet_b (normalise repaired s) x = true ->
  stages_ok_b (normalise repaired s) = true ->
  alookup h (L1 (reg st)) <> None -> get_comp (s_pop s) h = Some c -> never_short x h -> nth_error (c_points c) k = Some p ->
  pt_sel p = SByName None -> pt_slice p = false -> pt_target p <> TOther ->
  pt_required p = false /\ field_of st h k = [].
Proof.
  intros s x o st h c k p Hsm H Hpp Hqt Hso Hpub Hc Hns Hk Hs Hsl Ht.
  destruct (run_xt_wired s x o st Hsm H Hpp Hqt Hso h c k p Hpub Hc Hns Hk) as [y0 [Hx Hw]].
  rewrite (c07_absent _ _ _ _ Hs Hsl Ht) in Hx. destruct (pt_required p); [discriminate|].
  injection Hx as <-. split; [reflexivity|exact Hw].
Qed.
